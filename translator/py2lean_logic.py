#!/usr/bin/env python3
"""Python `ast` -> Lean translator for DECISION LOGIC (statement level): small functions made of assignments, if/elif/else, `for`
loops with early `return`, `raise`, comparisons, boolean operators with Python truthiness, `is None` tests, membership tests, list
comprehensions with a filter, dictionary literals used as look-up tables, and calls to other translated functions.

Output: `Gen/Logic.lean` - one ordinary (shallow) Lean definition per Python function.  The translation is typed: each entry of PROCS
declares the Lean types of the parameters (and of attributes of record parameters).  What Python leaves implicit is made explicit:

  * `x is None` / `x is not None` / truthiness of an object-or-None variable become a `match` on an `Option`; the variable may be
    used as a value only where the control flow has established that it is not None (flow-sensitive narrowing).  A use that is
    not so guarded is reported as untranslatable (in Python it would be a TypeError waiting to happen);
  * `not xs` / `xs` on a list becomes a `match` on `[]` / `h :: t`; `xs[0]` is available only where `xs` is known to be non-empty;
  * `a and b` / `a or b` are short-circuit: conditions are translated in continuation-passing style, so the right operand is
    only evaluated - and may only rely on narrowing - where Python would evaluate it;
  * a `for` loop becomes a structurally recursive auxiliary function over the list; `return` inside the loop returns from the
    whole function; variables assigned in the body are carried to the next iteration; the code after the loop is the `[]` case;
  * `raise SomeException("... text ...")` becomes `.error <tag>` where the tag is chosen by the substrings declared for the proc
    (an undeclared message is untranslatable); a function that can raise returns `Except <Err> T`.

Anything outside the fragment raises Untranslatable; the definition is then emitted as a comment plus an `opaque`-free stub
`def <name>_untranslatable : Unit := ()` so that every theorem naming the definition fails to compile: a broken tie, never a silently
wrong model.
"""
import ast


class Untranslatable(Exception):
    pass


# --------------------------------------------------------------------------------------------------------------------------------
# types:  "Int" "Nat" "Bool" "Str" "Rat" "Float" "Unit" | ("List", T) | ("Opt", T) | ("Rec", name) | ("Except", Err, T) | ("Fun", [T..], T)

def lty(t):
    if isinstance(t, str):
        return {"Int": "Int", "Nat": "Nat", "Bool": "Bool", "Str": "String", "Rat": "Rat", "Float": "Float", "Unit": "Unit", "Stream": "(List Tok)", "OV": "OV", "Tok": "Tok", "ZeroDef": "Nat", "Dest": "(List (List Tok))"}.get(t, t)
    if t[0] == "List":
        return "(List %s)" % lty(t[1])
    if t[0] == "Opt":
        return "(Option %s)" % lty(t[1])
    if t[0] == "Rec":
        return t[1]
    if t[0] == "Except":
        return "(Except %s %s)" % (t[1], lty(t[2]))
    if t[0] == "Fun":
        return "(" + " → ".join(lty(x) for x in t[1] + [t[2]]) + ")"
    if t[0] == "Prod":
        return "(" + " × ".join(lty(x) for x in t[1:]) + ")"
    if t[0] == "AssocL":
        return "(List (%s × %s))" % (lty(t[1]), lty(t[2]))
    if t[0] == "ODict":
        return "(List (%s × %s))" % (lty(t[1]), lty(t[2]))
    if t[0] == "Set":
        return "(List %s)" % lty(t[1])
    if t[0] == "MultiL":
        return "(List (%s × (List %s)))" % (lty(t[1]), lty(t[2]))
    raise Untranslatable("type %r" % (t,))


NUMERIC = ("Int", "Nat", "Rat", "Float")
LEAN_KEYWORDS = {"include", "section", "end", "at", "from", "where", "open", "namespace", "variable", "universe", "import", "export", "in", "do", "then", "else", "if", "fun", "let",
                 "have", "show", "match", "with", "instance", "class", "structure", "def", "theorem", "axiom", "example", "private", "protected", "local", "prefix", "infix", "notation",
                 "macro", "syntax", "deriving", "extends", "mutual", "partial", "unsafe", "noncomputable", "attribute", "set_option", "calc", "by", "type", "Type", "Prop", "Sort", "return", "for", "unless"}


def lstr(t):
    """Lean string literal"""
    return '"' + t.replace("\\", "\\\\").replace('"', '\\"').replace("\n", "\\n").replace("\t", "\\t") + '"'


class Env(object):
    """variable -> (lean name, type); `facts`: source text of an expression -> (lean name, type) established by narrowing (e.g. 'rt[0]')"""

    def __init__(self, vars_=None, facts=None, counter=None, aliases=None):
        self.vars = dict(vars_ or {})
        self.facts = dict(facts or {})
        self.counter = counter if counter is not None else [0]
        # name -> (dictionary variable, key text, dictionary type): the name holds the very object stored under that key of the dictionary (x = d.setdefault(key, {})),
        # so a change made through the name is a change of the dictionary's entry
        self.aliases = dict(aliases or {})

    def copy(self):
        return Env(self.vars, self.facts, self.counter, self.aliases)

    def fresh(self, base):
        self.counter[0] += 1
        return "%s_%d" % (base, self.counter[0])

    def bind(self, name, lean, ty):
        e = self.copy()
        e.vars[name] = (lean, ty)
        # facts about the old value are void
        for k in list(e.facts):
            if k == name or k.startswith(name + "[") or k.startswith(name + "."):
                del e.facts[k]
        return e

    def fact(self, key, lean, ty):
        e = self.copy()
        e.facts[key] = (lean, ty)
        return e


class Proc(object):
    def __init__(self, spec, src, fn, procs):
        self.spec, self.src, self.fn, self.procs = spec, src, fn, procs
        self.name = spec["name"]
        self.ret = spec["ret"]
        self.aux = []            # auxiliary loop functions (lean text), emitted before the main definition
        self.loopn = 0
        self.fixed = list(spec.get("implicit", []))      # [(lean name, type)] extra leading parameters (opaque operations)

    # ---------------------------------------------------------------------------------------------------------------- helpers
    def check_module_import(self, mod, name):
        """the source file imports `name` from `mod` at module level"""
        tree = ast.parse(self.src)
        for st in tree.body:
            if isinstance(st, ast.ImportFrom) and st.module == mod and any(a.name == name and a.asname is None for a in st.names):
                return
        raise Untranslatable("%s is not imported from %s at module level" % (name, mod))

    def proc_key(self, fname):
        """(file, function name) a called name stands for: the same source file, or the file and original name it is imported from (spec["imports"], checked
        against the module's import statements in gen_logic)"""
        imp = self.spec.get("imports", {}).get(fname)
        if imp:
            return (imp[0], imp[1])
        return (self.spec["file"], fname)

    def norm_call(self, c, fname):
        """keyword arguments of a call of a translated function made positional (a parameter that is skipped is the placeholder name `__default__`)"""
        key = self.proc_key(fname) if fname else None
        if not c.keywords or key not in self.procs:
            return c
        names = [n for n, _ in self.procs[key]["params"] if n != "self" and not n.startswith("self.")]
        kw = dict((k.arg, k.value) for k in c.keywords)
        if any(k not in names for k in kw) or len(c.args) > len(names):
            raise Untranslatable("keyword arguments of %s" % fname)
        args = list(c.args)
        for n in names[len(c.args):]:
            if n in kw:
                args.append(kw.pop(n))
            else:
                args.append(ast.Name(id="__default__", ctx=ast.Load()))
        if kw:
            raise Untranslatable("argument of %s given twice" % fname)
        while args and isinstance(args[-1], ast.Name) and args[-1].id == "__default__":
            args.pop()
        new = ast.Call(func=c.func, args=args, keywords=[])
        return ast.copy_location(new, c)

    def seg(self, e):
        s = ast.get_source_segment(self.src, e)
        return None if s is None else s.replace(" ", "")

    def err_tag(self, exc):
        """`raise X("msg ...")` -> error constructor, chosen by declared substrings"""
        text = ast.get_source_segment(self.src, exc) or ""
        for sub, tag in self.spec.get("raises", []):
            if sub in text:
                return tag
        raise Untranslatable("raise with undeclared message: %s" % text[:70])

    def wrap_ret(self, text, ty):
        """coerce a value of type ty to the function's return type"""
        ret = self.ret
        inner = ret[2] if ret[0] == "Except" else ret
        v = self.coerce(text, ty, inner)
        return "(.ok %s)" % v if ret[0] == "Except" else v

    def coerce(self, text, ty, want):
        if ty == want:
            return text
        if ty == "None" and isinstance(want, tuple) and want[0] == "Opt":
            return "none"
        if isinstance(want, tuple) and want[0] == "Opt" and ty == want[1]:
            return "(some %s)" % text
        import re
        m = re.match(r"^\((-?\d+) : Int\)$", text)
        if ty == "Int" and want in ("Rat", "Float") and m:
            return "(%s : %s)" % (m.group(1), want)
        if ty == "Int" and want == "Rat":
            return "((%s : Int) : Rat)" % text
        if ty == "Int" and want == "Float":
            return "(Float.ofInt %s)" % text
        if ty == "Nat" and want == "Int":
            return "((%s : Nat) : Int)" % text
        if ty == "Bool" and want == "Int":
            return "(if %s then (1 : Int) else 0)" % text
        if ty == "EmptyList" and isinstance(want, tuple) and want[0] == "List":
            return "[]"
        if ty == "EmptySet" and isinstance(want, tuple) and want[0] == "Set":
            return "[]"
        if ty == "EmptyDict" and isinstance(want, tuple) and want[0] in ("AssocL", "MultiL", "ODict"):
            return "[]"
        if isinstance(ty, tuple) and ty[0] == "Prod" and isinstance(want, tuple) and want[0] == "Prod" and len(ty) == len(want):
            # componentwise coercion needs the components: only done for literal tuples (see expr Tuple) - reaching here is a mismatch
            pass
        raise Untranslatable("cannot use a %s where a %s is needed: %s" % (lty(ty) if ty not in ("None", "EmptyList", "EmptySet", "EmptyDict") else ty, lty(want), text[:50]))

    # ------------------------------------------------------------------------------------------------------------- expressions
    def expr(self, e, env):
        """-> (lean text, type) for an expression in VALUE position"""
        k = self.seg(e)
        if k in env.facts:
            return env.facts[k]
        if isinstance(e, ast.Constant):
            v = e.value
            if v is None:
                return ("none", "None")
            if isinstance(v, bool):
                return ("true" if v else "false", "Bool")
            if isinstance(v, int):
                return ("(%d : Int)" % v if v >= 0 else "(-%d : Int)" % -v, "Int")
            if isinstance(v, float):
                numty = self.spec.get("float", "Rat")
                txt = ast.get_source_segment(self.src, e)
                if numty == "Float":
                    return ("(%s : Float)" % txt, "Float")
                from fractions import Fraction
                q = Fraction(txt)
                if q.denominator == 1:
                    return ("(%d : Rat)" % q.numerator, "Rat")
                return ("((%d : Rat) / %d)" % (q.numerator, q.denominator), "Rat")
            if isinstance(v, str):
                return ('"%s"' % v.replace("\\", "\\\\").replace('"', '\\"'), "Str")
            raise Untranslatable("constant %r" % (v,))
        if isinstance(e, ast.Name):
            if e.id in env.vars:
                return env.vars[e.id]
            p = self.procs.get(self.proc_key(e.id))
            if p is not None and not p.get("implicit") and not any(n.startswith("self") for n, _ in p["params"]):
                # a translated module-level function used as a value (handed to another function)
                return (p["name"], ("Fun", [t for _, t in p["params"]], p["ret"]))
            g = self.spec.get("globals", {}).get(e.id)
            if g is not None:
                # a module-level name imported from another module, declared an opaque operation: (module the source imports it from, implicit parameter)
                mod, lean = g
                self.check_module_import(mod, e.id)
                return (lean, dict(self.fixed)[lean])
            raise Untranslatable("free name %s" % e.id)
        if isinstance(e, ast.Attribute):
            return self.attribute(e, env)
        if isinstance(e, ast.Subscript) and isinstance(e.value, ast.Subscript):
            # obj[a][b] on a record with a declared two-level look-up (the raw parser: section, then option)
            try:
                bt0, bty0 = self.expr(e.value.value, env)
            except Untranslatable:
                bt0, bty0 = None, None
            if isinstance(bty0, tuple) and bty0[0] == "Rec":
                m2 = self.spec.get("methods", {}).get((bty0[1], "__getitem2__"))
                if m2:
                    return ("(%s %s %s %s)" % (m2[0], bt0, self.coerce(*self.expr(e.value.slice, env), m2[1][0]), self.coerce(*self.expr(e.slice, env), m2[1][1])), m2[2])
        if isinstance(e, ast.Subscript):
            # dictionary-valued attribute of a record, declared as an opaque look-up:  pot.electronDensityFunction[species]
            if isinstance(e.value, ast.Attribute):
                try:
                    recv, rty = self.expr(e.value.value, env)
                except Untranslatable:
                    recv, rty = None, None
                if isinstance(rty, tuple) and rty[0] == "Rec":
                    sub = self.spec.get("subscripts", {}).get((rty[1], e.value.attr))
                    if sub:
                        lname, kty, vty = sub
                        return ("(%s %s %s)" % (lname, recv, self.coerce(*self.expr(e.slice, env), kty)), vty)
            # a local association list (a dict built by the function itself): the most recent binding of the key
            bt, bty = self.expr(e.value, env)
            if isinstance(bty, tuple) and bty[0] == "Rec":
                m = self.spec.get("methods", {}).get((bty[1], "__getitem__"))
                if m:
                    return ("(%s %s %s)" % (m[0], bt, self.coerce(*self.expr(e.slice, env), m[1][0])), m[2])
            if isinstance(bty, tuple) and bty[0] == "AssocL" and self.seg(e) in env.facts:
                return env.facts[self.seg(e)]
            if isinstance(bty, tuple) and bty[0] == "AssocL":
                raise Untranslatable("plain subscript of a local dictionary (may raise KeyError): use .get")
            if isinstance(bty, tuple) and bty[0] == "List" and isinstance(e.slice, ast.Slice) and e.slice.lower is None and e.slice.step is None \
                    and isinstance(e.slice.upper, ast.Constant) and isinstance(e.slice.upper.value, int) and e.slice.upper.value >= 0:
                return ("(%s.take %d)" % (bt, e.slice.upper.value), bty)          # xs[:n]
            if isinstance(bty, tuple) and bty[0] == "Prod" and isinstance(e.slice, ast.Constant) and isinstance(e.slice.value, int) and 0 <= e.slice.value < len(bty) - 1:
                i, n = e.slice.value, len(bty) - 1
                return ("%s.%s" % (bt, ".".join(["2"] * i + (["1"] if i < n - 1 else []))), bty[1 + i])
            if isinstance(bty, tuple) and bty[0] == "List" and isinstance(e.slice, ast.UnaryOp) and isinstance(e.slice.op, ast.USub) \
                    and isinstance(e.slice.operand, ast.Constant) and e.slice.operand.value == 1:
                return ("(listGet %s (((%s.length : Nat) : Int) - 1))" % (bt, bt), bty[1])          # xs[-1]
            if isinstance(bty, tuple) and bty[0] == "List":
                it, ity = self.expr(e.slice, env)
                if ity in ("Int", "Nat"):
                    return ("(listGet %s %s)" % (bt, self.coerce(it, ity, "Int")), bty[1])
            raise Untranslatable("subscript %s not known to be in range here" % k)
        if isinstance(e, ast.UnaryOp):
            if isinstance(e.op, ast.Not):
                t, ty = self.truth(e.operand, env)
                return ("(!%s)" % t, "Bool")
            if isinstance(e.op, ast.USub):
                t, ty = self.expr(e.operand, env)
                if ty not in NUMERIC:
                    raise Untranslatable("negation of %s" % lty(ty))
                return ("(-%s)" % t, ty)
        if isinstance(e, ast.BoolOp):
            return self.boolop_value(e, env)
        if isinstance(e, ast.Compare):
            return self.compare(e, env)
        if isinstance(e, ast.BinOp):
            return self.binop(e, env)
        if isinstance(e, ast.IfExp):
            return (self.cond(e.test, env, lambda en: self.expr(e.body, en)[0], lambda en: self.expr(e.orelse, en)[0]), self.expr(e.body, env)[1])
        if isinstance(e, ast.Call):
            return self.call(e, env)
        if isinstance(e, ast.Tuple):
            parts = [self.expr(x, env) for x in e.elts]
            return ("(" + ", ".join(p[0] for p in parts) + ")", ("Prod",) + tuple(p[1] for p in parts))
        if isinstance(e, ast.List):
            if not e.elts:
                return ("[]", "EmptyList")
            parts = [self.expr(x, env) for x in e.elts]
            if len(set(repr(p_[1]) for p_ in parts)) > 1 and self.spec.get("arg_lists"):
                # a list of differently typed values built to be star-applied to a constructor: the tuple of its items
                return ("(" + ", ".join(p_[0] for p_ in parts) + ")", ("Prod",) + tuple(p_[1] for p_ in parts))
            return ("[" + ", ".join(p[0] for p in parts) + "]", ("List", parts[0][1]))
        if isinstance(e, ast.ListComp):
            return self.listcomp(e, env)
        if isinstance(e, ast.Dict) and not e.keys:
            return ("[]", "EmptyDict")
        raise Untranslatable("expression %s" % type(e).__name__)

    def attribute(self, e, env):
        # self.<attr> declared as a parameter-like binding
        k = self.seg(e)
        if k in env.vars:
            return env.vars[k]
        if k in self.spec.get("const_attrs", {}):
            # a class-level constant of another class, declared with its value (checked against the class statement in gen_logic)
            return self.spec["const_attrs"][k][0], self.spec["const_attrs"][k][1]
        base, bty = self.expr(e.value, env)
        if isinstance(bty, tuple) and bty[0] == "Rec" and (bty[1], e.attr) in self.spec.get("properties", {}):
            # a property of the object, translated on its own (spec["properties"]: (record, attribute) -> (file, function name))
            pk = self.spec["properties"][(bty[1], e.attr)]
            cands = [self.procs[pk]] + list(self.procs[pk].get("variants", []))
            for pp in cands:
                if pp["params"][0][1] == bty:
                    imp = " ".join(n for n, _ in pp.get("implicit", []))
                    return ("(%s %s %s)" % (pp["name"], imp, base) if imp else "(%s %s)" % (pp["name"], base), pp["ret"])
            raise Untranslatable("property %s is not translated for %s" % (e.attr, bty[1]))
        if isinstance(bty, tuple) and bty[0] == "Rec":
            fields = self.spec.get("records", {}).get(bty[1], {})
            if e.attr in fields:
                f, fty = fields[e.attr]
                return ("%s.%s" % (base, f), fty)
        if isinstance(bty, tuple) and bty[0] == "Rec" and (bty[1], e.attr) in self.spec.get("attr_ops", {}):
            # an attribute holding another opaque object: a declared operation (spec["attr_ops"]: (record, attribute) -> (implicit parameter, type))
            op, oty = self.spec["attr_ops"][(bty[1], e.attr)]
            return ("(%s %s)" % (op, base), oty)
        if isinstance(bty, tuple) and bty[0] == "Opt":
            raise Untranslatable("attribute %s of a value that may be None" % k)
        raise Untranslatable("attribute %s" % k)

    def truth(self, e, env):
        """Python truthiness of e as a Bool expression (value position)"""
        t, ty = self.expr(e, env)
        if ty == "Bool":
            return t, ty
        if isinstance(ty, tuple) and ty[0] == "Opt" and isinstance(ty[1], tuple) and ty[1][0] == "Rec":
            return ("%s.isSome" % t, "Bool")          # objects are truthy
        if isinstance(ty, tuple) and ty[0] in ("List", "Set"):
            return ("(!%s.isEmpty)" % t, "Bool")
        if isinstance(ty, tuple) and ty[0] == "Opt" and isinstance(ty[1], tuple) and ty[1][0] == "List":
            return ("(match %s with | some (_ :: _) => true | _ => false)" % t, "Bool")
        if ty == "Int":
            return ("(%s != 0)" % t, "Bool")
        if ty == "Str":
            return ("(%s != \"\")" % t, "Bool")
        if ty == ("Opt", "Str"):
            return ("(match %s with | some s => s != \"\" | none => false)" % t, "Bool")
        raise Untranslatable("truthiness of %s" % lty(ty))

    def boolop_value(self, e, env):
        # `X or <default>` on a maybe-None / maybe-empty list: Python returns the first truthy operand
        if isinstance(e.op, ast.Or) and len(e.values) == 2:
            a, aty = self.expr(e.values[0], env)
            if isinstance(aty, tuple) and aty[0] == "Opt" and isinstance(aty[1], tuple) and aty[1][0] == "List":
                b, bty = self.expr(e.values[1], env)
                b = self.coerce(b, bty, aty[1])
                return ("(match %s with | some (x :: xs) => x :: xs | _ => %s)" % (a, b), aty[1])
        # boolean-valued: short-circuit through the condition translator so that narrowing works
        txt = self.cond(e, env, lambda en: "true", lambda en: "false")
        return ("(%s)" % txt, "Bool")

    CMP = {ast.Lt: "<", ast.LtE: "≤", ast.Gt: ">", ast.GtE: "≥"}

    def compare(self, e, env):
        if len(e.ops) != 1:
            # a < b < c: the conjunction of the neighbouring comparisons (each operand is evaluated once in Python; here they must be names, attributes or constants)
            operands = [e.left] + list(e.comparators)
            if not all(isinstance(x_, (ast.Name, ast.Attribute, ast.Constant)) for x_ in operands):
                raise Untranslatable("chained comparison of compound operands")
            parts = [self.compare(ast.copy_location(ast.Compare(left=operands[i_], ops=[e.ops[i_]], comparators=[operands[i_ + 1]]), e), env) for i_ in range(len(e.ops))]
            if any(p_[1] != "Bool" for p_ in parts):
                raise Untranslatable("chained comparison")
            return ("(" + " && ".join(p_[0] for p_ in parts) + ")", "Bool")
        op, a, b = e.ops[0], e.left, e.comparators[0]
        if isinstance(op, (ast.Is, ast.IsNot)):
            if not (isinstance(b, ast.Constant) and b.value is None):
                raise Untranslatable("`is` other than with None")
            t, ty = self.expr(a, env)
            if not (isinstance(ty, tuple) and ty[0] == "Opt"):
                raise Untranslatable("`is None` on a %s" % lty(ty))
            return ("%s.%s" % (t, "isNone" if isinstance(op, ast.Is) else "isSome"), "Bool")
        if isinstance(op, (ast.Eq, ast.NotEq)) and isinstance(b, ast.Constant) and b.value is None:
            t, ty = self.expr(a, env)
            if isinstance(ty, tuple) and ty[0] == "Opt":
                return ("%s.%s" % (t, "isNone" if isinstance(op, ast.Eq) else "isSome"), "Bool")
            raise Untranslatable("comparison of a %s with None" % lty(ty))
        if isinstance(op, (ast.In, ast.NotIn)):
            x, xty = self.expr(a, env)
            c, cty = self.expr(b, env)
            if cty == "Str" and xty == "Str":
                t = "(strContains %s %s)" % (c, x)          # substring test
                return (t if isinstance(op, ast.In) else "(!%s)" % t, "Bool")
            if isinstance(cty, tuple) and cty[0] in ("AssocL", "ODict") and cty[1] == xty:
                t = "(%s.any fun e => e.1 == %s)" % (c, x)
                return (t if isinstance(op, ast.In) else "(!%s)" % t, "Bool")
            if not (isinstance(cty, tuple) and cty[0] in ("List", "Set") and cty[1] == xty):
                raise Untranslatable("membership in %s" % (lty(cty) if cty not in ("None", "EmptyList") else cty))
            t = "(%s.contains %s)" % (c, x)
            return (t if isinstance(op, ast.In) else "(!%s)" % t, "Bool")
        if isinstance(a, ast.Call) and isinstance(a.func, ast.Name) and a.func.id == "getattr" and len(a.args) == 3 and isinstance(a.args[1], ast.Constant) \
                and isinstance(a.args[2], ast.Constant) and a.args[2].value is None and isinstance(b, ast.Constant) and isinstance(b.value, str) and isinstance(op, (ast.Eq, ast.NotEq)):
            # getattr(x, 'attr', None) == 'text': the object has the attribute and it holds that text
            bt_, bty_ = self.expr(a.args[0], env)
            if isinstance(bty_, tuple) and bty_[0] == "Rec":
                fields_ = self.spec.get("records", {}).get(bty_[1], {})
                has_, fld_ = fields_.get("has_" + a.args[1].value), fields_.get(a.args[1].value)
                if has_ and fld_ and fld_[1] == "Str":
                    t = "(%s.%s && %s.%s == %s)" % (bt_, has_[0], bt_, fld_[0], lstr(b.value))
                    return (t if isinstance(op, ast.Eq) else "(!%s)" % t, "Bool")
        x, xty = self.expr(a, env)
        y, yty = self.expr(b, env)
        x, y, ty = self.unify(x, xty, y, yty)
        if isinstance(op, (ast.Eq, ast.NotEq)):
            t = "(%s == %s)" % (x, y)
            return (t if isinstance(op, ast.Eq) else "(!%s)" % t, "Bool")
        if ty not in NUMERIC:
            raise Untranslatable("ordering on %s" % lty(ty))
        return ("(decide (%s %s %s))" % (x, self.CMP[type(op)], y), "Bool")

    def unify(self, x, xty, y, yty):
        if xty == yty:
            return x, y, xty
        order = ["Bool", "Nat", "Int", "Rat", "Float"]
        if xty in order and yty in order:
            hi = xty if order.index(xty) > order.index(yty) else yty
            if hi == "Bool":
                hi = "Int"

            def up(t, ty):
                while ty != hi:
                    nxt = {"Bool": "Int", "Nat": "Int", "Int": hi}[ty] if ty != "Rat" else hi
                    t = self.coerce(t, ty, nxt)
                    ty = nxt
                return t
            return up(x, xty), up(y, yty), hi
        raise Untranslatable("operands of types %s and %s" % (xty, yty))

    def binop(self, e, env):
        if isinstance(e.op, (ast.BitXor, ast.Sub, ast.BitOr)):
            x, xty = self.expr(e.left, env)
            if isinstance(xty, tuple) and xty[0] == "Set":
                y, yty = self.expr(e.right, env)
                if yty != xty:
                    raise Untranslatable("set operation on %s and %s" % (xty, yty))
                fn = {ast.BitXor: "setSymDiff", ast.Sub: "setDiff", ast.BitOr: "setUnion"}[type(e.op)]
                return ("(%s %s %s)" % (fn, x, y), xty)
        if isinstance(e.op, ast.Mod) and self.const_str(e.left, env) is not None:
            # a formatted piece used as a VALUE (collected in a list and joined later): a token
            return (self.fmt_tok(e, env), "Tok")
        x, xty = self.expr(e.left, env)
        y, yty = self.expr(e.right, env)
        if isinstance(e.op, ast.Mult) and "OV" in (xty, yty):
            o, r, rty = (x, y, yty) if xty == "OV" else (y, x, xty)
            if rty in NUMERIC:
                return ("(OV.scaled %s %s)" % (self.coerce(r, rty, "Rat"), o), "OV")      # an opaque value times a number: kept symbolic
            raise Untranslatable("product of opaque values")
        if isinstance(e.op, ast.Mod) and self.const_str(e.left, env) is not None:
            # a formatted piece used as a VALUE (collected in a list and joined later): a token
            return (self.fmt_tok(e, env), "Tok")
        if xty == "Bool":
            x, xty = self.coerce(x, "Bool", "Int"), "Int"
        if yty == "Bool":
            y, yty = self.coerce(y, "Bool", "Int"), "Int"
        x, y, ty = self.unify(x, xty, y, yty)
        if ty not in NUMERIC:
            raise Untranslatable("arithmetic on %s" % lty(ty))
        op = {ast.Add: "+", ast.Sub: "-", ast.Mult: "*"}.get(type(e.op))
        if op:
            return ("(%s %s %s)" % (x, op, y), ty)
        if isinstance(e.op, ast.Div) and ty in ("Rat", "Float"):
            return ("(%s / %s)" % (x, y), ty)
        if isinstance(e.op, ast.Mod) and ty == "Int":
            return ("(%s %% %s)" % (x, y), ty)       # Int.emod = Python's % for a positive modulus
        raise Untranslatable("operator %s on %s" % (type(e.op).__name__, ty))

    def call(self, e, env):
        f = e.func
        if isinstance(f, ast.Attribute) and f.attr == "_replace" and not e.args and e.keywords:
            # namedtuple._replace(field = value, ...): the same record with those fields changed
            bt, bty = self.expr(f.value, env)
            if isinstance(bty, tuple) and bty[0] == "Rec":
                fields = self.spec.get("records", {}).get(bty[1], {})
                ups = []
                for kw_ in e.keywords:
                    if kw_.arg not in fields:
                        raise Untranslatable("_replace of an undeclared field %s" % kw_.arg)
                    fl, fty = fields[kw_.arg]
                    ups.append("%s := %s" % (fl, self.coerce(*self.expr(kw_.value, env), fty)))
                return ("{ %s with %s }" % (bt, ", ".join(ups)), bty)
        if isinstance(f, ast.Name) and f.id in self.spec.get("const_objects", {}) and not e.args and not e.keywords:
            # ClassName(): an object without state, declared as a constant (its class attributes are checked against the class statement through const_attrs)
            return self.spec["const_objects"][f.id]
        if isinstance(f, ast.Attribute) and f.attr == "format" and not e.args and e.keywords and self.spec.get("str_format"):
            # "{a}:{b}".format(a = x, b = y) with text arguments: the concatenation of the pieces
            fmt = self.const_str(f.value, env)
            if fmt is None:
                raise Untranslatable("format template is not a constant")
            import re as _re
            kw = dict((k_.arg, k_.value) for k_ in e.keywords)
            pieces = _re.split(r"(\{\w+\})", fmt)
            out = []
            for pc in pieces:
                if _re.fullmatch(r"\{\w+\}", pc):
                    if pc[1:-1] not in kw:
                        raise Untranslatable("template names %s, no such keyword" % pc)
                    t, ty = self.expr(kw[pc[1:-1]], env)
                    if ty != "Str":
                        raise Untranslatable("template argument %s is not text" % pc)
                    out.append(t)
                elif pc:
                    if "{" in pc or "}" in pc:
                        raise Untranslatable("template field with a format specification")
                    out.append(lstr(pc))
            if set(kw) - set(pc[1:-1] for pc in pieces if _re.fullmatch(r"\{\w+\}", pc)):
                raise Untranslatable("keyword not used by the template")
            return ("(" + " ++ ".join(out) + ")", "Str")
        if e.keywords and isinstance(f, ast.Name) and f.id in self.spec.get("rec_constructors", {}) and not e.args \
                and [k.arg for k in e.keywords] == self.spec.get("rec_fields", {}).get(f.id):
            # a namedtuple built with all its fields by keyword, in field order
            e = ast.copy_location(ast.Call(func=f, args=[k.value for k in e.keywords], keywords=[]), e)
        if e.keywords:
            nm0 = f.id if isinstance(f, ast.Name) else (f.attr if isinstance(f, ast.Attribute) and isinstance(f.value, ast.Name) and f.value.id in ("self", "cls") else None)
            e = self.norm_call(e, nm0)
        if e.keywords:
            raise Untranslatable("keyword arguments")
        if isinstance(f, ast.Attribute) and f.attr == "join" and len(e.args) == 1 and isinstance(f.value, ast.Constant) and f.value.value == "" \
                and isinstance(e.args[0], ast.Call) and isinstance(e.args[0].func, ast.Attribute) and e.args[0].func.attr == "split" and not e.args[0].args:
            # "".join(x.split()): x without its white space - an operation handed to the translated function
            m = self.spec.get("methods", {}).get(("Str", "remove_whitespace"))
            t, ty = self.expr(e.args[0].func.value, env)
            if m and ty == "Str":
                return ("(%s %s)" % (m[0], t), "Str")
        if isinstance(f, ast.Attribute) and isinstance(f.value, ast.Call) and isinstance(f.value.func, ast.Name) and f.value.func.id == "super" \
                and f.attr in self.spec.get("super_ops", {}):
            # super(..).method(..) of a base class outside the repository (the standard library): a declared operation
            lname, argtys, rty = self.spec["super_ops"][f.attr]
            if len(argtys) != len(e.args):
                raise Untranslatable("arity of super().%s" % f.attr)
            return ("(%s %s)" % (lname, " ".join(self.coerce(*self.expr(a, env), w) for a, w in zip(e.args, argtys))), rty)
        if isinstance(f, ast.Attribute) and isinstance(f.value, ast.Call) and isinstance(f.value.func, ast.Name) and f.value.func.id == "super" \
                and f.attr in self.spec.get("super_calls", {}):
            # super(Class, self).method(...): the base class's method, translated on its own under the declared name
            target = self.procs[("name", self.spec["super_calls"][f.attr])]
            self._via_super = True
            try:
                return self.call_proc(target, f.attr, ast.Name(id=f.attr, ctx=ast.Load()), e, env)
            finally:
                self._via_super = False
        fname = None
        if isinstance(f, ast.Name):
            fname = f.id
        elif isinstance(f, ast.Attribute) and isinstance(f.value, ast.Name) and f.value.id in ("self", "cls"):
            fname = f.attr
        # a nested helper translated on its own
        if fname in self.spec.get("local_defs", {}):
            lname, argtys, rty = self.spec["local_defs"][fname]
            args = [self.coerce(*self.expr(a, env), w) for a, w in zip(e.args, argtys)]
            if len(args) != len(argtys):
                raise Untranslatable("arity of %s" % fname)
            return ("(%s %s)" % (lname, " ".join(args)), rty)
        # a parameter that is itself a function (a writer handed in by the caller)
        if isinstance(f, ast.Name) and f.id in env.vars and isinstance(env.vars[f.id][1], tuple) and env.vars[f.id][1][0] == "Fun":
            fty = env.vars[f.id][1]
            if len(e.args) != len(fty[1]):
                raise Untranslatable("arity of %s" % f.id)
            args = [self.coerce(*self.expr(a, env), w) for a, w in zip(e.args, fty[1])]
            return ("(%s %s)" % (env.vars[f.id][0], " ".join(args)), fty[2])
        # opaque operations declared for the proc (e.g. self._rows_for_step -> `rows`)
        ops = self.spec.get("ops", {})
        if fname in ops:
            lname, argtys, rty = ops[fname]
            args = [self.coerce(*self.expr(a, env), w) for a, w in zip(e.args, argtys)]
            if len(args) != len(argtys):
                raise Untranslatable("arity of %s" % fname)
            return ("(%s %s)" % (lname, " ".join(args)), rty)
        if fname in self.spec.get("dispatch", {}) and isinstance(f, ast.Attribute):
            # self.method(...) on an object of class spec["klass"]: the translated definition the class's method resolution order selects (checked against the class statements)
            p = self.procs[("name", self.spec["dispatch"][fname])]
            owner = mro_owner(ast.parse(self.src), self.spec["klass"], fname)
            if p["file"] != self.spec["file"] or p["func"] != "%s.%s" % (owner, fname):
                raise Untranslatable("%s.%s resolves to %s.%s, not to %s" % (self.spec["klass"], fname, owner, fname, p["func"]))
            return self.call_proc(p, fname, f, e, env)
        if fname is not None and self.proc_key(fname) in self.procs:
            p0 = self.procs[self.proc_key(fname)]
            cands = [p0] + list(p0.get("variants", []))
            last = None
            for p in cands:
                try:
                    return self.call_proc(p, fname, f, e, env)
                except Untranslatable as ex:
                    last = ex
            raise last
        return self.call_other(fname, f, e, env)

    def call_proc(self, p, fname, f, e, env):
        if True:
            actual = list(e.args)
            args = []
            for n, t in p["params"]:
                if n == "self" and actual and isinstance(actual[0], ast.Name) and actual[0].id == "self" and "self" in env.vars:
                    args.append(env.vars["self"][0])
                    actual.pop(0)
                    continue
                if n == "self" and isinstance(f, ast.Attribute) and "self" in env.vars:
                    args.append(env.vars["self"][0])
                    continue
                if n.startswith("self."):
                    # an attribute the callee reads from the same object: the caller's binding of it
                    if n not in env.vars:
                        raise Untranslatable("%s needs %s, which the caller does not have" % (fname, n))
                    args.append(self.coerce(env.vars[n][0], env.vars[n][1], t))
                else:
                    if not actual or (isinstance(actual[0], ast.Name) and actual[0].id == "__default__"):
                        if actual:
                            actual.pop(0)
                        if n in p.get("defaults", {}):
                            dflt = p["defaults"][n]
                            args.append(dflt[0] if isinstance(dflt, tuple) else dflt)      # the parameter's default value, as declared (checked against the source in gen_logic)
                            continue
                        raise Untranslatable("arity of %s" % fname)
                    a0 = actual.pop(0)
                    if isinstance(a0, ast.Tuple) and isinstance(t, tuple) and t[0] == "List":
                        # a literal tuple handed to a function that iterates over it: the list of its items
                        args.append("[" + ", ".join(self.coerce(*self.expr(x, env), t[1]) for x in a0.elts) + "]")
                    else:
                        args.append(self.coerce(*self.expr(a0, env), t))
            if actual:
                raise Untranslatable("arity of %s" % fname)
            for n, _ in p.get("implicit", []):
                if n not in [m for m, _ in self.fixed]:
                    raise Untranslatable("%s needs the operation %s, which the caller does not declare" % (fname, n))
            imp = " ".join(n for n, _ in p.get("implicit", []))
            if hasattr(self, "called"):
                (self.called_super if getattr(self, "_via_super", False) else self.called).append(p)
            return ("(%s %s %s)" % (p["name"], imp, " ".join(args)), p["ret"])

    def call_other(self, fname, f, e, env):
        # a call of a callable VARIABLE (a record standing for a Python callable)
        if isinstance(f, ast.Name) and f.id in env.vars and isinstance(env.vars[f.id][1], tuple) and env.vars[f.id][1][0] == "Rec":
            m = self.spec.get("methods", {}).get((env.vars[f.id][1][1], "__call__"))
            if m and len(m[1]) == len(e.args):
                # f(*xs): the items of xs are the arguments - the operation takes the list
                args = [self.coerce(*self.expr(a.value if isinstance(a, ast.Starred) else a, env), w) for a, w in zip(e.args, m[1])]
                return ("(%s %s %s)" % (m[0], env.vars[f.id][0], " ".join(args)), m[2])
        # a method of a helper object whose class is translated: obj.method(args) is the translated method with obj as its `self`
        if isinstance(f, ast.Attribute) and isinstance(f.value, ast.Name) and f.value.id in env.vars and f.value.id not in ("self", "cls") \
                and isinstance(env.vars[f.value.id][1], tuple) and env.vars[f.value.id][1][0] == "Rec" \
                and (env.vars[f.value.id][1][1], f.attr) in self.spec.get("object_methods", {}):
            target = self.procs[("name", self.spec["object_methods"][(env.vars[f.value.id][1][1], f.attr)])]
            if target["func"].split(".")[-1] != f.attr or target["params"][0] != ("self", env.vars[f.value.id][1]):
                raise Untranslatable("object method %s" % f.attr)
            e2 = ast.copy_location(ast.Call(func=ast.Name(id=f.attr, ctx=ast.Load()), args=[f.value] + list(e.args), keywords=[]), e)
            sub = dict(target, params=[("self_obj", target["params"][0][1])] + list(target["params"][1:]))
            return self.call_proc(sub, f.attr, e2.func, e2, env)
        # hasattr(x, "name") on a record: a Boolean field declared for the record
        if fname == "hasattr" and len(e.args) == 2 and isinstance(e.args[1], ast.Constant) and isinstance(e.args[1].value, str):
            t, ty = self.expr(e.args[0], env)
            if isinstance(ty, tuple) and ty[0] == "Rec":
                fld = self.spec.get("records", {}).get(ty[1], {}).get("has_" + e.args[1].value)
                if fld:
                    return ("%s.%s" % (t, fld[0]), "Bool")
            raise Untranslatable("hasattr on %s" % (ty,))
        # method of a record / call of a callable field: an opaque operation declared for (record, attribute); the receiver is its first argument
        if isinstance(f, ast.Attribute) and not (isinstance(f.value, ast.Name) and f.value.id in ("self", "cls") and self.proc_key(f.attr) in self.procs):
            try:
                recv, rty = self.expr(f.value, env)
            except Untranslatable:
                recv, rty = None, None
            if isinstance(rty, tuple) and rty[0] == "Opt" and isinstance(rty[1], tuple) and rty[1][0] == "Rec":
                m = self.spec.get("methods", {}).get(("Opt" + rty[1][1], f.attr))
                if m:
                    lname, argtys, rret = m
                    if len(argtys) != len(e.args):
                        raise Untranslatable("arity of %s.%s" % (rty[1][1], f.attr))
                    args = [self.coerce(*self.expr(a, env), w) for a, w in zip(e.args, argtys)]
                    return ("(%s %s %s)" % (lname, recv, " ".join(args)), rret)
            if isinstance(rty, tuple) and rty[0] == "Rec":
                m = self.spec.get("methods", {}).get((rty[1], f.attr))
                if m:
                    lname, argtys, rret = m
                    if len(argtys) != len(e.args):
                        raise Untranslatable("arity of %s.%s" % (rty[1], f.attr))
                    args = [self.coerce(*self.expr(a, env), w) for a, w in zip(e.args, argtys)]
                    return ("(%s %s %s)" % (lname, recv, " ".join(args)), rret)
        # str methods declared as operations:  k.strip()  /  k.split("-") with a one-character constant separator
        if isinstance(f, ast.Attribute) and f.attr in ("strip", "split", "lower"):
            try:
                recv, rty = self.expr(f.value, env)
            except Untranslatable:
                recv, rty = None, None
            if rty == "Str":
                m = self.spec.get("methods", {}).get(("Str", f.attr))
                if m and f.attr in ("strip", "lower") and not e.args:
                    return ("(%s %s)" % (m[0], recv), "Str")
                if f.attr == "split" and len(e.args) == 1 and isinstance(e.args[0], ast.Constant) and isinstance(e.args[0].value, str) and len(e.args[0].value) == 1:
                    return ("(pySplit1 %s '%s')" % (recv, e.args[0].value), ("List", "Str"))
                if f.attr == "split" and len(e.args) == 1 and isinstance(e.args[0], ast.Constant) and isinstance(e.args[0].value, str) and len(e.args[0].value) == 2 \
                        and e.args[0].value[0] != e.args[0].value[1]:
                    # a two-character separator of two different characters ("->"): occurrences cannot overlap
                    return ("(pySplit2 %s '%s' '%s')" % (recv, e.args[0].value[0], e.args[0].value[1]), ("List", "Str"))
        if isinstance(f, ast.Attribute) and f.attr == "replace" and len(e.args) == 2 and all(isinstance(a, ast.Constant) and isinstance(a.value, str) for a in e.args) \
                and e.args[1].value == "" and len(e.args[0].value) == 1:
            # text.replace(c, "") with a one-character constant: the text without that character
            try:
                recv, rty = self.expr(f.value, env)
            except Untranslatable:
                recv, rty = None, None
            if rty == "Str":
                ch = e.args[0].value
                return ("(removeChar %s %s)" % (recv, {"\t": "'\\t'", " ": "' '"}.get(ch, "'%s'" % ch)), "Str")
        if self.seg(f) in self.spec.get("seg_ops", {}):
            # a call identified by its text (a method of a helper object the function creates): an operation handed to the translated function
            lname, argtys, rty = self.spec["seg_ops"][self.seg(f)]
            if len(argtys) != len(e.args):
                raise Untranslatable("arity of %s" % self.seg(f))
            args = [self.coerce(*self.expr(a, env), w) for a, w in zip(e.args, argtys)]
            return ("(%s %s)" % (lname, " ".join(args)), rty)
        if fname in self.spec.get("star_ops", {}) and len(e.args) == 1 and isinstance(e.args[0], ast.Starred):
            # f(*xs) of an operation that takes any number of arguments: the operation takes the list
            lname, aty, rty = self.spec["star_ops"][fname]
            return ("(%s %s)" % (lname, self.coerce(*self.expr(e.args[0].value, env), aty)), rty)
        if fname in self.spec.get("rec_constructors", {}):
            rec, argtys = self.spec["rec_constructors"][fname]
            if len(e.args) != len(argtys):
                raise Untranslatable("arity of %s" % fname)
            parts = [self.coerce(*self.expr(a, env), w) for a, w in zip(e.args, argtys)]
            names = self.spec.get("rec_field_names", {}).get(fname)
            if names:
                # the constructor's arguments by the record's field names (the record may list them in another order and have further fields with defaults)
                return ("({ %s } : %s)" % (", ".join("%s := %s" % (n, p_) for n, p_ in zip(names, parts)), rec), ("Rec", rec))
            return ("(%s.mk %s)" % (rec, " ".join(parts)), ("Rec", rec))
        if fname in self.spec.get("constructors", {}):
            # a namedtuple constructor: the tuple of its arguments
            want = self.spec["constructors"][fname]
            if len(e.args) != len(want) - 1:
                raise Untranslatable("arity of %s" % fname)
            parts = [self.coerce(*self.expr(a, env), w) for a, w in zip(e.args, want[1:])]
            return ("(" + ", ".join(parts) + ")", want)
        # dictionary look-up with default:  TABLE.get(key, default)
        if isinstance(f, ast.Attribute) and f.attr == "get" and len(e.args) == 2:
            k = self.seg(f.value)
            if k in env.vars and isinstance(env.vars[k][1], tuple) and env.vars[k][1][0] == "Assoc":
                d, dty = env.vars[k]
                kt_, kty = self.expr(e.args[0], env)
                dt_, dfty = self.expr(e.args[1], env)
                if kty == ("Opt", dty[1]) and dfty == ("Opt", dty[2]):
                    # None is never a key: the default comes back; a found value is a plain value
                    return ("(match %s with | none => %s | some key => (match %s.lookup key with | some v => some v | none => %s))" % (kt_, dt_, d, dt_), dfty)
                key = self.coerce(kt_, kty, dty[1])
                dflt = self.coerce(dt_, dfty, dty[2])
                return ("((%s.lookup %s).getD %s)" % (d, key, dflt), dty[2])
        if isinstance(f, ast.Attribute) and f.attr == "get" and len(e.args) == 2 and self.spec.get("dict_get"):
            try:
                d_, dty_ = self.expr(f.value, env)
            except Untranslatable:
                d_, dty_ = None, None
            if isinstance(dty_, tuple) and dty_[0] in ("ODict", "AssocL"):
                key = self.coerce(*self.expr(e.args[0], env), dty_[1])
                if isinstance(e.args[1], ast.Constant) and e.args[1].value is None:
                    return ("(lookupLast %s %s)" % (d_, key), ("Opt", dty_[2]))          # d.get(k, None)
                if isinstance(e.args[1], ast.Dict) and not e.args[1].keys and isinstance(dty_[2], tuple) and dty_[2][0] in ("ODict", "AssocL"):
                    return ("((lookupLast %s %s).getD [])" % (d_, key), dty_[2])          # d.get(k, {})
        if fname == "dict" and len(e.args) == 1 and self.spec.get("dict_get"):
            t, ty = self.expr(e.args[0], env)
            if isinstance(ty, tuple) and ty[0] in ("ODict", "AssocL"):
                return (t, ty)                                                          # a copy of an immutable dictionary value is the value itself
        if isinstance(f, ast.Attribute) and f.attr == "join" and len(e.args) == 1 and isinstance(f.value, ast.Constant) and isinstance(f.value.value, str):
            t, ty = self.expr(e.args[0], env)
            if ty == ("List", "Tok"):
                return ("(joinToks %s %s)" % (lstr(f.value.value), t), "Tok")
        if isinstance(f, ast.Attribute) and f.attr == "get" and len(e.args) == 2 and isinstance(f.value, ast.Name) and f.value.id in env.vars \
                and isinstance(env.vars[f.value.id][1], tuple) and env.vars[f.value.id][1][0] == "AssocL":
            d, dty = env.vars[f.value.id]
            key = self.coerce(*self.expr(e.args[0], env), dty[1])
            # the default must be the declared "absent" object (an instance of a local class whose methods return constants): look-up result is an Option
            dflt = e.args[1]
            if isinstance(dflt, ast.Name) and dflt.id in self.spec.get("absent_objects", {}):
                return ("(lookupLast %s %s)" % (d, key), ("Opt", dty[2]))
            raise Untranslatable("default of .get is not a declared absent-object")
        if isinstance(f, ast.Attribute) and f.attr == "items" and not e.args and isinstance(f.value, ast.Name) and f.value.id in env.vars \
                and isinstance(env.vars[f.value.id][1], tuple) and env.vars[f.value.id][1][0] == "MultiL":
            # a dictionary of lists built with setdefault(..).append(..): one entry per key, in order of first insertion
            d, dty = env.vars[f.value.id]
            return (d, ("List", ("Prod", dty[1], ("List", dty[2]))))
        if fname == "StringIO" and not e.args:
            return ("([] : List Tok)", "Stream")
        if isinstance(f, ast.Attribute) and f.attr == "getvalue" and not e.args:
            t, ty = self.expr(f.value, env)
            if ty == "Stream":
                return (t, ty)
        if isinstance(f, ast.Attribute) and f.attr == "join" and len(e.args) == 1 and self.seg(f.value) in ("os.linesep",):
            t, ty = self.expr(e.args[0], env)
            if ty == ("List", "Stream"):
                return ("(joinStreams %s)" % t, "Stream")
            if ty == ("List", "Str"):
                return ("(joinToks \"<os.linesep>\" (%s.map fun s => Tok.mk \"%%s\" [OV.str s]))" % t, "Tok")
        if fname == "range" and 1 <= len(e.args) <= 2:
            lo = "(0 : Int)" if len(e.args) == 1 else self.coerce(*self.expr(e.args[0], env), "Int")
            hi = self.coerce(*self.expr(e.args[-1], env), "Int")
            return ("(intRange %s %s)" % (lo, hi), ("List", "Int"))
        if self.seg(f) == "bisect.bisect_left" and len(e.args) == 2 and self.seg(e.args[0]) in self.spec.get("bisect_ops", {}):
            # the first argument is the declared view of a list of (x, y) rows by their x component: the operation `bisectLeft rows x`
            rows, rty = self.expr(ast.Name(id=self.spec["bisect_ops"][self.seg(e.args[0])], ctx=ast.Load()), env)
            return ("(bisectLeft %s %s)" % (rows, self.coerce(*self.expr(e.args[1], env), "Rat")), "Int")
        if fname == "tuple" and len(e.args) == 1:
            return self.expr(e.args[0], env)
        if self.seg(f) in ("collections.OrderedDict", "OrderedDict", "dict") and not e.args:
            return ("[]", "EmptyDict")
        if self.seg(f) == "itertools.chain.from_iterable" and len(e.args) == 1:
            t, ty = self.expr(e.args[0], env)
            if isinstance(ty, tuple) and ty[0] == "List" and isinstance(ty[1], tuple) and ty[1][0] == "List":
                return ("%s.flatten" % t, ty[1])
            raise Untranslatable("chain.from_iterable of %s" % (ty,))
        if isinstance(f, ast.Attribute) and f.attr == "values" and not e.args and isinstance(f.value, ast.Name) and f.value.id in env.vars \
                and isinstance(env.vars[f.value.id][1], tuple) and env.vars[f.value.id][1][0] == "ODict":
            d, dty = env.vars[f.value.id]
            return ("(%s.map fun e => e.2)" % d, ("List", dty[2]))
        if isinstance(f, ast.Attribute) and f.attr == "values" and not e.args and self.seg(f.value) in env.vars \
                and isinstance(env.vars[self.seg(f.value)][1], tuple) and env.vars[self.seg(f.value)][1][0] in ("ODict", "AssocL"):
            d, dty = env.vars[self.seg(f.value)]
            return ("(%s.map fun e => e.2)" % d, ("List", dty[2]))
        if self.seg(f) == "itertools.permutations" and len(e.args) == 2 and isinstance(e.args[1], ast.Constant) and e.args[1].value == 2:
            # all ordered pairs of items at different positions, in itertools' order (first position outermost)
            t, ty = self.expr(e.args[0], env)
            if isinstance(ty, tuple) and ty[0] == "List":
                return ("(orderedPairs %s)" % t, ("List", ("Prod", ty[1], ty[1])))
        if isinstance(f, ast.Attribute) and f.attr in ("split", "rsplit") and len(e.args) == 2 and isinstance(e.args[0], ast.Constant) and isinstance(e.args[0].value, str) \
                and len(e.args[0].value) == 1 and isinstance(e.args[1], ast.Constant) and e.args[1].value == 1:
            t, ty = self.expr(f.value, env)
            if ty == "Str":
                return ("(%s %s '%s')" % ("pySplitFirst" if f.attr == "split" else "pyRSplitLast", t, e.args[0].value), ("List", "Str"))
        if isinstance(f, ast.Attribute) and f.attr == "items" and not e.args and self.seg(f.value) in env.vars \
                and isinstance(env.vars[self.seg(f.value)][1], tuple) and env.vars[self.seg(f.value)][1][0] in ("ODict", "AssocL"):
            d, dty = env.vars[self.seg(f.value)]
            return (d, ("List", ("Prod", dty[1], dty[2])))
        if fname == "enumerate" and len(e.args) == 1:
            t, ty = self.expr(e.args[0], env)
            if isinstance(ty, tuple) and ty[0] == "List":
                return ("((List.range %s.length).zip %s)" % (t, t), ("List", ("Prod", "Nat", ty[1])))
        if self.seg(f) == "functools.reduce" and len(e.args) == 2:
            # functools.reduce(f, xs) without an initial value: the left fold from the first item; Python raises TypeError on an empty sequence (the declared error)
            ft, fty = self.expr(e.args[0], env)
            xt, xty = self.expr(e.args[1], env)
            if isinstance(fty, tuple) and fty[0] == "Fun" and isinstance(xty, tuple) and xty[0] == "List" and fty[1] == [xty[1], xty[1]] and fty[2] == xty[1] \
                    and self.spec.get("reduce_error") and self.ret[0] == "Except":
                return ("(match %s with | [] => (.error %s) | x0 :: rest0 => (.ok (rest0.foldl %s x0)))" % (xt, self.spec["reduce_error"], ft), ("Except", self.ret[1], xty[1]))
            raise Untranslatable("functools.reduce on %s" % (xty,))
        if fname == "set" and len(e.args) == 1:
            a0 = e.args[0]
            if isinstance(a0, ast.Call) and isinstance(a0.func, ast.Attribute) and a0.func.attr == "keys" and not a0.args:
                t, ty = self.expr(a0.func.value, env)
                if isinstance(ty, tuple) and ty[0] == "ODict":
                    return ("(%s.map fun e => e.1)" % t, ("Set", ty[1]))          # the keys of a dictionary are distinct
            t, ty = self.expr(a0, env)
            if isinstance(ty, tuple) and ty[0] == "List":
                return ("(listToSet %s)" % t, ("Set", ty[1]))
            if isinstance(ty, tuple) and ty[0] == "Set":
                return (t, ty)
            raise Untranslatable("set of %s" % (ty,))
        if fname == "set" and not e.args:
            # a set that the function only adds to, tests membership of and sorts: the list of its distinct members in order of first insertion
            # (`.add` -> setAdd); iterating over it directly is refused (Python leaves that order unspecified)
            return ("[]", "EmptySet")
        if fname == "reversed" and len(e.args) == 1:
            t, ty = self.expr(e.args[0], env)
            if isinstance(ty, tuple) and ty[0] == "Prod" and len(ty) == 3:
                return ("(%s.2, %s.1)" % (t, t), ("Prod", ty[2], ty[1]))
        if fname == "sorted" and len(e.args) == 1 and not e.keywords:
            t, ty = self.expr(e.args[0], env)
            if isinstance(ty, tuple) and ty[0] in ("List", "Set") and ty[1] in ("Str", ("List", "Str")):
                return ("(stableSortBy (fun a b => decide (a ≤ b)) %s)" % t, ("List", ty[1]))
            raise Untranslatable("sorted of %s" % (ty,))
        if fname == "list" and len(e.args) == 1 and isinstance(e.args[0], ast.Call) and isinstance(e.args[0].func, ast.Attribute) \
                and e.args[0].func.attr == "keys" and not e.args[0].args and not e.args[0].keywords:
            # list(d.keys()) of an insertion-ordered dictionary: its keys in the order of the entries
            t, ty = self.expr(e.args[0].func.value, env)
            if isinstance(ty, tuple) and ty[0] == "ODict":
                return ("(%s.map fun e => e.1)" % t, ("List", ty[1]))
            raise Untranslatable("keys of %s" % (ty,))
        if fname == "list" and len(e.args) == 1:
            t, ty = self.expr(e.args[0], env)
            if isinstance(ty, tuple) and ty[0] in ("List", "Prod"):
                return (t, ty)             # a copy of an immutable list (or the items of a tuple) is the value itself
        if fname == "len" and len(e.args) == 1:
            t, ty = self.expr(e.args[0], env)
            if isinstance(ty, tuple) and ty[0] == "List":
                return ("((%s.length : Nat) : Int)" % t, "Int")
        if fname == "abs" and len(e.args) == 1:
            t, ty = self.expr(e.args[0], env)
            if ty == "Float":
                return ("(Float.abs %s)" % t, ty)
            if ty in ("Int", "Rat"):
                return ("|%s|" % t, ty)
        if fname == "max" and len(e.args) == 2:
            x, xty = self.expr(e.args[0], env)
            y, yty = self.expr(e.args[1], env)
            x, y, ty = self.unify(x, xty, y, yty)
            if ty == "Float":
                # Python: max(a, b) returns b only when b > a
                return ("(if %s > %s then %s else %s)" % (y, x, y, x), ty)
            return ("(max %s %s)" % (x, y), ty)
        if fname == "round" and len(e.args) == 1:
            t, ty = self.expr(e.args[0], env)
            if ty == "Float":
                return ("(Float.round %s)" % t, "Float")       # differs from Python's half-to-even only at exact halves
        if fname == "int" and len(e.args) == 1:
            t, ty = self.expr(e.args[0], env)
            if ty == "Float":
                return ("((Float.toUInt64 %s).toNat : Int)" % t, "Int")   # truncation; agrees with int() for 0 <= x < 2^64
            if ty == "Int":
                return (t, ty)
        if fname == "float" and len(e.args) == 1 and isinstance(e.args[0], ast.Constant) and e.args[0].value == "-inf" and self.spec.get("neg_inf"):
            # float("-inf"): the declared value of the extended number type (spec["neg_inf"]: (lean text, type))
            return self.spec["neg_inf"]
        if fname == "float" and len(e.args) == 1:
            t, ty = self.expr(e.args[0], env)
            return (self.coerce(t, ty, self.spec.get("float", "Rat")) if ty != self.spec.get("float", "Rat") else t, self.spec.get("float", "Rat"))
        raise Untranslatable("call %s" % (self.seg(e) or "?")[:60])

    def listcomp(self, e, env):
        if len(e.generators) != 1 or e.generators[0].is_async:
            raise Untranslatable("comprehension shape")
        g = e.generators[0]
        if not isinstance(g.target, ast.Name):
            raise Untranslatable("comprehension target")
        xs, xty = self.expr(g.iter, env)
        if not (isinstance(xty, tuple) and xty[0] == "List"):
            raise Untranslatable("comprehension over %s" % (xty,))
        v = g.target.id
        en = env.bind(v, v, xty[1])
        out = xs
        for c in g.ifs:
            out = "(%s.filter fun %s => %s)" % (out, v, self.cond(c, en, lambda _: "true", lambda _: "false"))
        elt, ety = self.expr(e.elt, en)
        if elt != v:
            out = "(%s.map fun %s => %s)" % (out, v, elt)
        return (out, ("List", ety))

    # ------------------------------------------------------------------------------------------------------------------ writers
    def const_str(self, e, env):
        """constant-fold a string expression built from literals, `+`, `* <int>` and local names bound to such strings"""
        if isinstance(e, ast.Constant) and isinstance(e.value, str):
            return e.value
        if isinstance(e, ast.Name) and e.id in getattr(self, "strconsts", {}):
            return self.strconsts[e.id]
        if isinstance(e, ast.BinOp) and isinstance(e.op, ast.Add):
            a, b = self.const_str(e.left, env), self.const_str(e.right, env)
            return None if a is None or b is None else a + b
        if isinstance(e, ast.BinOp) and isinstance(e.op, ast.Mult) and isinstance(e.right, ast.Constant) and isinstance(e.right.value, int):
            a = self.const_str(e.left, env)
            return None if a is None else a * e.right.value
        if isinstance(e, ast.BinOp) and isinstance(e.op, ast.Mult) and isinstance(e.left, ast.Constant) and isinstance(e.left.value, int) and not isinstance(e.left.value, bool):
            a = self.const_str(e.right, env)
            return None if a is None else e.left.value * a
        if isinstance(e, ast.BinOp) and isinstance(e.op, ast.Mod):
            # a template built from constant pieces:  u"%%d %s %%d %s %s" % ((numbertemplate,)*3)
            a, t = self.const_str(e.left, env), self.const_tuple(e.right, env)
            if a is not None and t is not None:
                try:
                    return a % t
                except (TypeError, ValueError):
                    return None
        return None

    def const_tuple(self, e, env):
        if isinstance(e, ast.Tuple):
            parts = [self.const_str(x, env) for x in e.elts]
            return None if any(p is None for p in parts) else tuple(parts)
        if isinstance(e, ast.BinOp) and isinstance(e.op, ast.Mult) and isinstance(e.right, ast.Constant) and isinstance(e.right.value, int) and not isinstance(e.right.value, bool):
            t = self.const_tuple(e.left, env)
            return None if t is None else t * e.right.value
        return None

    def ov(self, e, env):
        """an expression used as a format argument -> OV text"""
        c = self.const_str(e, env)
        if c is not None:
            return "(OV.str %s)" % lstr(c)
        t, ty = self.expr(e, env)
        if ty == "OV":
            return t
        if ty == "Str":
            return "(OV.str %s)" % t
        if ty in ("Int", "Nat", "Bool"):
            return "(OV.int %s)" % self.coerce(t, ty, "Int")
        if ty == "Rat":
            return "(OV.num %s)" % t
        raise Untranslatable("format argument of type %s" % (ty,))

    def fmt_tok(self, e, env, newline=False):
        """a string-valued expression that is written out -> lean text of ONE token  Tok.mk <format text> <arguments in order of appearance>"""
        import re
        nl = "\n" if newline else ""
        c = self.const_str(e, env)
        if c is not None:
            return "(Tok.mk %s [])" % lstr(c + nl)
        # "..." % x   /  "..." % (a, b)  /  "..." % {name: v}  /  TEMPLATE % tuple(l)
        if isinstance(e, ast.BinOp) and isinstance(e.op, ast.Mod):
            fmt = self.const_str(e.left, env)
            if fmt is None:
                raise Untranslatable("format string is not a constant")
            r = e.right
            if isinstance(r, ast.Subscript) and isinstance(r.value, ast.Tuple) and isinstance(r.slice, ast.Slice) and r.slice.lower is None and r.slice.step is None \
                    and isinstance(r.slice.upper, ast.Constant) and isinstance(r.slice.upper.value, int) and r.slice.upper.value >= len(r.value.elts):
                r = r.value           # (a, b)[:100] - a slice of the argument TUPLE that keeps all of it (`%` binds tighter than the subscript's operand suggests)
            if isinstance(r, ast.Dict) or (isinstance(r, ast.Name) and r.id in getattr(self, "dictconsts", {})):
                d = {}
                if isinstance(r, ast.Name):
                    d = dict(self.dictconsts[r.id])
                else:
                    for kk, vv in zip(r.keys, r.values):
                        if not (isinstance(kk, ast.Constant) and isinstance(kk.value, str)):
                            raise Untranslatable("format dictionary key")
                        d[kk.value] = vv
                names = re.findall(r"%\((\w+)\)", fmt)
                args = []
                for n in names:
                    if n not in d:
                        raise Untranslatable("format names %s, the dictionary has no such key" % n)
                    args.append(self.ov(d[n], env))
                return "(Tok.mk %s [%s])" % (lstr(re.sub(r"%\(\w+\)", "%", fmt) + nl), ", ".join(args))
            if isinstance(r, ast.Tuple):
                return "(Tok.mk %s [%s])" % (lstr(fmt + nl), ", ".join(self.ov(x, env) for x in r.elts))
            t, ty = self.expr(r, env)
            if ty == ("List", "OV"):
                return "(Tok.mk %s %s)" % (lstr(fmt + nl), t)
            return "(Tok.mk %s [%s])" % (lstr(fmt + nl), self.ov(r, env))
        # TEMPLATE.format(a, b)  with positional fields {0} {1}
        if isinstance(e, ast.Call) and isinstance(e.func, ast.Attribute) and e.func.attr == "format" and e.args and not e.keywords:
            fmt = self.const_str(e.func.value, env)
            if fmt is None:
                raise Untranslatable("format template is not a constant")
            fields = re.findall(r"\{(\d+)(:[^}]*)?\}", fmt)
            if len(re.findall(r"\{", fmt)) != len(fields) or any(int(i) >= len(e.args) for i, _ in fields) or set(int(i) for i, _ in fields) != set(range(len(e.args))):
                raise Untranslatable("positional template fields")
            args = [self.ov(e.args[int(i)], env) for i, _ in fields]
            return "(Tok.mk %s [%s])" % (lstr(re.sub(r"\{\d+(:[^}]*)?\}", lambda m: "{%s}" % (m.group(1) or ""), fmt) + nl), ", ".join(args))
        # TEMPLATE.format(name = v, ...)
        if isinstance(e, ast.Call) and isinstance(e.func, ast.Attribute) and e.func.attr == "format" and not e.args:
            fmt = self.const_str(e.func.value, env)
            if fmt is None:
                raise Untranslatable("format template is not a constant")
            kw = dict((k.arg, k.value) for k in e.keywords)
            fields = re.findall(r"\{(\w+)(:[^}]*)?\}", fmt)
            args = []
            for n, spec_ in fields:
                if n not in kw:
                    raise Untranslatable("template names %s, no such keyword" % n)
                args.append(self.ov(kw[n], env))
            if set(kw) - set(n for n, _ in fields):
                raise Untranslatable("keyword not used by the template")
            return "(Tok.mk %s [%s])" % (lstr(re.sub(r"\{\w+(:[^}]*)?\}", lambda m: "{%s}" % (m.group(1) or ""), fmt) + nl), ", ".join(args))
        try:
            t, ty = self.expr(e, env)
        except Untranslatable:
            t, ty = None, None
        if ty == "Tok":
            return "(tokSuffix %s %s)" % (t, lstr(nl)) if nl else t
        if ty == "Str":
            return "(Tok.mk %s [OV.str %s])" % (lstr("%s" + nl), t)
        raise Untranslatable("written expression %s" % (self.seg(e) or "")[:50])

    def stream_statement(self, c, env):
        """print(E, file=X) / X.write(E) / L.append(E) / WRITER(..., X)  ->  (name, new value text, type, needs_bind) or None"""
        f = c.func
        if isinstance(f, ast.Name) and f.id == "print" and len(c.args) == 1 and len(c.keywords) == 1 and c.keywords[0].arg == "file" and isinstance(c.keywords[0].value, ast.Name):
            x = c.keywords[0].value.id
            xt, xty = self.expr(c.keywords[0].value, env)
            if xty == "Dest":
                return (x, "(%s ++ [[%s]])" % (xt, self.fmt_tok(c.args[0], env, newline=True)), "Dest", False)      # one write call = one chunk
            if xty != "Stream":
                raise Untranslatable("print to a %s" % (xty,))
            return (x, "(%s ++ [%s])" % (xt, self.fmt_tok(c.args[0], env, newline=True)), "Stream", False)
        if isinstance(f, ast.Attribute) and f.attr == "write" and isinstance(f.value, ast.Name) and len(c.args) == 1 and not c.keywords:
            xt, xty = self.expr(f.value, env)
            if xty not in ("Stream", "Dest"):
                return None
            try:
                vt, vty = self.expr(c.args[0], env)
            except Untranslatable:
                vt, vty = None, None
            if xty == "Dest":
                return (f.value.id, "(%s ++ [%s])" % (xt, vt if vty == "Stream" else "[%s]" % self.fmt_tok(c.args[0], env)), "Dest", False)      # one write call = one chunk
            if vty == "Stream":
                return (f.value.id, "(%s ++ %s)" % (xt, vt), "Stream", False)
            return (f.value.id, "(%s ++ [%s])" % (xt, self.fmt_tok(c.args[0], env)), "Stream", False)
        if isinstance(f, ast.Attribute) and f.attr == "append" and isinstance(f.value, ast.Name) and len(c.args) == 1 and not c.keywords:
            xt, xty = self.expr(f.value, env)
            if isinstance(xty, tuple) and xty[0] == "List":
                vt, vty = self.expr(c.args[0], env)
                return (f.value.id, "(%s ++ [%s])" % (xt, self.coerce(vt, vty, xty[1])), xty, False)
        if isinstance(f, ast.Attribute) and f.attr == "extend" and isinstance(f.value, ast.Name) and len(c.args) == 1 and not c.keywords:
            xt, xty = self.expr(f.value, env)
            if isinstance(xty, tuple) and xty[0] == "List":
                vt, vty = self.expr(c.args[0], env)
                if vty == xty or vty == "EmptyList":
                    return (f.value.id, "(%s ++ %s)" % (xt, "[]" if vty == "EmptyList" else vt), xty, False)
                if xty == ("List", "Tok") and vty == ("List", "Str"):
                    # strings joining a list of formatted pieces: each is the piece "%s" of itself
                    return (f.value.id, "(%s ++ (%s.map fun s => Tok.mk \"%%s\" [OV.str s]))" % (xt, vt), xty, False)
                raise Untranslatable("extend of %s by %s" % (xty, vty))
        if isinstance(f, ast.Attribute) and f.attr == "add" and isinstance(f.value, ast.Name) and len(c.args) == 1 and not c.keywords:
            xt, xty = self.expr(f.value, env)
            if isinstance(xty, tuple) and xty[0] == "Set":
                vt, vty = self.expr(c.args[0], env)
                return (f.value.id, "(setAdd %s %s)" % (xt, self.coerce(vt, vty, xty[1])), xty, False)
        # D.setdefault(K, []).append(V): the list kept under K (created empty when K is new, at the end of the dictionary's order) gains V
        if isinstance(f, ast.Attribute) and f.attr == "append" and len(c.args) == 1 and isinstance(f.value, ast.Call) and isinstance(f.value.func, ast.Attribute) \
                and f.value.func.attr == "setdefault" and isinstance(f.value.func.value, ast.Name) and len(f.value.args) == 2 \
                and isinstance(f.value.args[1], ast.List) and not f.value.args[1].elts:
            d = f.value.func.value
            dt, dty = self.expr(d, env)
            if isinstance(dty, tuple) and dty[0] == "MultiL":
                key = self.coerce(*self.expr(f.value.args[0], env), dty[1])
                val = self.coerce(*self.expr(c.args[0], env), dty[2])
                return (d.id, "(multiAppend %s %s %s)" % (dt, key, val), dty, False)
        # a method called for its effect on ANOTHER object reached through an alias (a loop variable): the call is recorded, receiver and argument, in a log variable
        # (spec["effect_log"]: method name -> log variable); what the method does to the receiver is outside the function
        if isinstance(f, ast.Attribute) and f.attr in self.spec.get("effect_log", {}) and len(c.args) == 1 and not c.keywords:
            logv = self.spec["effect_log"][f.attr]
            lt, lty = env.vars[logv]
            rt, rty = self.expr(f.value, env)
            at, aty = self.expr(c.args[0], env)
            if lty != ("List", ("Prod", rty, aty)):
                raise Untranslatable("effect log %s : %s for %s.%s(%s)" % (logv, lty, rty, f.attr, aty))
            return (logv, "(%s ++ [(%s, %s)])" % (lt, rt, at), lty, False)
        # a method that changes the object it is called on, declared as an operation returning the new object:  cp.remove_option(s, k)
        if isinstance(f, ast.Attribute) and isinstance(f.value, ast.Name) and f.value.id in env.vars and not c.keywords:
            xt, xty = env.vars[f.value.id]
            if isinstance(xty, tuple) and xty[0] == "Rec":
                m = self.spec.get("mut_methods", {}).get((xty[1], f.attr))
                if m:
                    lname, argtys = m
                    if len(argtys) != len(c.args):
                        raise Untranslatable("arity of %s.%s" % (xty[1], f.attr))
                    args = [self.coerce(*self.expr(a, env), w) for a, w in zip(c.args, argtys)]
                    return (f.value.id, "(%s %s %s)" % (lname, xt, " ".join(args)), xty, False)
        # a function-typed parameter / opaque writer that writes into one of its arguments
        io = self.spec.get("inout_calls", {})
        nm = f.id if isinstance(f, ast.Name) else (f.attr if isinstance(f, ast.Attribute) and isinstance(f.value, ast.Name) and f.value.id in ("self", "cls") else None)
        if nm in io:
            idx = io[nm]
            if not isinstance(c.args[idx], ast.Name):
                raise Untranslatable("stream argument of %s is not a variable" % nm)
            vt, vty = self.call(c, env)
            if isinstance(vty, tuple) and vty[0] == "Except":
                return (c.args[idx].id, vt, vty[2], True)
            return (c.args[idx].id, vt, vty, False)
        # a writer called for its effect on a stream argument
        fname = f.id if isinstance(f, ast.Name) else (f.attr if isinstance(f, ast.Attribute) and isinstance(f.value, ast.Name) and f.value.id in ("self", "cls") else None)
        p = self.procs.get(self.proc_key(fname)) if fname else None
        if p is not None and p.get("inout"):
            c = self.norm_call(c, fname)
            names = [n for n, _ in p["params"] if not n.startswith("self.") and n != "self"]
            if len(c.args) > len(names) or any(n not in p.get("defaults", {}) for n in names[len(c.args):]):
                raise Untranslatable("arity of %s" % fname)
            idx = names.index(p["inout"])
            if not isinstance(c.args[idx], ast.Name):
                raise Untranslatable("stream argument of %s is not a variable" % fname)
            vt, vty = self.call(c, env)
            raising = isinstance(vty, tuple) and vty[0] == "Except"
            return (c.args[idx].id, vt, vty[2] if raising else vty, raising)
        return None

    # -------------------------------------------------------------------------------------------------------------- conditions
    def cond(self, e, env, kt, kf):
        """lean text that evaluates the Python condition `e` and continues with kt(env') or kf(env')"""
        if isinstance(e, ast.UnaryOp) and isinstance(e.op, ast.Not):
            return self.cond(e.operand, env, kf, kt)
        if isinstance(e, ast.BoolOp) and isinstance(e.op, ast.And):
            def go(i, en):
                if i == len(e.values) - 1:
                    return self.cond(e.values[i], en, kt, kf)
                return self.cond(e.values[i], en, lambda en2: go(i + 1, en2), kf)
            return go(0, env)
        if isinstance(e, ast.BoolOp) and isinstance(e.op, ast.Or):
            def go(i, en):
                if i == len(e.values) - 1:
                    return self.cond(e.values[i], en, kt, kf)
                return self.cond(e.values[i], en, kt, lambda en2: go(i + 1, en2))
            return go(0, env)
        # key in d / key not in d  on a local dictionary: the branch where it is present knows d[key]
        if isinstance(e, ast.Compare) and len(e.ops) == 1 and isinstance(e.ops[0], (ast.In, ast.NotIn)) \
                and isinstance(e.comparators[0], (ast.Name, ast.Attribute) if self.spec.get("narrow_attr_dicts") else ast.Name) \
                and self.seg(e.comparators[0]) in env.vars and isinstance(env.vars[self.seg(e.comparators[0])][1], tuple) \
                and env.vars[self.seg(e.comparators[0])][1][0] in (("AssocL", "ODict") if self.spec.get("narrow_attr_dicts") else ("AssocL",)):
            d, dty = env.vars[self.seg(e.comparators[0])]
            key = self.coerce(*self.expr(e.left, env), dty[1])
            n = env.fresh("found")
            present = env.fact("%s[%s]" % (self.seg(e.comparators[0]), self.seg(e.left)), n, dty[2])
            a, b = (kt(present), kf(env)) if isinstance(e.ops[0], ast.In) else (kf(present), kt(env))
            return "(match (lookupLast %s %s) with\n| some %s => %s\n| none => %s)" % (d, key, n, a, b)
        # x is None / x is not None
        if isinstance(e, ast.Compare) and len(e.ops) == 1 and isinstance(e.ops[0], (ast.Is, ast.IsNot, ast.Eq, ast.NotEq)) \
                and isinstance(e.comparators[0], ast.Constant) and e.comparators[0].value is None and isinstance(e.left, ast.Name):
            name = e.left.id
            if name in env.vars:
                lean, ty = env.vars[name]
                if isinstance(ty, tuple) and ty[0] == "Opt":
                    return self.match_opt(name, lean, ty, env, kt, kf, isinstance(e.ops[0], (ast.IsNot, ast.NotEq)))
                if isinstance(e.ops[0], (ast.Eq, ast.NotEq)):
                    raise Untranslatable("comparison of a %s with None" % lty(ty))
                # already narrowed: the test is decided
                return (kt if isinstance(e.ops[0], (ast.IsNot, ast.NotEq)) else kf)(env)
        # <attribute chain> is None / is not None: the branch where it is not None knows the value
        if isinstance(e, ast.Compare) and len(e.ops) == 1 and isinstance(e.ops[0], (ast.Is, ast.IsNot)) \
                and isinstance(e.comparators[0], ast.Constant) and e.comparators[0].value is None and isinstance(e.left, ast.Attribute):
            t, ty = self.expr(e.left, env)
            if isinstance(ty, tuple) and ty[0] == "Opt":
                n = env.fresh("val")
                known = env.fact(self.seg(e.left), n, ty[1])
                a, b = (kt(env), kf(known)) if isinstance(e.ops[0], ast.Is) else (kf(env), kt(known))
                return "(match %s with\n| none => %s\n| some %s => %s)" % (t, a, n, b)
        # truthiness of a bare name: Optional object / list
        if isinstance(e, ast.Name) and e.id in env.vars:
            lean, ty = env.vars[e.id]
            if isinstance(ty, tuple) and ty[0] == "Opt" and isinstance(ty[1], tuple) and ty[1][0] == "Rec":
                return self.match_opt(e.id, lean, ty, env, kt, kf, True)
            if ty == ("Opt", "Str"):
                n = env.fresh(e.id)
                return "(match %s with\n| some %s => (if %s != \"\" then %s else %s)\n| none => %s)" % (lean, n, n, kt(env.bind(e.id, n, "Str")), kf(env), kf(env))
            if ty in (("Opt", "Rat"), ("Opt", "Int")):
                # None and 0 are both false
                n = env.fresh(e.id)
                return "(match %s with\n| some %s => (if %s != 0 then %s else %s)\n| none => %s)" % (lean, n, n, kt(env.bind(e.id, n, ty[1])), kf(env), kf(env))
            if isinstance(ty, tuple) and ty[0] == "Rec":
                return kt(env)
            if isinstance(ty, tuple) and ty[0] == "List":
                h, t = env.fresh(e.id + "_head"), env.fresh(e.id + "_tail")
                en = env.fact(e.id + "[0]", h, ty[1])
                return "(match %s with\n| [] => %s\n| %s :: %s => %s)" % (lean, kf(env), h, t, kt(en.bind(e.id, "(%s :: %s)" % (h, t), ty).fact(e.id + "[0]", h, ty[1])))
        if isinstance(e, ast.Attribute):
            # truthiness of an attribute that holds None or an object (a namedtuple is true whatever its fields hold - declared non-empty records only)
            try:
                t0, ty0 = self.expr(e, env)
            except Untranslatable:
                t0, ty0 = None, None
            if isinstance(ty0, tuple) and ty0[0] == "Opt" and isinstance(ty0[1], tuple) and ty0[1][0] == "Rec":
                n = env.fresh(e.attr)
                return "(match %s with\n| some %s => %s\n| none => %s)" % (t0, n, kt(env.fact(self.seg(e), n, ty0[1])), kf(env))
        t, ty = self.truth(e, env)
        return "(if %s then %s else %s)" % (t, kt(env), kf(env))

    def match_opt(self, name, lean, ty, env, kt, kf, some_is_true):
        n = env.fresh(name)
        en_some = env.bind(name, n, ty[1])
        a, b = kt(en_some) if some_is_true else kf(en_some), kf(env) if some_is_true else kt(env)
        return "(match %s with\n| some %s => %s\n| none => %s)" % (lean, n, a, b)

    # -------------------------------------------------------------------------------------------------------------- statements
    def terminates(self, stmts):
        """every path through stmts ends in return/raise"""
        if not stmts:
            return False
        s = stmts[-1]
        if isinstance(s, (ast.Return, ast.Raise)):
            return True
        if isinstance(s, ast.If):
            return self.terminates(s.body) and self.terminates(s.orelse)
        return False

    def assigns(self, stmts, via_args=True):
        out = set()
        for s in stmts:
            for n in ast.walk(s):
                # mutation of a list / stream through a method, `print(.., file=X)`, or a call that is handed a variable it may write to
                if isinstance(n, ast.Expr) and isinstance(n.value, ast.Call):
                    c = n.value
                    if isinstance(c.func, ast.Attribute) and isinstance(c.func.value, ast.Name):
                        out.add(c.func.value.id)
                    for a in (list(c.args) + [kw.value for kw in c.keywords]) if via_args else []:
                        if isinstance(a, ast.Name):
                            out.add(a.id)
                if isinstance(n, ast.Assign) and isinstance(n.value, ast.Call) and isinstance(n.value.func, ast.Attribute) and n.value.func.attr == "setdefault" \
                        and isinstance(n.value.func.value, ast.Name):
                    out.add(n.value.func.value.id)
                if isinstance(n, (ast.Assign, ast.AugAssign)):
                    for t in (n.targets if isinstance(n, ast.Assign) else [n.target]):
                        for m in ast.walk(t):
                            if isinstance(m, ast.Name):
                                out.add(m.id)
        return out

    def block(self, stmts, env, k):
        """lean text for the statement list, continuing with k(env') when it falls through"""
        if self.spec.get("drop_logging"):
            # logger.info(..) / .warning / .debug / .error: no effect on what the function computes (also between a message and its raise)
            stmts = [x for x in stmts if not (isinstance(x, ast.Expr) and isinstance(x.value, ast.Call) and isinstance(x.value.func, ast.Attribute)
                                              and isinstance(x.value.func.value, ast.Name) and x.value.func.value.id == "logger"
                                              and x.value.func.attr in ("info", "warning", "debug", "error"))]
        if not stmts:
            return k(env)
        s, rest = stmts[0], stmts[1:]
        if isinstance(s, ast.Expr) and isinstance(s.value, ast.Constant):
            return self.block(rest, env, k)                      # docstring
        # a raising translated method called inside a list display or as the argument of append: evaluated first (Python's order), its value named
        hoisted = self.hoist_raising(s, env)
        if hoisted is not None:
            return self.block(hoisted + rest, env, k)
        if self.spec.get("drop_logging"):
            # logger = logging.getLogger(..)...  /  logger.info(..) / logger.warning(..): no effect on what the function computes
            if isinstance(s, ast.Assign) and len(s.targets) == 1 and isinstance(s.targets[0], ast.Name) and s.targets[0].id == "logger" \
                    and (ast.get_source_segment(self.src, s.value) or "").startswith("logging.getLogger("):
                return self.block(rest, env, k)
            if isinstance(s, ast.Expr) and isinstance(s.value, ast.Call) and isinstance(s.value.func, ast.Attribute) and isinstance(s.value.func.value, ast.Name) \
                    and s.value.func.value.id == "logger" and s.value.func.attr in ("info", "warning", "debug"):
                return self.block(rest, env, k)
        if isinstance(s, ast.ImportFrom) and all(a.asname is None and (s.module, a.name) in self.spec.get("local_imports", {}) for a in s.names):
            # `from m import f` inside the function: f is the declared opaque operation from here on
            en = env
            for a in s.names:
                lean = self.spec["local_imports"][(s.module, a.name)]
                en = en.bind(a.name, lean, dict(self.fixed)[lean])
            return self.block(rest, en, k)
        if isinstance(s, ast.ImportFrom) and all(a.asname is None and a.name in self.spec.get("import_names_only", []) for a in s.names):
            # an import inside the function of a class that is used only through declared operations / constants
            return self.block(rest, env, k)
        if isinstance(s, ast.Pass):
            return self.block(rest, env, k)
        if isinstance(s, ast.Return):
            if s.value is None:
                if self.spec.get("inout"):
                    return self.wrap_ret(*env.vars[self.spec["inout"]])
                return self.wrap_ret("none", "None") if self.inner_ret() != "Unit" else self.wrap_ret("()", "Unit")
            # `return a, b` with componentwise coercion
            if isinstance(s.value, ast.Tuple) and isinstance(self.inner_ret(), tuple) and self.inner_ret()[0] == "Prod":
                want = self.inner_ret()[1:]
                parts = [self.coerce(*self.expr(x, env), w) for x, w in zip(s.value.elts, want)]
                return self.wrap_ret("(" + ", ".join(parts) + ")", self.inner_ret())
            t, ty = self.expr(s.value, env)
            # returning the result of another raising proc: pass the Except through
            if isinstance(ty, tuple) and ty[0] == "Except" and ty == self.ret:
                return t
            return self.wrap_ret(t, ty)
        if isinstance(s, ast.Assign) and rest and isinstance(rest[-1], ast.Raise) and all(isinstance(x, ast.Assign) for x in rest[:-1]) and self.ret[0] == "Except" \
                and not self.at_dest_level() and all(len(x.targets) == 1 and isinstance(x.targets[0], ast.Name) for x in [s] + rest[:-1]) \
                and all(not any(isinstance(n, ast.Call) and not (isinstance(n.func, ast.Attribute) and n.func.attr in ("join", "format")) and not (isinstance(n.func, ast.Name) and n.func.id == "sorted")
                                for n in ast.walk(x.value)) for x in [s] + rest[:-1]):
            # a run of assignments that only build the message (join / format / sorted of values already computed) and then raise it: the message text identifies the error
            text = " ".join((ast.get_source_segment(self.src, x) or "") for x in [s] + rest)
            for sub, tag in self.spec.get("raises", []):
                if sub in text:
                    return "(.error %s)" % tag
        if isinstance(s, ast.Assign) and len(s.targets) == 1 and isinstance(s.targets[0], ast.Name) and rest and isinstance(rest[0], ast.Raise) \
                and rest[0].exc is not None and any(isinstance(n, ast.Name) and n.id == s.targets[0].id for n in ast.walk(rest[0].exc)) and self.ret[0] == "Except" and not self.at_dest_level():
            # msg = "...".format(..) ; raise X(msg): the message text identifies the error
            text = ast.get_source_segment(self.src, s.value) or ""
            for sub, tag in self.spec.get("raises", []):
                if sub in text:
                    return "(.error %s)" % tag
        if isinstance(s, ast.Raise) and self.at_dest_level():
            self.err_tag(s.exc)                                   # (must be a declared error)
            return env.vars[self.spec["inout"]][0]               # the exception leaves the function: the destination holds what it held
        if isinstance(s, ast.Raise):
            if self.ret[0] != "Except":
                raise Untranslatable("raise in a function declared not to raise")
            return "(.error %s)" % self.err_tag(s.exc)
        if isinstance(s, ast.FunctionDef) and s.name in self.spec.get("closures", {}):
            # def g(r): return obj.method(r)   - g stands for obj, called through that method (the variant of the callee declared for obj's type)
            obj, meth = self.spec["closures"][s.name]
            ok = len(s.args.args) == 1 and len(s.body) == 1 and isinstance(s.body[0], ast.Return) and s.body[0].value is not None \
                and ast.unparse(s.body[0].value).replace(" ", "") == "%s.%s(%s)" % (obj, meth, s.args.args[0].arg)
            if not ok or obj not in env.vars:
                raise Untranslatable("%s is not `return %s.%s(arg)`" % (s.name, obj, meth))
            return self.block(rest, env.bind(s.name, env.vars[obj][0], env.vars[obj][1]), k)
        if isinstance(s, ast.FunctionDef) and s.name in self.spec.get("closure_records", {}):
            # def g(r): return <declared expression of r and captured locals>   - the closure is the record of what it captures (spec["closure_records"]:
            #   name -> (record, [captured locals in field order], source text of the returned expression)); the body is compared with the declared text
            rec, caps, body_src = self.spec["closure_records"][s.name]
            ok = len(s.args.args) == 1 and len(s.body) == 1 and isinstance(s.body[0], ast.Return) and s.body[0].value is not None \
                and ast.unparse(s.body[0].value).replace(" ", "") == body_src.replace(" ", "") and all(c_ in env.vars for c_ in caps)
            if not ok:
                raise Untranslatable("%s is not `return %s`" % (s.name, body_src))
            return self.block(rest, env.bind(s.name, "(%s.mk %s)" % (rec, " ".join(env.vars[c_][0] for c_ in caps)), ("Rec", rec)), k)
        if isinstance(s, ast.If) and not s.orelse and ast.unparse(s.test).replace(" ", "") in self.spec.get("attribute_defs", {}):
            # if hasattr(f, 'deriv'): def deriv(r): return f.deriv(<same argument as the closure>); g.deriv = deriv
            #   - the closure offers the derivative exactly when what it captures does, evaluated at the same shifted argument (declared text, compared)
            want = self.spec["attribute_defs"][ast.unparse(s.test).replace(" ", "")]
            got = "\n".join(ast.unparse(x_) for x_ in s.body).replace(" ", "")
            if got != want.replace(" ", ""):
                raise Untranslatable("attribute definition block differs from the declared text: %s" % got[:120])
            return self.block(rest, env, k)
        if isinstance(s, ast.FunctionDef) and s.name in self.spec.get("zero_defs", []):
            ok = len(s.body) == 1 and isinstance(s.body[0], ast.Return) and isinstance(s.body[0].value, ast.Constant) and s.body[0].value.value == 0.0
            if not ok:
                raise Untranslatable("%s is not `return 0.0`" % s.name)
            return self.block(rest, env.bind(s.name, "0", "ZeroDef"), k)
        if isinstance(s, (ast.FunctionDef, ast.ClassDef)):
            # nested helper: translated on its own (spec["local_defs"]) or an absent-object class checked by prepare(); nothing to do here
            if s.name in self.spec.get("local_defs", {}) or s.name in [c for c, _ in self.spec.get("absent_objects", {}).values()]:
                return self.block(rest, env, k)
            raise Untranslatable("nested definition %s" % s.name)
        if isinstance(s, ast.Expr) and isinstance(s.value, ast.Call) and isinstance(s.value.func, ast.Attribute) and s.value.func.attr == "sort" \
                and isinstance(s.value.func.value, ast.Name) and not s.value.args and not s.value.keywords:
            xs, xty = self.expr(s.value.func.value, env)
            if xty == ("List", "Str"):
                txt, en = self.assign_name(s.value.func.value, "(stableSortBy (fun a b => decide (a ≤ b)) %s)" % xs, xty, env)
                return txt + self.block(rest, en, k)
            raise Untranslatable("sort of %s" % (xty,))
        if isinstance(s, ast.Assign) and len(s.targets) == 1 and isinstance(s.targets[0], ast.Subscript) and isinstance(s.targets[0].value, ast.Name):
            # d[key] = value  on a local dictionary: a new binding (look-ups take the most recent one)
            d = s.targets[0].value.id
            dt, dty = self.expr(s.targets[0].value, env)
            if isinstance(dty, tuple) and dty[0] == "AssocL":
                key = self.coerce(*self.expr(s.targets[0].slice, env), dty[1])
                val = self.coerce(*self.expr(s.value, env), dty[2])
                txt, en = self.assign_name(s.targets[0].value, "(%s ++ [(%s, %s)])" % (dt, key, val), dty, env)
                return txt + self.block(rest, en, k)
            if isinstance(dty, tuple) and dty[0] == "ODict":
                # an (ordered) dictionary whose VALUES are listed later: a key that is present keeps its position and gets the new value
                key = self.coerce(*self.expr(s.targets[0].slice, env), dty[1])
                val = self.coerce(*self.expr(s.value, env), dty[2])
                txt, en = self.assign_name(s.targets[0].value, "(odictSet %s %s %s)" % (dt, key, val), dty, env)
                txt2, en = self.write_back(d, en)
                return txt + txt2 + self.block(rest, en, k)
            raise Untranslatable("subscript assignment to %s" % (dty,))
        if isinstance(s, ast.Assign) and len(s.targets) == 1 and isinstance(s.targets[0], ast.Name) and s.targets[0].id in self.spec.get("absent_objects", {}):
            return self.block(rest, env, k)          # zeroPair = ZeroPair(): the declared absent-object
        if isinstance(s, ast.Assign) and len(s.targets) == 1 and isinstance(s.targets[0], ast.Name) and isinstance(s.value, ast.Dict) and not s.value.keys \
                and isinstance(self.spec.get("locals", {}).get(s.targets[0].id), tuple) and self.spec["locals"][s.targets[0].id][0] in ("AssocL", "MultiL", "ODict"):
            txt, en = self.assign_name(s.targets[0], "[]", self.spec["locals"][s.targets[0].id], env)
            return txt + self.block(rest, en, k)
        if isinstance(s, ast.Assign):
            if len(s.targets) != 1:
                raise Untranslatable("multiple assignment targets")
            tgt = s.targets[0]
            if isinstance(tgt, ast.Tuple) and all(isinstance(x, ast.Name) for x in tgt.elts) and not isinstance(s.value, ast.Tuple):
                # a, b = xs  with xs a list: Python raises ValueError unless it has exactly that many items
                vt, vty = self.expr(s.value, env)
                if isinstance(vty, tuple) and vty[0] == "Except" and isinstance(vty[2], tuple) and vty[2][0] == "Prod" and self.may_bind(vty):
                    # the value of a raising call unpacked: the call first (its error propagates), then the unpacking of its value
                    tmpn = env.fresh("_unpacked")
                    first = ast.copy_location(ast.Assign(targets=[ast.Name(id=tmpn, ctx=ast.Store())], value=s.value), s)
                    second = ast.copy_location(ast.Assign(targets=[tgt], value=ast.copy_location(ast.Name(id=tmpn, ctx=ast.Load()), s)), s)
                    return self.block([first, second] + rest, env, k)
                if isinstance(vty, tuple) and vty[0] == "Prod" and len(vty) - 1 == len(tgt.elts):
                    tmp = env.fresh("pair")
                    out, en = "let %s : %s := %s;\n" % (tmp, lty(vty), vt), env
                    n = len(tgt.elts)
                    for i, x in enumerate(tgt.elts):
                        txt, en = self.assign_name(x, "%s.%s" % (tmp, ".".join(["2"] * i + (["1"] if i < n - 1 else []))), vty[1 + i], en)
                        out += txt
                    return out + self.block(rest, en, k)
                if isinstance(vty, tuple) and vty[0] == "List" and self.spec.get("unpack_error") and self.ret[0] == "Except":
                    names = [env.fresh(x.id) for x in tgt.elts]
                    en = env
                    for x, n in zip(tgt.elts, names):
                        en = en.bind(x.id, n, vty[1])
                        self.declared_types.setdefault(x.id, vty[1])
                    return "(match %s with\n| [%s] => %s\n| _ => (.error %s))" % (vt, ", ".join(names), self.block(rest, en, k), self.spec["unpack_error"])
                raise Untranslatable("unpacking of %s" % (vty,))
            if isinstance(tgt, ast.Tuple) and isinstance(s.value, ast.Tuple) and len(tgt.elts) == len(s.value.elts):
                # a, b = x, y   (evaluate right-hand sides first)
                vals = [self.expr(v, env) for v in s.value.elts]
                tmp = [env.fresh("tmp") for _ in vals]
                out, en = "", env
                for tname, (vt, _) in zip(tmp, vals):
                    out += "let %s := %s;\n" % (tname, vt)
                for el, tname, (_, vty) in zip(tgt.elts, tmp, vals):
                    en = self.assign_name(el, tname, vty, en)[1]
                    out += self.assign_name(el, tname, vty, env)[0]
                return out + self.block(rest, en, k)
            if isinstance(tgt, ast.Name) and self.const_str(s.value, env) is not None and self.spec.get("writer"):
                if not hasattr(self, "strconsts"):
                    self.strconsts = {}
                self.strconsts[tgt.id] = self.const_str(s.value, env)      # a format template: folded into the tokens that use it
                return self.block(rest, env, k)
            if isinstance(tgt, ast.Name) and self.spec.get("writer") and isinstance(s.value, ast.Call) and isinstance(s.value.func, ast.Name) and s.value.func.id == "dict" and not s.value.args:
                if not hasattr(self, "dictconsts"):
                    self.dictconsts = {}
                self.dictconsts[tgt.id] = dict((kw.arg, kw.value) for kw in s.value.keywords)      # parameters of a %-template: folded into the token
                return self.block(rest, env, k)
            if isinstance(s.value, ast.Dict) and isinstance(tgt, (ast.Name, ast.Attribute)) and self.spec.get("dict_as_list"):
                # a dictionary literal the function iterates over / tests membership in: the list of its (key, value) pairs in the order written; a value that
                # is None in some entries is optional
                keys = [self.expr(x, env) for x in s.value.keys]
                nones = [isinstance(x, ast.Constant) and x.value is None for x in s.value.values]
                vals = [None if nn else self.expr(x, env) for x, nn in zip(s.value.values, nones)]
                vty0 = next(v[1] for v in vals if v is not None)
                vty = ("Opt", vty0) if any(nones) else vty0
                name = self.seg(tgt)
                lean = env.fresh(name.replace(".", "_"))
                txt = "[" + ", ".join("(%s, %s)" % (a[0], ("none" if b is None else ("(some %s)" % b[0] if any(nones) else b[0]))) for a, b in zip(keys, vals)) + "]"
                dty = ("AssocL", keys[0][1], vty)
                en = env.bind(name, lean, dty)
                return "let %s : %s := %s;\n%s" % (lean, lty(dty), txt, self.block(rest, en, k))
            if isinstance(s.value, ast.Dict) and isinstance(tgt, (ast.Name, ast.Attribute)):
                keys = [self.expr(x, env) for x in s.value.keys]
                vals = [self.expr(x, env) for x in s.value.values]
                name = self.seg(tgt)
                lean = name.replace(".", "_")
                txt = "[" + ", ".join("(%s, %s)" % (a[0], b[0]) for a, b in zip(keys, vals)) + "]"
                en = env.bind(name, lean, ("Assoc", keys[0][1], vals[0][1]))
                return "let %s : List (%s × %s) := %s;\n%s" % (lean, lty(keys[0][1]), lty(vals[0][1]), txt, self.block(rest, en, k))
            if isinstance(s.value, ast.Subscript) and isinstance(s.value.value, ast.Name) and s.value.value.id in env.vars and isinstance(tgt, ast.Name) \
                    and isinstance(env.vars[s.value.value.id][1], tuple) and env.vars[s.value.value.id][1][0] in ("ODict", "AssocL") and self.spec.get("key_error") \
                    and self.ret[0] == "Except" and self.seg(s.value) not in env.facts:
                # x = d[key]: Python raises KeyError when the key is absent - the declared error constructor
                d, dty = env.vars[s.value.value.id]
                key = self.coerce(*self.expr(s.value.slice, env), dty[1])
                n = env.fresh("found")
                txt, en = self.assign_name(tgt, n, dty[2], env)
                return "(match (lookupLast %s %s) with\n| some %s => %s%s\n| none => (.error %s))" % (d, key, n, txt, self.block(rest, en, k), self.spec["key_error"])
            if isinstance(s.value, ast.Call) and isinstance(s.value.func, ast.Attribute) and s.value.func.attr == "setdefault" and isinstance(s.value.func.value, ast.Name) \
                    and len(s.value.args) == 2 and s.value.func.value.id in env.vars and isinstance(env.vars[s.value.func.value.id][1], tuple) \
                    and env.vars[s.value.func.value.id][1][0] == "ODict" and isinstance(tgt, ast.Name):
                # x = d.setdefault(key, default): the dictionary gains the entry when the key is new; x is the entry now held
                d, dty = env.vars[s.value.func.value.id]
                key = self.coerce(*self.expr(s.value.args[0], env), dty[1])
                dv = self.coerce(*self.expr(s.value.args[1], env), dty[2])
                txt1, en = self.assign_name(s.value.func.value, "(odictSetDefault %s %s %s)" % (d, key, dv), dty, env)
                txt2, en = self.assign_name(tgt, "((lookupLast %s %s).getD %s)" % (en.vars[s.value.func.value.id][0], key, dv), dty[2], en)
                if isinstance(dty[2], tuple) and dty[2][0] == "ODict":
                    # the name now holds the dictionary stored under the key itself, not a copy
                    en = en.copy()
                    en.aliases[tgt.id] = (s.value.func.value.id, key, dty)
                return txt1 + txt2 + self.block(rest, en, k)
            if isinstance(s.value, ast.Call) and isinstance(s.value.func, ast.Attribute) and isinstance(s.value.func.value, ast.Name) and s.value.func.value.id in env.vars \
                    and isinstance(env.vars[s.value.func.value.id][1], tuple) and env.vars[s.value.func.value.id][1][0] == "Opt" \
                    and isinstance(env.vars[s.value.func.value.id][1][1], tuple) and env.vars[s.value.func.value.id][1][1][0] == "Rec" \
                    and self.spec.get("none_call_error") and self.ret[0] == "Except":
                # x.method(..) where x may still be None on this path as far as the translator can tell: Python raises AttributeError there - the declared constructor
                nm_ = s.value.func.value.id
                lean_, ty_ = env.vars[nm_]
                n_ = env.fresh(nm_)
                en_ = env.bind(nm_, n_, ty_[1])
                return "(match %s with\n| some %s => %s\n| none => (.error %s))" % (lean_, n_, self.block([s] + rest, en_, k), self.spec["none_call_error"])
            if isinstance(s.value, ast.Subscript) and isinstance(s.value.slice, ast.Constant) and isinstance(s.value.slice.value, int) and s.value.slice.value >= 0 \
                    and self.spec.get("index_error") and self.ret[0] == "Except" and isinstance(tgt, ast.Name) and self.seg(s.value) not in env.facts:
                try:
                    lt_, lty_ = self.expr(s.value.value, env)
                except Untranslatable:
                    lt_, lty_ = None, None
                if isinstance(lty_, tuple) and lty_[0] == "List":
                    # x = xs[k] with a constant k: Python raises IndexError when the list is shorter - the declared error constructor
                    n = env.fresh("item")
                    txt, en = self.assign_name(tgt, n, lty_[1], env)
                    return "(match %s[%d]? with\n| some %s => %s%s\n| none => (.error %s))" % (lt_, s.value.slice.value, n, txt, self.block(rest, en, k), self.spec["index_error"])
            vt, vty = self.expr(s.value, env)
            if isinstance(vty, tuple) and vty[0] == "Except":
                # binding the result of a raising proc: propagate the error
                if not self.may_bind(vty):
                    raise Untranslatable("call of a raising function in a function that does not raise")
                n = env.fresh("v")
                txt, en = self.assign_name(tgt, n, vty[2], env)
                en = self.drop_aliases(tgt, en)
                return self.bind_raising(vt, n, txt + self.block(rest, en, k), env)
            txt, en = self.assign_name(tgt, vt, vty, env)
            en = self.drop_aliases(tgt, en)
            return txt + self.block(rest, en, k)
        if isinstance(s, ast.AugAssign) and isinstance(s.target, ast.Name):
            fake = ast.BinOp(left=ast.Name(id=s.target.id, ctx=ast.Load()), op=s.op, right=s.value)
            ast.copy_location(fake, s)
            ast.fix_missing_locations(fake)
            vt, vty = self.binop(fake, env)
            txt, en = self.assign_name(s.target, vt, vty, env)
            return txt + self.block(rest, en, k)
        if isinstance(s, ast.Expr) and isinstance(s.value, ast.Call) and isinstance(s.value.func, ast.Attribute) and s.value.func.attr == "sort" \
                and isinstance(s.value.func.value, ast.Name) and not s.value.args and len(s.value.keywords) == 1 and s.value.keywords[0].arg == "key":
            # xs.sort(key = K) with K = functools.cmp_to_key(F) at module level and F a translated function: Python's sort is stable, so the result is
            # the stable insertion sort by `F(a, b) <= 0`
            kname = self.seg(s.value.keywords[0].value)
            cmpf = self.spec.get("sort_keys", {}).get(kname)
            if cmpf is None or (self.spec["file"], cmpf) not in self.procs:
                raise Untranslatable("sort key %s" % kname)
            xs, xty = self.expr(s.value.func.value, env)
            if not (isinstance(xty, tuple) and xty[0] == "List"):
                raise Untranslatable("sort of %s" % (xty,))
            txt, en = self.assign_name(s.value.func.value, "(stableSortBy (fun a b => decide (%s a b ≤ 0)) %s)" % (self.procs[(self.spec["file"], cmpf)]["name"], xs), xty, env)
            return txt + self.block(rest, en, k)
        if isinstance(s, ast.Expr) and isinstance(s.value, ast.Call) and isinstance(s.value.func, ast.Attribute) and s.value.func.attr == "setdefault" \
                and isinstance(s.value.func.value, ast.Name) and s.value.func.value.id in env.vars and len(s.value.args) == 2 and not s.value.keywords \
                and isinstance(env.vars[s.value.func.value.id][1], tuple) and env.vars[s.value.func.value.id][1][0] == "ODict":
            # d.setdefault(key, value) for its effect: the entry is added (at the end) when the key is new
            d, dty = env.vars[s.value.func.value.id]
            key = self.coerce(*self.expr(s.value.args[0], env), dty[1])
            dv = self.coerce(*self.expr(s.value.args[1], env), dty[2])
            txt, en = self.assign_name(s.value.func.value, "(odictSetDefault %s %s %s)" % (d, key, dv), dty, env)
            txt2, en = self.write_back(s.value.func.value.id, en)
            return txt + txt2 + self.block(rest, en, k)
        if isinstance(s, ast.Expr) and isinstance(s.value, ast.Call) and isinstance(s.value.func, ast.Attribute) and s.value.func.attr == "update" \
                and isinstance(s.value.func.value, ast.Name) and s.value.func.value.id in env.vars and len(s.value.args) == 1 and not s.value.keywords \
                and isinstance(env.vars[s.value.func.value.id][1], tuple) and env.vars[s.value.func.value.id][1][0] == "ODict":
            # d.update(other): every entry of `other`, in its order, set in d (an existing key keeps its position and gets the new value)
            d, dty = env.vars[s.value.func.value.id]
            ot, oty = self.expr(s.value.args[0], env)
            if oty != dty:
                raise Untranslatable("update of %s with %s" % (dty, oty))
            txt, en = self.assign_name(s.value.func.value, "(odictUpdate %s %s)" % (d, ot), dty, env)
            txt2, en = self.write_back(s.value.func.value.id, en)
            return txt + txt2 + self.block(rest, en, k)
        if isinstance(s, ast.Expr) and isinstance(s.value, ast.Yield):
            vt, vty = self.expr(s.value.value, env)
            elt = self.inner_ret()[1]
            txt, en = self.assign_name(ast.Name(id="_yielded", ctx=ast.Store()), "(%s ++ [%s])" % (env.vars["_yielded"][0], self.coerce(vt, vty, elt)), self.inner_ret(), env)
            return txt + self.block(rest, en, k)
        if isinstance(s, ast.Expr) and isinstance(s.value, ast.Call):
            w = self.stream_statement(s.value, env)
            if w is not None:
                name, newval, ty, bind = w
                if bind:          # a raising writer: propagate the error
                    n = env.fresh("v")
                    txt, en = self.assign_name(ast.Name(id=name, ctx=ast.Store()), n, ty, env)
                    return self.bind_raising(newval, n, txt + self.block(rest, en, k), env)
                txt, en = self.assign_name(ast.Name(id=name, ctx=ast.Store()), newval, ty, env)
                return txt + self.block(rest, en, k)
        if isinstance(s, ast.Expr) and isinstance(s.value, ast.Call):
            # statement call of a raising proc:  self._check_positive(...)
            vt, vty = self.expr(s.value, env)
            if isinstance(vty, tuple) and vty[0] == "Except":
                if not self.may_bind(vty):
                    raise Untranslatable("call of a raising function in a function that does not raise")
                return self.bind_raising(vt, "_", self.block(rest, env, k), env)
            raise Untranslatable("expression statement %s" % (self.seg(s.value) or "")[:50])
        if isinstance(s, ast.Try) and len(s.body) == 1 and isinstance(s.body[0], ast.Return) and isinstance(s.body[0].value, ast.Call) \
                and self.seg(s.body[0].value.func) in self.spec.get("try_ops", {}) and len(s.handlers) == 1 and len(s.handlers[0].body) == 1 and not s.orelse and not s.finalbody:
            # try: return obj.get(key, 'property')  except SomeException: raise ... / return <default>  - the look-up declared as an operation returning an Option
            c = s.body[0].value
            table = self.spec["try_ops"][self.seg(c.func)]
            sel = c.args[-1].value if c.args and isinstance(c.args[-1], ast.Constant) else None
            if sel not in table:
                raise Untranslatable("try around an undeclared look-up %s" % sel)
            lname, rty = table[sel]
            args = [self.expr(a, env)[0] for a in c.args[:-1]]
            h = s.handlers[0].body[0]
            n = env.fresh("found")
            if isinstance(h, ast.Raise):
                other = "(.error %s)" % self.err_tag(h.exc)
            elif isinstance(h, ast.Return):
                other = self.wrap_ret(*self.expr(h.value, env))
            else:
                raise Untranslatable("try handler shape")
            return "(match (%s %s) with\n| some %s => %s\n| none => %s)" % (lname, " ".join(args), n, self.wrap_ret(n, rty), other)
        def _hnames(h_):
            return [h_.type.id] if isinstance(h_.type, ast.Name) else ([x_.id for x_ in h_.type.elts] if isinstance(h_.type, ast.Tuple) and all(isinstance(x_, ast.Name) for x_ in h_.type.elts) else [None])
        if isinstance(s, ast.Try) and self.spec.get("exc_classes") and not s.orelse and not s.finalbody and s.handlers \
                and all(all(n_ in self.spec["exc_classes"] for n_ in _hnames(h)) for h in s.handlers) and self.ret[0] == "Except":
            # try: <statements calling raising functions of another error type>  except ClassA as a: ... except ClassB: ...
            # spec["exc_classes"]: exception class -> the inner error constructor it stands for, or "*" for a class every inner error belongs to (a base class).
            # Handlers are tried in the order written; an error no handler takes would propagate unchanged in Python - here that needs a catch-all (else untranslatable).
            ev = env.fresh("exc")
            arms, caught_all = [], False
            for h in s.handlers:
                tags_ = set(self.spec["exc_classes"][n_] for n_ in _hnames(h))
                if len(tags_) != 1:
                    raise Untranslatable("classes of one except clause stand for different errors")
                tag = tags_.pop()
                saved = getattr(self, "try_handler", None)
                self.try_handler = None                      # a raise inside a handler is not caught by this try
                try:
                    body = self.block(h.body, env, lambda en: (_ for _ in ()).throw(Untranslatable("handler that falls through")))
                finally:
                    self.try_handler = saved
                arms.append("| %s => %s" % ("_" if tag == "*" else tag, body))
                if tag == "*":
                    caught_all = True
                    break
            if not caught_all:
                # errors no clause takes leave the function as they are: declared, constructor by constructor (spec["exc_passthrough"])
                if not self.spec.get("exc_passthrough"):
                    raise Untranslatable("try without a handler for the remaining errors")
                for inner_, outer_ in self.spec["exc_passthrough"]:
                    arms.append("| %s => (.error %s)" % (inner_, outer_))
            dispatch = "(match %s with\n%s)" % (ev, "\n".join(arms))
            outer = getattr(self, "try_handler", None)
            self.try_handler = (ev, dispatch)

            def after(en):
                cur = self.try_handler
                self.try_handler = outer
                try:
                    return self.block(rest, en, k)
                finally:
                    self.try_handler = cur
            try:
                return self.block(s.body, env, after)
            finally:
                self.try_handler = outer
        if isinstance(s, ast.Try):
            # try: X = rec.attr[key]  except KeyError: raise ...   - the look-up declared as partial (try_subscripts): absent key -> the error
            ok = len(s.body) == 1 and isinstance(s.body[0], ast.Assign) and len(s.body[0].targets) == 1 and isinstance(s.body[0].targets[0], ast.Name) \
                and isinstance(s.body[0].value, ast.Subscript) and isinstance(s.body[0].value.value, ast.Attribute) and not s.orelse and not s.finalbody \
                and len(s.handlers) == 1 and isinstance(s.handlers[0].type, ast.Name) and s.handlers[0].type.id == "KeyError" \
                and len(s.handlers[0].body) == 1 and isinstance(s.handlers[0].body[0], ast.Raise) and (self.ret[0] == "Except" or self.at_dest_level())
            if not ok:
                # try: return list(D[key].keys())  except KeyError: raise ...   - D an insertion-ordered dictionary of dictionaries held in a declared
                # parameter: absent key -> the error, else the keys of the entry found (no other look-up in the body can raise KeyError)
                rv = s.body[0].value if len(s.body) == 1 and isinstance(s.body[0], ast.Return) else None
                ok2 = isinstance(rv, ast.Call) and isinstance(rv.func, ast.Name) and rv.func.id == "list" and len(rv.args) == 1 and not rv.keywords \
                    and isinstance(rv.args[0], ast.Call) and isinstance(rv.args[0].func, ast.Attribute) and rv.args[0].func.attr == "keys" and not rv.args[0].args \
                    and isinstance(rv.args[0].func.value, ast.Subscript) and not s.orelse and not s.finalbody \
                    and len(s.handlers) == 1 and isinstance(s.handlers[0].type, ast.Name) and s.handlers[0].type.id == "KeyError" \
                    and len(s.handlers[0].body) == 1 and isinstance(s.handlers[0].body[0], ast.Raise) and self.ret[0] == "Except"
                if not ok2:
                    raise Untranslatable("try statement shape")
                sub = rv.args[0].func.value
                dt, dty = self.expr(sub.value, env)
                if not (isinstance(dty, tuple) and dty[0] == "ODict" and isinstance(dty[2], tuple) and dty[2][0] == "ODict"):
                    raise Untranslatable("try around a look-up in %s" % (dty,))
                key = self.coerce(*self.expr(sub.slice, env), dty[1])
                n = env.fresh("found")
                return "(match (lookupLast %s %s) with\n| some %s => %s\n| none => (.error %s))" % (
                    dt, key, n, self.wrap_ret("(%s.map fun e => e.1)" % n, ("List", dty[2][1])), self.err_tag(s.handlers[0].body[0].exc))
            sub = s.body[0].value
            recv, rty = self.expr(sub.value.value, env)
            decl = self.spec.get("try_subscripts", {}).get((rty[1], sub.value.attr)) if isinstance(rty, tuple) and rty[0] == "Rec" else None
            if not decl:
                raise Untranslatable("try around an undeclared look-up")
            lname, kty, vty = decl
            key = self.coerce(*self.expr(sub.slice, env), kty)
            n = env.fresh("found")
            txt, en = self.assign_name(s.body[0].targets[0], n, vty, env)
            err = "(.error %s)" % self.err_tag(s.handlers[0].body[0].exc) if not self.at_dest_level() else env.vars[self.spec["inout"]][0]
            return "(match (%s %s %s) with\n| some %s => %s%s\n| none => %s)" % (lname, recv, key, n, txt, self.block(rest, en, k), err)
        if isinstance(s, ast.If):
            body_t, else_t = self.terminates(s.body), self.terminates(s.orelse)
            if rest and not (body_t and else_t):
                # join point: translate what follows once, in the un-narrowed environment, when that is possible and neither
                # branch assigns a variable; otherwise inline it into the branches (which then see narrowing and assignments)
                if not (self.assigns(s.body) | self.assigns(s.orelse)):
                    try:
                        after = self.block(rest, env, k)
                        j = env.fresh("k")
                        return "let %s : Unit → %s := (fun _ => (%s));\n%s" % (j, lty(self.ret), after, self.cond(
                            s.test, env, lambda en: self.block(s.body, en, lambda _: "%s ()" % j), lambda en: self.block(s.orelse, en, lambda _: "%s ()" % j)))
                    except Untranslatable:
                        pass
                elif self.spec.get("param_joins"):
                    # the branches assign variables: what follows is translated once as a function of the variables that exist before the `if` and are assigned in a
                    # branch (a variable first assigned inside a branch must not be read afterwards); otherwise it is inlined into the branches
                    assigned = self.assigns(s.body) | self.assigns(s.orelse)
                    pre = [n for n in sorted(assigned) if n in env.vars]
                    new = [n for n in assigned if n not in env.vars]
                    loads = set(n.id for st in rest for n in ast.walk(st) if isinstance(n, ast.Name) and isinstance(n.ctx, ast.Load))
                    if pre and not (set(new) & loads) and not env.aliases and not any(isinstance(n, (ast.Return, ast.Raise, ast.Break)) for st in s.body + s.orelse for n in ast.walk(st)):
                        try:
                            j = env.fresh("k")
                            en_after, params = env, []
                            for n in pre:
                                ln = env.fresh(n.replace(".", "_"))
                                params.append((n, ln, env.vars[n][1]))
                                en_after = en_after.bind(n, ln, env.vars[n][1])
                            after = self.block(rest, en_after, k)
                            callj = lambda en: "%s %s" % (j, " ".join(self.coerce(en.vars[n][0], en.vars[n][1], t) for n, _, t in params))
                            return "let %s : %s → %s := (fun %s => (%s));\n%s" % (
                                j, " → ".join(lty(t) for _, _, t in params), lty(self.ret), " ".join("(%s : %s)" % (ln, lty(t)) for _, ln, t in params), after,
                                self.cond(s.test, env, lambda en: self.block(s.body, en, callj), lambda en: self.block(s.orelse, en, callj)))
                        except Untranslatable:
                            pass
            cont = lambda en: self.block(rest, en, k)
            return self.cond(s.test, env, lambda en: self.block(s.body, en, cont), lambda en: self.block(s.orelse, en, cont))
        if isinstance(s, ast.Break) and getattr(self, "_break_k", None) is not None and getattr(self, "_loop_depth", 0) == 0:
            return self._break_k(env)
        if isinstance(s, ast.While):
            return self.whileloop(s, rest, env, k)
        if isinstance(s, ast.For):
            return self.forloop(s, rest, env, k)
        raise Untranslatable("statement %s" % type(s).__name__)

    def drop_aliases(self, tgt, env):
        """a plain assignment to a name: it no longer stands for a dictionary's entry, and no name stands for an entry of the dictionary it used to hold"""
        name = tgt.id if isinstance(tgt, ast.Name) else None
        if name is None or not any(a == name or v[0] == name for a, v in env.aliases.items()):
            return env
        en = env.copy()
        en.aliases = dict((a, v) for a, v in en.aliases.items() if a != name and v[0] != name)
        return en

    def write_back(self, name, env):
        """after `name` was changed: when it is an alias of a dictionary's entry, the dictionary holds the changed object"""
        al = env.aliases.get(name)
        if not al:
            return "", env
        dname, key, dty = al
        txt, en = self.assign_name(ast.Name(id=dname, ctx=ast.Store()), "(odictSet %s %s %s)" % (env.vars[dname][0], key, env.vars[name][0]), dty, env)
        return txt, en

    def hoist_raising(self, s, env):
        def raising_call(c):
            if not (isinstance(c, ast.Call) and isinstance(c.func, ast.Attribute) and isinstance(c.func.value, ast.Name) and c.func.value.id == "self"):
                return False
            pr = self.procs.get(self.proc_key(c.func.attr))
            return pr is not None and isinstance(pr["ret"], tuple) and pr["ret"][0] == "Except"
        spot = None
        if isinstance(s, ast.Assign) and isinstance(s.value, ast.List) and len(s.value.elts) == 1 and raising_call(s.value.elts[0]):
            spot = ("list", s.value.elts[0])
        elif isinstance(s, ast.Expr) and isinstance(s.value, ast.Call) and isinstance(s.value.func, ast.Attribute) and s.value.func.attr == "append" \
                and len(s.value.args) == 1 and raising_call(s.value.args[0]):
            spot = ("append", s.value.args[0])
        if spot is None:
            return None
        tmp = env.fresh("_hoisted")
        first = ast.copy_location(ast.Assign(targets=[ast.Name(id=tmp, ctx=ast.Store())], value=spot[1]), s)
        name = ast.copy_location(ast.Name(id=tmp, ctx=ast.Load()), s)
        if spot[0] == "list":
            second = ast.copy_location(ast.Assign(targets=s.targets, value=ast.copy_location(ast.List(elts=[name], ctx=ast.Load()), s)), s)
        else:
            second = ast.copy_location(ast.Expr(value=ast.copy_location(ast.Call(func=s.value.func, args=[name], keywords=[]), s)), s)
        return [first, second]

    def at_dest_level(self):
        """translating the body of a destination-writes variant itself (not one of its inner folds, whose result type is set while they are translated)"""
        return self.spec.get("dest_mode") and self.ret == "Dest"

    def bind_raising(self, x, n, body, env, annot=None):
        """run the raising computation x, bind its value to n, go on with body.  In a destination-writes variant the function's result is what the destination has
        received when control leaves the function - normally OR through an exception: there the error case is the destination as it is now."""
        if getattr(self, "try_handler", None):
            ev, dispatch = self.try_handler
            return "(match %s with\n| .ok %s => %s\n| .error %s => %s)" % (x, n if annot is None else "(%s : %s)" % (n, annot), body, ev, dispatch)
        if self.at_dest_level():
            return "(match %s with\n| .ok %s => %s\n| .error _ => %s)" % (x, n if annot is None else "(%s : %s)" % (n, annot), body, env.vars[self.spec["inout"]][0])
        return "(andThen %s fun %s =>\n%s)" % (x, n if annot is None else "(%s : %s)" % (n, annot), body)

    def may_bind(self, vty):
        if getattr(self, "try_handler", None):
            return True
        if self.at_dest_level():
            return vty[1] == self.spec.get("err")
        return self.ret[0] == "Except" and self.ret[1] == vty[1]

    def inner_ret(self):
        return self.ret[2] if self.ret[0] == "Except" else self.ret

    def assign_name(self, tgt, vt, vty, env):
        if isinstance(tgt, ast.Attribute) and self.seg(tgt) in self.spec.get("attr_results", []):
            name = self.seg(tgt)
        elif not isinstance(tgt, ast.Name):
            raise Untranslatable("assignment target %s" % type(tgt).__name__)
        else:
            name = tgt.id
        declared = self.spec.get("locals", {}).get(name)
        if declared is None and name in env.vars and name in self.declared_types:
            declared = self.declared_types[name]
        if name in self.spec.get("retype", []) and getattr(self, "_loop_depth", 0) == 0 and vty not in ("None", "EmptyList", "EmptySet", "EmptyDict"):
            declared = None            # a name re-used for a value of another type (outside loops): the new binding has the new type
            self.declared_types[name] = vty
        if declared is not None:
            vt, vty = self.coerce(vt, vty, declared), declared
        elif vty in ("None", "EmptyList", "EmptySet", "EmptyDict"):
            raise Untranslatable("type of local %s unknown (declare it)" % name)
        self.declared_types.setdefault(name, vty)
        lean = env.fresh(name.replace(".", "_"))
        return "let %s : %s := %s;\n" % (lean, lty(vty), vt), env.bind(name, lean, vty)

    def loop_target(self, s, xty, inner):
        """-> (pattern variable, environment of the body) for the loop target: a name, or a tuple of names over a list of tuples"""
        if isinstance(s.target, ast.Name):
            v = "x_" + s.target.id
            return v, inner.bind(s.target.id, v, xty[1])
        names = [t.id for t in s.target.elts]
        ety = xty[1]
        if not (isinstance(ety, tuple) and ety[0] == "Prod" and len(ety) - 1 == len(names)):
            raise Untranslatable("loop target (%s) over items of type %s" % (", ".join(names), lty(ety)))
        v = "x_" + "_".join(n.strip("_") or "u" for n in names)
        en = inner
        for i, n in enumerate(names):
            proj = "%s.%s" % (v, ".".join(["2"] * i + (["1"] if i < len(names) - 1 else [])))
            en = en.bind(n, proj, ety[1 + i])
        return v, en

    def forloop(self, s, rest, env, k):
        if s.orelse or not (isinstance(s.target, ast.Name) or (isinstance(s.target, ast.Tuple) and all(isinstance(t, ast.Name) for t in s.target.elts))):
            raise Untranslatable("for loop shape")
        xs, xty = self.expr(s.iter, env)
        if isinstance(xty, tuple) and xty[0] == "ODict":
            xs, xty = "(%s.map fun e => e.1)" % xs, ("List", xty[1])          # iterating a dictionary: its keys, in order of first insertion
        if isinstance(xty, tuple) and xty[0] == "Set" and self.spec.get("set_order"):
            # iterating a set: Python leaves the order open - the order is an operation handed to the translated function (any permutation: theorems quantify over it)
            xs, xty = "(%s %s)" % (self.spec["set_order"], xs), ("List", xty[1])
        if not (isinstance(xty, tuple) and xty[0] == "List"):
            raise Untranslatable("for over %s" % (xty,))
        self.loopn += 1
        lname = "%s_loop%d" % (self.name, self.loopn)
        # A loop that contains another loop, or is contained in one, cannot hand "the rest of the function" to its [] case (that would need the outer loop's
        # remaining items): it is translated as a FOLD - the loop function returns the variables its body assigns, the caller goes on with them.  Such a
        # loop may not `return` / `raise` from inside.
        def walk_own(nodes):
            for n in nodes:
                yield n
                for c in ast.iter_child_nodes(n):
                    if not isinstance(c, (ast.FunctionDef, ast.ClassDef, ast.Lambda)):
                        for m in walk_own([c]):
                            yield m
        inner_nodes = list(walk_own(s.body))
        nested = any(isinstance(n, ast.For) for n in inner_nodes) or getattr(self, "_loop_depth", 0) > 0
        if nested:
            raising = any(isinstance(n, ast.Raise) for n in inner_nodes)
            if any(isinstance(n, ast.Return) for n in inner_nodes) or (raising and self.ret[0] != "Except" and not self.at_dest_level()):
                raise Untranslatable("return inside nested loops / raise where the function does not raise")
            return self.forloop_fold(s, rest, env, k, xs, xty, lname, raising)
        # parameters of the loop function: every variable in scope (by its current lean name / narrowed type)
        scope = sorted(env.vars.items())
        # a variable the loop target shadows is neither carried nor available after the loop (in Python it would hold the last item then, with another type)
        scope = [(n, l, t) for n, (l, t) in scope if not (isinstance(t, tuple) and t[0] == "Assoc") and n not in (set([s.target.id]) if isinstance(s.target, ast.Name) else set(t.id for t in s.target.elts))]
        assoc = [(n, l, t) for n, (l, t) in sorted(env.vars.items()) if isinstance(t, tuple) and t[0] == "Assoc"]
        if assoc:
            raise Untranslatable("look-up table in scope of a loop")
        inner = Env(counter=env.counter)
        pnames = []
        for n, l, t in scope:
            pn = "c_" + n.replace(".", "_")
            inner.vars[n] = (pn, t)
            pnames.append((pn, t))
        tail = inner.fresh("rest")
        v, body_env = self.loop_target(s, xty, inner)

        def recurse(en):
            return "%s %s %s" % (lname, " ".join([n for n, _ in self.fixed] + ["%s" % en.vars[n][0] if en.vars[n][1] == t else self.coerce(en.vars[n][0], en.vars[n][1], t) for (n, _, t) in scope]), tail)
        nil_case = self.block(rest, inner, k_for_loop(self, k, env, inner))
        # `break`: what follows the loop, in the environment of the point where the loop is left
        saved_break = getattr(self, "_break_k", None)
        self._break_k = lambda en: self.block(rest, en, k_for_loop(self, k, env, inner))
        try:
            cons_case = self.block(s.body, body_env, recurse)
        finally:
            self._break_k = saved_break
        fixed = "".join(" (%s : %s)" % (n, lty(t)) for n, t in self.fixed)
        sig = fixed + "".join(" (%s : %s)" % (pn, lty(t)) for pn, t in pnames)
        ind = lambda t: "\n".join(("    " + l if i else l) for i, l in enumerate(t.split("\n")))
        self.aux.append("def %s%s : %s → %s\n  | [] => %s\n  | %s :: %s => %s\n" % (lname, sig, lty(xty), lty(self.ret), ind(nil_case), v, tail, ind(cons_case)))
        return "%s %s %s" % (lname, " ".join([n for n, _ in self.fixed] + [l for (_, l, _) in scope]), xs)

    def whileloop(self, s, rest, env, k):
        """`while n: <body>; n = n.<link>` - a walk along a chain of records linked by an optional field: a function recursive on the chain (well-founded on its size)"""
        last = s.body[-1] if s.body else None
        ok = isinstance(s.test, ast.Name) and not s.orelse and s.test.id in env.vars and isinstance(last, ast.Assign) and len(last.targets) == 1 \
            and isinstance(last.targets[0], ast.Name) and last.targets[0].id == s.test.id and isinstance(last.value, ast.Attribute) \
            and isinstance(last.value.value, ast.Name) and last.value.value.id == s.test.id and getattr(self, "_loop_depth", 0) == 0
        if not ok:
            raise Untranslatable("while loop shape")
        var = s.test.id
        vlean, vty = env.vars[var]
        if not (isinstance(vty, tuple) and vty[0] == "Opt" and isinstance(vty[1], tuple) and vty[1][0] == "Rec"):
            raise Untranslatable("while over %s" % (vty,))
        fld = self.spec.get("records", {}).get(vty[1][1], {}).get(last.value.attr)
        if not fld or fld[1] != vty:
            raise Untranslatable("while: %s.%s is not a link of the chain" % (var, last.value.attr))
        body_nodes = [n for st in s.body for n in ast.walk(st)]
        if any(isinstance(n, (ast.For, ast.While, ast.Break, ast.Continue)) for n in body_nodes) or var in self.assigns(s.body[:-1]):
            raise Untranslatable("while body shape")
        self.loopn += 1
        lname = "%s_loop%d" % (self.name, self.loopn)
        scope = [(n, l, t) for n, (l, t) in sorted(env.vars.items()) if n != var]
        if any(isinstance(t, tuple) and t[0] == "Assoc" for _, _, t in scope):
            raise Untranslatable("look-up table in scope of a loop")
        inner = Env(counter=env.counter)
        pnames = []
        for n, l, t in scope:
            pn = "c_" + n.replace(".", "_")
            inner.vars[n] = (pn, t)
            pnames.append((pn, t))
        x = "x_" + var
        body_env = inner.bind(var, x, vty[1])

        def recurse(en):
            return "%s %s %s.%s" % (lname, " ".join([n for n, _ in self.fixed] + [en.vars[n][0] if en.vars[n][1] == t else self.coerce(en.vars[n][0], en.vars[n][1], t) for (n, _, t) in scope]), x, fld[0])
        nil_case = self.block(rest, inner.bind(var, "none", vty), k_for_loop(self, k, env, inner))
        cons_case = self.block(s.body[:-1], body_env, recurse)
        fixed = "".join(" (%s : %s)" % (n, lty(t)) for n, t in self.fixed)
        sig = fixed + "".join(" (%s : %s)" % (pn, lty(t)) for pn, t in pnames)
        ind = lambda t: "\n".join(("    " + l if i else l) for i, l in enumerate(t.split("\n")))
        self.aux.append("def %s%s : %s → %s\n  | none => %s\n  | some %s => %s\ntermination_by n => sizeOf n\ndecreasing_by all_goals (cases %s; simp; omega)\n"
                        % (lname, sig, lty(vty), lty(self.ret), ind(nil_case), x, ind(cons_case), x))
        return "%s %s %s" % (lname, " ".join([n for n, _ in self.fixed] + [l for (_, l, _) in scope]), vlean)

    def forloop_fold(self, s, rest, env, k, xs, xty, lname, raising=False):
        scope = [(n, l, t) for n, (l, t) in sorted(env.vars.items()) if not (isinstance(t, tuple) and t[0] == "Assoc") and n not in (set([s.target.id]) if isinstance(s.target, ast.Name) else set(t.id for t in s.target.elts))]
        if any(isinstance(t, tuple) and t[0] == "Assoc" for _, (_, t) in env.vars.items()):
            raise Untranslatable("look-up table in scope of a loop")
        assigned, direct = self.assigns(s.body), self.assigns(s.body, via_args=False)
        # a variable only HANDED to a call can change only if its value is mutable (a stream, list, set or dictionary): numbers, strings and records are not
        mutable = lambda t: t == "Stream" or (isinstance(t, tuple) and t[0] in ("List", "Set", "AssocL", "MultiL", "ODict"))
        carried = [(n, l, t) for (n, l, t) in scope if n in direct or (n in assigned and mutable(t))]
        if not carried and not raising:
            raise Untranslatable("a nested loop that changes nothing")
        rty = "Unit" if not carried else carried[0][2] if len(carried) == 1 else ("Prod",) + tuple(t for _, _, t in carried)
        vty = rty
        if raising:
            # a loop whose body may raise: the loop function returns `Except`, the caller goes on (andThen) with the carried variables
            rty = ("Except", self.ret[1] if self.ret[0] == "Except" else self.spec["err"], rty)
        inner = Env(counter=env.counter)
        pnames = []
        for n, l, t in scope:
            pn = "c_" + n.replace(".", "_")
            inner.vars[n] = (pn, t)
            pnames.append((pn, t))
        tail = inner.fresh("rest")
        v, body_env = self.loop_target(s, xty, inner)

        def result(en):
            parts = [self.coerce(en.vars[n][0], en.vars[n][1], t) for (n, _, t) in carried]
            r = "()" if not parts else parts[0] if len(parts) == 1 else "(" + ", ".join(parts) + ")"
            return "(.ok %s)" % r if raising else r

        def recurse(en):
            return "%s %s %s" % (lname, " ".join([n for n, _ in self.fixed] + [en.vars[n][0] if en.vars[n][1] == t else self.coerce(en.vars[n][0], en.vars[n][1], t) for (n, _, t) in scope]), tail)
        saved_ret, saved_depth = self.ret, getattr(self, "_loop_depth", 0)
        self.ret, self._loop_depth = rty, saved_depth + 1          # join points inside the body produce the loop's result type
        try:
            nil_case = result(inner)
            cons_case = self.block(s.body, body_env, recurse)
        finally:
            self.ret, self._loop_depth = saved_ret, saved_depth
        fixed = "".join(" (%s : %s)" % (n, lty(t)) for n, t in self.fixed)
        sig = fixed + "".join(" (%s : %s)" % (pn, lty(t)) for pn, t in pnames)
        ind = lambda t: "\n".join(("    " + l if i else l) for i, l in enumerate(t.split("\n")))
        self.aux.append("def %s%s : %s → %s\n  | [] => %s\n  | %s :: %s => %s\n" % (lname, sig, lty(xty), lty(rty), ind(nil_case), v, tail, ind(cons_case)))
        call = "(%s %s %s)" % (lname, " ".join([n for n, _ in self.fixed] + [l for (_, l, _) in scope]), xs)
        # the caller goes on with the carried variables
        res = env.fresh("loop")
        dest_bind = raising and self.at_dest_level()
        out = "let %s : %s := %s;\n" % (res, lty(rty), call) if not raising else ("(andThen %s fun (%s : %s) =>\n" % (call, res, lty(vty)) if not dest_bind else
                                                                                   "(match %s with\n| .error _ => %s\n| .ok (%s : %s) =>\n" % (call, env.vars[self.spec["inout"]][0], res, lty(vty)))
        en = env
        for i, (n, l, t) in enumerate(carried):
            nl = env.fresh(n.replace(".", "_"))
            proj = res if len(carried) == 1 else "%s.%s" % (res, ".".join(["2"] * i + (["1"] if i < len(carried) - 1 else [])))
            out += "let %s : %s := %s;\n" % (nl, lty(t), proj)
            en = en.bind(n, nl, t)
        for (n, l, t) in carried:
            wb, en = self.write_back(n, en)
            out += wb
        return out + self.block(rest, en, k) + (")" if raising else "")

    # -------------------------------------------------------------------------------------------------------------------- main
    def translate(self):
        self.declared_types = {}
        env = Env()
        args = [a.arg for a in self.fn.args.args]
        declared = self.spec["params"]
        if args and args[0] in ("self", "cls") and not any(n == "self" for n, _ in declared):
            args = args[1:]
        if [n for n, _ in declared if not n.startswith("self.") and n not in self.spec.get("effect_log", {}).values()] != args:
            raise Untranslatable("signature is (%s), expected (%s)" % (", ".join(args), ", ".join(n for n, _ in declared)))
        sig = "".join(" (%s : %s)" % (n, lty(t)) for n, t in self.fixed)
        for n, t in declared:
            ln = n.replace(".", "_")
            if ln in LEAN_KEYWORDS:
                ln = ln + "_"
            env.vars[n] = (ln, t)
            self.declared_types[n] = t
            sig += " (%s : %s)" % (ln, lty(t))

        def fall_off(en):
            inner = self.inner_ret()
            if isinstance(inner, tuple) and inner[0] == "Opt":
                return self.wrap_ret("none", "None")
            if inner == "Unit":
                return self.wrap_ret("()", "Unit")
            if self.spec.get("attr_results"):
                # a constructor-like method: its result is the attributes it set
                parts = []
                for a, w in zip(self.spec["attr_results"], inner[1:]):
                    if a not in en.vars:
                        raise Untranslatable("%s is not set on every path" % a)
                    parts.append(self.coerce(en.vars[a][0], en.vars[a][1], w))
                return self.wrap_ret("(" + ", ".join(parts) + ")", inner)
            if self.spec.get("inout"):
                # a function that writes into a stream it was given returns the stream's new content
                return self.wrap_ret(*en.vars[self.spec["inout"]])
            if self.spec.get("generator"):
                return self.wrap_ret(*en.vars["_yielded"])
            raise Untranslatable("control can fall off the end of a function that must return a %s" % lty(inner))
        for n in self.spec.get("unit_locals", []):
            env.vars[n] = ("()", "Unit")          # a helper object whose construction is skipped; its methods are operations handed to the translated function
        if self.spec.get("generator"):
            env.vars["_yielded"] = ("([] : %s)" % lty(self.inner_ret()), self.inner_ret())
            self.declared_types["_yielded"] = self.inner_ret()
        body = self.block(self.fn.body, env, fall_off)
        body = "\n".join("  " + l for l in body.split("\n"))
        return "".join(a + "\n" for a in self.aux) + "def %s%s : %s :=\n%s\n" % (self.name, sig, lty(self.ret), body)


def k_for_loop(proc, k, outer_env, inner_env):
    """the continuation after a loop runs inside the loop function: same continuation, evaluated in the loop function's environment"""
    return lambda en: k(en)


# --------------------------------------------------------------------------------------------------------------------------------
RD_REC = {"PRange": {"start": ("start", "Int"), "range_type": ("range_type", "Str"), "potential_form": ("f", "Nat")}}

POT_REC = {"PotRec": {"speciesA": ("a", "Str"), "speciesB": ("b", "Str")}}
POT_METHODS = {("PotRec", "energy"): ("energyOf", ["Rat"], "OV"), ("PotRec", "force"): ("forceOf", ["Rat"], "OV")}
TAB_REC = {"TabRec": {"nr": ("nr", "Int"), "cutoff": ("cutoff", "Rat"), "potentials": ("potentials", ("List", ("Rec", "PotRec")))}}
EAM_REC = {"EamRec": {"species": ("species", "Str"), "atomicNumber": ("atomicNumber", "Int"), "mass": ("mass", "Rat"), "latticeConstant": ("latticeConstant", "Rat"),
                      "latticeType": ("latticeType", "Str"), "embeddingFunction": ("embed", ("Rec", "FnRec")), "electronDensityFunction": ("dens", ("Rec", "FnRec"))},
           "FnRec": {}}
EAM_METHODS = {("FnRec", "__call__"): ("evalFnOV", ["Rat"], "OV"), ("EamRec", "embeddingFunction"): ("embedOf", ["Rat"], "OV")}
EAMTAB_REC = dict(EAM_REC, **dict(POT_REC, EamTabRec={"nr": ("nr", "Int"), "cutoff": ("cutoff", "Rat"), "nrho": ("nrho", "Int"), "cutoff_rho": ("cutoff_rho", "Rat"),
                                                       "eam_potentials": ("eam_potentials", ("List", ("Rec", "EamRec"))), "potentials": ("potentials", ("List", ("Rec", "PotRec"))),
                                                       "dipole_potentials": ("dipole_potentials", ("List", ("Rec", "PotRec"))),
                                                       "quadrupole_potentials": ("quadrupole_potentials", ("List", ("Rec", "PotRec")))}))
EAMTAB_PROPS = {("EamTabRec", "dr"): ("pair_tabulation.py", "dr"), ("EamTabRec", "drho"): ("eam_tabulation.py", "drho")}
CP_REC = {"CpRec": {"tabulation": ("tabulation", ("Rec", "TabSec"))},
          "TabSec": {"cutoff": ("cutoff", ("Opt", "Rat")), "nr": ("nr", ("Opt", "Int")), "cutoff_rho": ("cutoff_rho", ("Opt", "Rat")), "nrho": ("nrho", ("Opt", "Int"))},
          "RCut": {"cutoff": ("cutoff", "Rat"), "nr": ("nr", "Int")},
          "RRhoCut": {"cutoff": ("cutoff", "Rat"), "nr": ("nr", "Int"), "cutoff_rho": ("cutoff_rho", "Rat"), "nrho": ("nrho", "Int")}}
REG_REC = {"DefRec": {"signature": ("signature", ("Rec", "SigRec"))}, "SigRec": {"label": ("label", "Str")}, "TDefRec": {"name": ("name", "Str")}, "FuncObj": {}, "FormObj": {}}
PFB_REC = {"PInst": {"has_modifier": ("isModifier", "Bool"), "modifier": ("name", "Str"), "potential_form": ("name", "Str"), "parameters": ("parameters", ("List", "Rat")),
                     "potential_forms": ("potential_forms", ("List", ("Rec", "PInst"))), "start": ("start", ("Opt", ("Rec", "StartRec"))), "next": ("next", ("Opt", ("Rec", "PInst")))},
           "StartRec": {"start": ("start", "Rat"), "range_type": ("range_type", "Str")}, "PfbSelf": {}, "ModFactory": {}, "FormFactory": {}, "PForm": {}, "MRDefn": {}, "PotFn": {},
           "PairRow": {"species": ("species", ("Rec", "SpeciesRec")), "potential_form_instance": ("potential_form_instance", ("Rec", "PInst"))},
           "SpeciesRec": {"species_a": ("species_a", "Str"), "species_b": ("species_b", "Str")}, "PotObj": {}}
PFB_OPS = [("lookupModifier", ("Fun", [("Rec", "PfbSelf"), "Str"], ("Opt", ("Rec", "ModFactory")))), ("lookupForm", ("Fun", [("Rec", "PfbSelf"), "Str"], ("Opt", ("Rec", "FormFactory")))),
           ("applyModifier", ("Fun", [("Rec", "ModFactory"), ("List", ("Rec", "PInst")), ("Rec", "PfbSelf")], ("Except", "PfbErr", ("Rec", "PForm")))),
           ("applyForm", ("Fun", [("Rec", "FormFactory"), ("List", "Rat")], ("Except", "PfbErr", ("Rec", "PForm"))))]
EBF = "config/_eam_potential_builder.py"
TFF = "config/_tabulation_factories.py"
EB_REC = {"EmbRow": {"species": ("species", "Str"), "potential_form_instance": ("pfi", ("Rec", "Pfi"))}, "Pfi": {},
          "CpEam": {"eam_embed": ("eam_embed", ("List", ("Rec", "EmbRow"))), "eam_density": ("eam_density", ("List", ("Rec", "EmbRow")))}, "FnRec": {}}
FS_REC = dict(EB_REC, **{"FsRow": {"species": ("species", ("Rec", "FsSpecies")), "potential_form_instance": ("pfi", ("Rec", "Pfi"))},
                        "FsSpecies": {"from_species": ("from_species", "Str"), "to_species": ("to_species", "Str")},
                        "CpEamFS": {"eam_embed": ("eam_embed", ("List", ("Rec", "EmbRow"))), "eam_density_fs": ("eam_density_fs", ("List", ("Rec", "FsRow")))}})
FSD = ("ODict", "Str", ("ODict", "Str", ("Rec", "FnRec")))
REF_OPS = [("refMass", ("Fun", ["Str"], ("Opt", "Rat"))), ("refNumber", ("Fun", ["Str"], ("Opt", "Int"))), ("refLatticeConstant", ("Fun", ["Str"], ("Opt", "Rat"))),
           ("refLatticeType", ("Fun", ["Str"], ("Opt", "Str")))]
REF_TRY = {"self._reference_data.get": {"atomic_mass": ("refMass", "Rat"), "atomic_number": ("refNumber", "Int"), "lattice_constant": ("refLatticeConstant", "Rat"),
                                        "lattice_type": ("refLatticeType", "Str")}}
ENT_REC = {"PairEnt": {"species": ("species", ("List", "Str"))}, "ElEnt": {"species": ("species", "Str")}}
CFG_REC = {"CfgRec": {}}
CFG_METHODS = {("CfgRec", "has_section"): ("cfgHas", ["Str"], "Bool"), ("CfgRec", "__getitem__"): ("cfgKeys", ["Str"], ("List", "Str")),
               ("CfgRec", "sections"): ("cfgSections", [], ("List", "Str"))}
INI_REC = {"IniRec": {"default_section": ("default_section", "Str")}, "OvRec": {"section": ("sect", "Str"), "key": ("key", "Str"), "value": ("value", ("Opt", "Str"))}}
INI_METHODS = {("IniRec", "has_option"): ("hasOption", ["Str", "Str"], "Bool"), ("IniRec", "has_section"): ("hasSection", ["Str"], "Bool"),
               ("IniRec", "__getitem__"): ("sectionKeys", ["Str"], ("List", "Str"))}
INI_MUT = {("IniRec", "remove_option"): ("removeOption", ["Str", "Str"]), ("IniRec", "remove_section"): ("removeSection", ["Str"]), ("IniRec", "add_section"): ("addSection", ["Str"])}
QAF = "tools/potable/_query_actions.py"
QA_REC = {"CpObj": {"raw_config_parser": ("raw", ("Rec", "IniRec")), "_config_parser": ("raw", ("Rec", "IniRec"))}, "IniRec": {"default_section": ("default_section", "Str")}}
QA_METHODS = {("IniRec", "has_section"): ("hasSection", ["Str"], "Bool"), ("IniRec", "__getitem__"): ("sectionKeys", ["Str"], ("List", "Str")),
              ("IniRec", "__getitem2__"): ("getValue", ["Str", "Str"], "Str"), ("IniRec", "sections"): ("sectionsOf", [], ("List", "Str")),
              ("IniRec", "defaults"): ("defaultKeys", [], ("List", "Str")), ("IniRec", "get"): ("getValue", ["Str", "Str"], "Str")}
QA_OPS = [("hasSection", ("Fun", [("Rec", "IniRec"), "Str"], "Bool")), ("sectionKeys", ("Fun", [("Rec", "IniRec"), "Str"], ("List", "Str"))),
          ("getValue", ("Fun", [("Rec", "IniRec"), "Str", "Str"], "Str")), ("sectionsOf", ("Fun", [("Rec", "IniRec")], ("List", "Str"))),
          ("defaultKeys", ("Fun", [("Rec", "IniRec")], ("List", "Str"))), ("isRelevant", ("Fun", ["Str"], "Bool"))]
CALLABLE_REC = {"Callable": {"has_deriv": ("has_deriv", "Bool"), "has_deriv2": ("has_deriv2", "Bool")}}

PROCS = [
    # ---- C08: multi-range selection
    dict(name="range_defn_cmp", file="_multi_range_potential_form.py", func="_range_defn_cmp",
         params=[("a", ("Rec", "PRange")), ("b", ("Rec", "PRange"))], ret="Int", records=RD_REC),
    dict(name="range_search", file="_multi_range_potential_form.py", func="Multi_Range_Potential_Form._range_search",
         params=[("self.range_defns", ("List", ("Rec", "PRange"))), ("r", "Int")], ret=("Opt", ("Rec", "PRange")), records=RD_REC,
         locals={"last": ("Opt", ("Rec", "PRange"))}),
    dict(name="range_defns_setter", file="_multi_range_potential_form.py", func="Multi_Range_Potential_Form.range_defns", nth=1,
         params=[("range_defns", ("List", ("Rec", "PRange")))], ret=("List", ("Rec", "PRange")), records=RD_REC,
         sort_keys={"_range_defn_key": "_range_defn_cmp"}, returns_attr="self._range_defns"),
    dict(name="mr_call", file="_multi_range_potential_form.py", func="Multi_Range_Potential_Form.__call__",
         params=[("self.range_defns", ("List", ("Rec", "PRange"))), ("self.default_value", "Rat"), ("r", "Int")], ret="Rat", records=RD_REC,
         implicit=[("evalForm", ("Fun", [("Rec", "PRange"), "Int"], "Rat"))], methods={("PRange", "potential_form"): ("evalForm", ["Int"], "Rat")}),
    dict(name="mr_deriv", file="_multi_range_potential_form.py", func="Multi_Range_Potential_Form_Deriv.deriv",
         params=[("self.range_defns", ("List", ("Rec", "PRange"))), ("r", "Int")], ret="Rat", records=RD_REC,
         implicit=[("rangeDeriv", ("Fun", [("Rec", "PRange"), "Int"], "Rat"))], methods={("PRange", "deriv"): ("rangeDeriv", ["Int"], "Rat")}),
    dict(name="mr_deriv2", file="_multi_range_potential_form.py", func="Multi_Range_Potential_Form_Deriv2.deriv2",
         params=[("self.range_defns", ("List", ("Rec", "PRange"))), ("r", "Int")], ret="Rat", records=RD_REC,
         implicit=[("rangeDeriv2", ("Fun", [("Rec", "PRange"), "Int"], "Rat"))], methods={("PRange", "deriv2"): ("rangeDeriv2", ["Int"], "Rat")}),
    # ---- C07 / C01: which derivative is used
    dict(name="num_deriv", file="_util.py", func="num_deriv",
         params=[("r", "Rat"), ("func", ("Rec", "Callable")), ("h", "Rat")], ret="Rat", records=CALLABLE_REC,
         implicit=[("evalFn", ("Fun", [("Rec", "Callable"), "Rat"], "Rat"))], methods={("Callable", "__call__"): ("evalFn", ["Rat"], "Rat")}),
    dict(name="util_deriv", file="_util.py", func="deriv",
         params=[("r", "Rat"), ("func", ("Rec", "Callable")), ("h", "Rat")], ret="Rat", records=CALLABLE_REC,
         implicit=[("evalFn", ("Fun", [("Rec", "Callable"), "Rat"], "Rat")), ("analyticDeriv", ("Fun", [("Rec", "Callable"), "Rat"], "Rat"))],
         methods={("Callable", "deriv"): ("analyticDeriv", ["Rat"], "Rat"), ("Callable", "__call__"): ("evalFn", ["Rat"], "Rat")}),
    dict(name="gradient_call", file="_util.py", func="_GradientWrapper.__call__",
         params=[("self._wrapped", ("Rec", "Callable")), ("self._h", "Rat"), ("r", "Rat")], ret="Rat", records=CALLABLE_REC,
         implicit=[("evalFn", ("Fun", [("Rec", "Callable"), "Rat"], "Rat")), ("analyticDeriv", ("Fun", [("Rec", "Callable"), "Rat"], "Rat"))]),
    dict(name="potential_force", file="_potential.py", func="Potential.force",
         params=[("r", "Rat")], ret="Rat", implicit=[("derivFunction", ("Fun", ["Rat"], "Rat"))], ops={"_derivFunction": ("derivFunction", ["Rat"], "Rat")}),
    dict(name="potential_energy", file="_potential.py", func="Potential.energy",
         params=[("r", "Rat")], ret="Rat", implicit=[("potentialFunction", ("Fun", ["Rat"], "Rat"))], ops={"_potentialFunction": ("potentialFunction", ["Rat"], "Rat")}),
    # ---- C01 / C02 / C19: the pair-table writers themselves
    dict(name="lammps_write_single", file="_lammps_writeTABLE.py", func="_writeSinglePotential", writer=True, inout="out",
         params=[("pot", ("Rec", "PotRec")), ("minr", "Rat"), ("maxr", "Rat"), ("gridPoints", "Int"), ("out", "Stream")], ret="Stream", records=POT_REC, methods=POT_METHODS),
    dict(name="lammps_write_potentials", dest=True, file="_lammps_writeTABLE.py", func="writePotentials", writer=True, inout="out",
         params=[("potentials", ("List", ("Rec", "PotRec"))), ("minr", "Rat"), ("maxr", "Rat"), ("gridPoints", "Int"), ("out", "Stream")], ret="Stream", records=POT_REC, methods=POT_METHODS,
         locals={"potlines": ("List", "Stream")}),
    dict(name="dlpoly_write_potential", file="_dlpoly_writeTABLE.py", func="_writePotential", writer=True, inout="out",
         params=[("potential", ("Rec", "PotRec")), ("cutoff", "Rat"), ("gridPoints", "Int"), ("meshResolution", "Rat"), ("out", "Stream")], ret=("Except", "WErr", "Stream"),
         raises=[("divisible by 4", "WErr.notMultipleOfFour")], records=POT_REC, methods=POT_METHODS, locals={"l": ("List", "OV")},
         ops={"_representable": ("representable", ["OV"], "OV"), "_calculateForce": ("rForceOf", [("Rec", "PotRec"), "Rat"], "OV")}),
    dict(name="dlpoly_write_header", file="_dlpoly_writeTABLE.py", func="_writeTableHeader", writer=True, inout="out",
         params=[("delpot", "Rat"), ("cutpot", "Rat"), ("ngrid", "Int"), ("out", "Stream")], ret="Stream"),
    dict(name="dlpoly_write_potentials", dest=True, file="_dlpoly_writeTABLE.py", func="writePotentials", writer=True, inout="out",
         params=[("potentials", ("List", ("Rec", "PotRec"))), ("cutoff", "Rat"), ("gridPoints", "Int"), ("out", "Stream")], ret=("Except", "WErr", "Stream"), records=POT_REC, methods=POT_METHODS),
    dict(name="r_value_iterator", file="pair_tabulation.py", func="_r_value_iterator", generator=True,
         params=[("tabulation", ("Rec", "TabRec"))], ret=("List", "Rat"), records=TAB_REC),
    dict(name="rho_value_iterator", file="eam_tabulation.py", func="_rho_value_iterator", generator=True,
         params=[("tabulation", ("Rec", "EamTabRec"))], ret=("List", "Rat"), records=EAMTAB_REC),
    dict(name="gulp_write_pot", file="pair_tabulation.py", func="GULP_PairTabulation._write_pot", writer=True, inout="fp",
         params=[("self", ("Rec", "TabRec")), ("pot", ("Rec", "PotRec")), ("fp", "Stream")], ret="Stream", records=dict(POT_REC, **TAB_REC), methods=POT_METHODS),
    dict(name="gulp_write", dest=True, file="pair_tabulation.py", func="GULP_PairTabulation.write", writer=True, inout="fp",
         params=[("self", ("Rec", "TabRec")), ("fp", "Stream")], ret="Stream", records=dict(POT_REC, **TAB_REC), methods=POT_METHODS),
    # ---- C03 / C04 / C05: the EAM writers (setfl, setfl Finnis-Sinclair, TABEAM pieces)
    dict(name="setfl_element_header", file="_lammpsWriteEAM.py", func="_writeSetFLElementHeader", writer=True, inout="out",
         params=[("eampot", ("Rec", "EamRec")), ("out", "Stream")], ret="Stream", records=EAM_REC),
    dict(name="setfl_embedding", file="_lammpsWriteEAM.py", func="_writeSetFLEmbeddingFunction", writer=True, inout="out",
         params=[("nrho", "Int"), ("drho", "Rat"), ("eampot", ("Rec", "EamRec")), ("out", "Stream")], ret="Stream", records=EAM_REC, methods=EAM_METHODS),
    dict(name="setfl_density_function", file="_lammpsWriteEAM.py", func="_writeDensityFunction", writer=True, inout="out",
         params=[("func", ("Rec", "FnRec")), ("nr", "Int"), ("dr", "Rat"), ("out", "Stream")], ret="Stream", records=EAM_REC, methods=EAM_METHODS),
    dict(name="setfl_density", file="_lammpsWriteEAM.py", func="_writeSetFLDensityFunction", writer=True, inout="out",
         params=[("eampot", ("Rec", "EamRec")), ("eampots", ("List", ("Rec", "EamRec"))), ("nr", "Int"), ("dr", "Rat"), ("out", "Stream")], ret="Stream", records=EAM_REC, methods=EAM_METHODS),
    dict(name="setfl_density_fs", file="_lammpsWriteEAM.py", func="_writeSetFLDensityFunctionFinnisSinclair", writer=True, inout="out",
         params=[("eampot", ("Rec", "EamRec")), ("eampots", ("List", ("Rec", "EamRec"))), ("nr", "Int"), ("dr", "Rat"), ("out", "Stream")], ret="Stream", records=EAM_REC, methods=EAM_METHODS,
         subscripts={("EamRec", "electronDensityFunction"): ("densOf", "Str", ("Rec", "FnRec"))}),
    dict(name="setfl_pairkey", file="_lammpsWriteEAM.py", func="_writeSetFLPairPots.pairkey",
         params=[("a", "Str"), ("b", "Str")], ret=("List", "Str"), locals={"k": ("List", "Str")}),
    dict(name="setfl_pair_pots", file="_lammpsWriteEAM.py", func="_writeSetFLPairPots", writer=True, inout="out",
         params=[("nr", "Int"), ("dr", "Rat"), ("eampots", ("List", ("Rec", "EamRec"))), ("pairpots", ("List", ("Rec", "PotRec"))), ("out", "Stream"), ("scale_r", "Bool")], ret="Stream",
         records=dict(EAM_REC, **POT_REC), methods={("OptPotRec", "energy"): ("energyOfOpt", ["Rat"], "OV")}, defaults={"scale_r": "true"},
         local_defs={"pairkey": ("setfl_pairkey", ["Str", "Str"], ("List", "Str"))}, absent_objects={"zeroPair": ("ZeroPair", {"energy": 0.0})},
         locals={"pairpotsdict": ("AssocL", ("List", "Str"), ("Rec", "PotRec"))}),
    dict(name="setfl_header", file="_lammpsWriteEAM.py", func="_writeSetFLHeader", writer=True, inout="out",
         params=[("nrho", "Int"), ("drho", "Rat"), ("nr", "Int"), ("dr", "Rat"), ("cutoff", "Rat"), ("eampots", ("List", ("Rec", "EamRec"))), ("comments", ("List", "Str")), ("out", "Stream")],
         ret="Stream", records=EAM_REC, retype=["ntypes"]),
    dict(name="setfl_write", dest=True, file="_lammpsWriteEAM.py", func="_writeSetFL", writer=True, inout="out",
         params=[("nrho", "Int"), ("drho", "Rat"), ("nr", "Int"), ("dr", "Rat"), ("cutoff", "Rat"), ("eampots", ("List", ("Rec", "EamRec"))), ("pairpots", ("List", ("Rec", "PotRec"))),
                 ("comments", ("List", "Str")), ("out", "Stream"),
                 ("writeDensityFunction", ("Fun", [("Rec", "EamRec"), ("List", ("Rec", "EamRec")), "Int", "Rat", "Stream"], "Stream"))], ret="Stream",
         records=dict(EAM_REC, **POT_REC), methods=EAM_METHODS, inout_calls={"writeDensityFunction": 4}),
    dict(name="setfl_write_alloy", dest=True, defaults={"comments": ('["", "", ""]', "['', '', '']"), "cutoff": ("none", "None")}, file="_lammpsWriteEAM.py", func="writeSetFL", writer=True, inout="out",
         params=[("nrho", "Int"), ("drho", "Rat"), ("nr", "Int"), ("dr", "Rat"), ("eampots", ("List", ("Rec", "EamRec"))), ("pairpots", ("List", ("Rec", "PotRec"))),
                 ("out", "Stream"), ("comments", ("List", "Str")), ("cutoff", ("Opt", "Rat"))], ret="Stream", records=dict(EAM_REC, **POT_REC), retype=["cutoff"]),
    dict(name="setfl_write_fs", dest=True, defaults={"comments": ('["", "", ""]', "['', '', '']"), "cutoff": ("none", "None")}, file="_lammpsWriteEAM.py", func="writeSetFLFinnisSinclair", writer=True, inout="out",
         params=[("nrho", "Int"), ("drho", "Rat"), ("nr", "Int"), ("dr", "Rat"), ("eampots", ("List", ("Rec", "EamRec"))), ("pairpots", ("List", ("Rec", "PotRec"))),
                 ("out", "Stream"), ("comments", ("List", "Str")), ("cutoff", ("Opt", "Rat"))], ret="Stream", records=dict(EAM_REC, **POT_REC), retype=["cutoff"]),
    dict(name="tabeam_tabulate", file="_dlpoly_writeTABEAM.py", func="_tabulateFunction", writer=True, inout="outputfile",
         params=[("outputfile", "Stream"), ("func", ("Rec", "FnRec")), ("numpoints", "Int"), ("step", "Rat")], ret="Stream", records=EAM_REC, methods=EAM_METHODS,
         locals={"row": ("List", "Tok")}),
    dict(name="tabeam_embedding", file="_dlpoly_writeTABEAM.py", func="_writeEmbeddingFunction", writer=True, inout="outfile",
         params=[("eampotential", ("Rec", "EamRec")), ("nrho", "Int"), ("drho", "Rat"), ("outfile", "Stream")], ret="Stream", records=EAM_REC, methods=EAM_METHODS),
    dict(name="tabeam_density", file="_dlpoly_writeTABEAM.py", func="_writeDensityFunction", writer=True, inout="outfile",
         params=[("speciesA", "Str"), ("speciesB", ("Opt", "Str")), ("electronDensityFunction", ("Rec", "FnRec")), ("nr", "Int"), ("dr", "Rat"), ("outfile", "Stream")], ret="Stream",
         records=EAM_REC, methods=EAM_METHODS),
    dict(name="tabeam_tabulate_pot", variant=True, file="_dlpoly_writeTABEAM.py", func="_tabulateFunction", writer=True, inout="outputfile",
         params=[("outputfile", "Stream"), ("func", ("Rec", "PotRec")), ("numpoints", "Int"), ("step", "Rat")], ret="Stream", records=POT_REC,
         methods={("PotRec", "__call__"): ("energyOf", ["Rat"], "OV")}, locals={"row": ("List", "Tok")}),
    dict(name="tabeam_pair_potential", file="_dlpoly_writeTABEAM.py", func="_writePairPotential", writer=True, inout="outfile",
         params=[("pairPotential", ("Rec", "PotRec")), ("nr", "Int"), ("dr", "Rat"), ("outfile", "Stream")], ret="Stream", records=POT_REC, methods=POT_METHODS,
         closures={"potentialCallable": ("pairPotential", "energy")}),
    dict(name="tabeam_pair_potentials", file="_dlpoly_writeTABEAM.py", func="_writePairPotentials", writer=True, inout="outfile",
         params=[("eamPotentials", ("List", ("Rec", "EamRec"))), ("pairPotentials", ("List", ("Rec", "PotRec"))), ("nr", "Int"), ("dr", "Rat"), ("outfile", "Stream")], ret="Stream",
         records=dict(EAM_REC, **POT_REC), methods=POT_METHODS, zero_defs=["nullfunc"], rec_constructors={"Potential": ("PotRec", ["Str", "Str", "ZeroDef"])},
         locals={"pairs": ("Set", ("List", "Str")), "pairPotDict": ("AssocL", ("List", "Str"), ("Rec", "PotRec")), "k": ("List", "Str")}),
    dict(name="tabeam_title", file="_dlpoly_writeTABEAM.py", func="_writeTitle", writer=True, inout="out",
         params=[("title", "Str"), ("out", "Stream")], ret="Stream", locals={"title": "Tok"}),
    dict(name="tabeam_except_density", file="_dlpoly_writeTABEAM.py", func="_writeTABEAM_exceptDensity", writer=True, inout="outputbuilder",
         params=[("nrho", "Int"), ("drho", "Rat"), ("nr", "Int"), ("dr", "Rat"), ("eamPotentials", ("List", ("Rec", "EamRec"))), ("pairPotentials", ("List", ("Rec", "PotRec"))),
                 ("title", "Str"), ("numpots", "Rat"), ("outputbuilder", "Stream")], ret="Stream", records=dict(EAM_REC, **POT_REC), methods=EAM_METHODS),
    dict(name="tabeam_write", dest=True, defaults={"title": ('""', "''")}, file="_dlpoly_writeTABEAM.py", func="writeTABEAM", writer=True, inout="out",
         params=[("nrho", "Int"), ("drho", "Rat"), ("nr", "Int"), ("dr", "Rat"), ("eampots", ("List", ("Rec", "EamRec"))), ("pairpots", ("List", ("Rec", "PotRec"))),
                 ("out", "Stream"), ("title", "Str")], ret="Stream", records=dict(EAM_REC, **POT_REC), methods=EAM_METHODS, locals={"numpots": "Rat"}),
    dict(name="tabeam_write_fs", dest=True, defaults={"title": ('""', "''")}, file="_dlpoly_writeTABEAM.py", func="writeTABEAMFinnisSinclair", writer=True, inout="out",
         params=[("nrho", "Int"), ("drho", "Rat"), ("nr", "Int"), ("dr", "Rat"), ("eampots", ("List", ("Rec", "EamRec"))), ("pairpots", ("List", ("Rec", "PotRec"))),
                 ("out", "Stream"), ("title", "Str")], ret=("Except", "WErr", "Stream"), records=dict(EAM_REC, **POT_REC), methods=EAM_METHODS, locals={"numpots": "Rat"},
         try_subscripts={("EamRec", "electronDensityFunction"): ("densOfOpt", "Str", ("Rec", "FnRec"))}, raises=[("Density function for", "WErr.missingDensity")]),
    # ---- the tabulation objects: their step properties and their write methods (C01-C05, C19; destination mode for C17)
    dict(name="tab_dr", file="pair_tabulation.py", func="PairTabulation_AbstractBase.dr", params=[("self", ("Rec", "TabRec"))], ret="Rat", records=TAB_REC),
    dict(name="eamtab_dr", variant=True, file="pair_tabulation.py", func="PairTabulation_AbstractBase.dr", params=[("self", ("Rec", "EamTabRec"))], ret="Rat", records=EAMTAB_REC),
    dict(name="eamtab_drho", file="eam_tabulation.py", func="_EAMTabulationAbstractbase.drho", params=[("self", ("Rec", "EamTabRec"))], ret="Rat", records=EAMTAB_REC),
    dict(name="lammps_tab_write", dest=True, file="pair_tabulation.py", func="LAMMPS_PairTabulation.write", writer=True, inout="fp",
         params=[("self", ("Rec", "TabRec")), ("fp", "Stream")], ret="Stream", records=dict(POT_REC, **TAB_REC), properties={("TabRec", "dr"): ("pair_tabulation.py", "dr")},
         imports={"lmp_writePotentials": ("_lammps_writeTABLE.py", "writePotentials")}),
    dict(name="dlpoly_tab_write", dest=True, file="pair_tabulation.py", func="DLPoly_PairTabulation.write", writer=True, inout="fp",
         params=[("self", ("Rec", "TabRec")), ("fp", "Stream")], ret=("Except", "WErr", "Stream"), records=dict(POT_REC, **TAB_REC),
         imports={"dlpoly_writePotentials": ("_dlpoly_writeTABLE.py", "writePotentials")}),
    dict(name="setfl_tab_write", dest=True, file="eam_tabulation.py", func="SetFL_EAMTabulation.write", writer=True, inout="fp",
         params=[("self", ("Rec", "EamTabRec")), ("fp", "Stream")], ret="Stream", records=EAMTAB_REC, properties=EAMTAB_PROPS,
         imports={"writeSetFL": ("_lammpsWriteEAM.py", "writeSetFL")}),
    dict(name="setfl_fs_tab_write", dest=True, file="eam_tabulation.py", func="SetFL_FS_EAMTabulation.write", writer=True, inout="fp",
         params=[("self", ("Rec", "EamTabRec")), ("fp", "Stream")], ret="Stream", records=EAMTAB_REC, properties=EAMTAB_PROPS,
         imports={"writeSetFLFinnisSinclair": ("_lammpsWriteEAM.py", "writeSetFLFinnisSinclair")}),
    dict(name="tabeam_tab_write", dest=True, file="eam_tabulation.py", func="TABEAM_EAMTabulation.write", writer=True, inout="fp",
         params=[("self", ("Rec", "EamTabRec")), ("fp", "Stream")], ret="Stream", records=EAMTAB_REC, properties=EAMTAB_PROPS,
         imports={"writeTABEAM": ("_dlpoly_writeTABEAM.py", "writeTABEAM")}),
    dict(name="tabeam_fs_tab_write", dest=True, file="eam_tabulation.py", func="TABEAM_FinnisSinclair_EAMTabulation.write", writer=True, inout="fp",
         params=[("self", ("Rec", "EamTabRec")), ("fp", "Stream")], ret=("Except", "WErr", "Stream"), records=EAMTAB_REC, properties=EAMTAB_PROPS,
         imports={"writeTABEAMFinnisSinclair": ("_dlpoly_writeTABEAM.py", "writeTABEAMFinnisSinclair")}),
    dict(name="adp_write_dipole", file="eam_tabulation.py", func="ADP_EAMTabulation._write_dipole", writer=True, inout="fp",
         params=[("self", ("Rec", "EamTabRec")), ("fp", "Stream")], ret="Stream", records=EAMTAB_REC, properties=EAMTAB_PROPS,
         imports={"_writeSetFLPairPots": ("_lammpsWriteEAM.py", "_writeSetFLPairPots")}),
    dict(name="adp_write_quadrupole", file="eam_tabulation.py", func="ADP_EAMTabulation._write_quadrupole", writer=True, inout="fp",
         params=[("self", ("Rec", "EamTabRec")), ("fp", "Stream")], ret="Stream", records=EAMTAB_REC, properties=EAMTAB_PROPS,
         imports={"_writeSetFLPairPots": ("_lammpsWriteEAM.py", "_writeSetFLPairPots")}),
    dict(name="adp_tab_write", dest=True, file="eam_tabulation.py", func="ADP_EAMTabulation.write", writer=True, inout="fp",
         params=[("self", ("Rec", "EamTabRec")), ("fp", "Stream")], ret="Stream", records=EAMTAB_REC, properties=EAMTAB_PROPS,
         imports={"writeSetFL": ("_lammpsWriteEAM.py", "writeSetFL")}),
    # ---- C03 / C04 / C05 / C12: the potable EAM builder (which species exist, in which order, what is zero-filled)
    dict(name="eam_embed_species", file=EBF, func="EAM_Potential_Builder._embed_species", params=[("embed", ("List", ("Rec", "EmbRow")))], ret=("Set", "Str"), records=EB_REC),
    dict(name="eam_density_species", file=EBF, func="EAM_Potential_Builder._density_species", params=[("density", ("List", ("Rec", "EmbRow")))], ret=("Set", "Str"), records=EB_REC),
    dict(name="eam_extract_embed", file=EBF, func="EAM_Potential_Builder._extract_embed", params=[("cp", ("Rec", "CpEam"))], ret=("List", ("Rec", "EmbRow")), records=EB_REC),
    dict(name="eam_extract_density", file=EBF, func="EAM_Potential_Builder._extract_density", params=[("cp", ("Rec", "CpEam"))], ret=("List", ("Rec", "EmbRow")), records=EB_REC),
    dict(name="eam_to_dict", file=EBF, func="EAM_Potential_Builder._to_potential_form_dict", params=[("tuple_list", ("List", ("Rec", "EmbRow"))), ("potential_form_builder", "Unit")],
         ret=("ODict", "Str", ("Rec", "FnRec")), records=EB_REC, implicit=[("mkFn", ("Fun", [("Rec", "Pfi")], ("Rec", "FnRec")))],
         seg_ops={"potential_form_builder.create_potential_function": ("mkFn", [("Rec", "Pfi")], ("Rec", "FnRec"))}, locals={"d": ("ODict", "Str", ("Rec", "FnRec"))}),
    dict(name="eam_embed_to_dict", file=EBF, func="EAM_Potential_Builder._embed_to_potential_form_dict", params=[("tuple_list", ("List", ("Rec", "EmbRow"))), ("potential_form_builder", "Unit")],
         ret=("ODict", "Str", ("Rec", "FnRec")), records=EB_REC, implicit=[("mkFn", ("Fun", [("Rec", "Pfi")], ("Rec", "FnRec")))]),
    dict(name="eam_density_to_dict", file=EBF, func="EAM_Potential_Builder._density_to_potential_form_dict", params=[("tuple_list", ("List", ("Rec", "EmbRow"))), ("potential_form_builder", "Unit")],
         ret=("ODict", "Str", ("Rec", "FnRec")), records=EB_REC, implicit=[("mkFn", ("Fun", [("Rec", "Pfi")], ("Rec", "FnRec")))]),
    dict(name="eam_add_null_embed", file=EBF, func="EAM_Potential_Builder._add_null_embedding_functions", inout="embed_dict",
         params=[("cp", ("Rec", "CpEam")), ("embed_dict", ("ODict", "Str", ("Rec", "FnRec"))), ("density_dict", ("ODict", "Str", ("Rec", "FnRec")))], ret=("ODict", "Str", ("Rec", "FnRec")),
         records=EB_REC, ops={"zero": ("zeroFn", [], ("Rec", "FnRec"))}),
    dict(name="eam_add_null_dens", file=EBF, func="EAM_Potential_Builder._add_null_density_functions", inout="density_dict", set_order="setOrder",
         params=[("cp", ("Rec", "CpEam")), ("embed_dict", ("ODict", "Str", ("Rec", "FnRec"))), ("density_dict", ("ODict", "Str", ("Rec", "FnRec")))], ret=("ODict", "Str", ("Rec", "FnRec")),
         records=EB_REC, ops={"zero": ("zeroFn", [], ("Rec", "FnRec"))}, implicit=[("setOrder", ("Fun", [("List", "Str")], ("List", "Str")))]),
    dict(name="eam_get_mass", file=EBF, func="EAM_Potential_Builder._get_mass", params=[("species", "Str")], ret=("Except", "BuildErr", "Rat"), implicit=REF_OPS, try_ops=REF_TRY,
         raises=[("Could not find atomic mass", "BuildErr.noMass")]),
    dict(name="eam_get_atomic_number", file=EBF, func="EAM_Potential_Builder._get_atomic_number", params=[("species", "Str")], ret=("Except", "BuildErr", "Int"), implicit=REF_OPS, try_ops=REF_TRY,
         raises=[("Could not find atomic number", "BuildErr.noAtomicNumber")]),
    dict(name="eam_get_lattice_constant", file=EBF, func="EAM_Potential_Builder._get_lattice_constant", params=[("species", "Str")], ret="Rat", implicit=REF_OPS, try_ops=REF_TRY),
    dict(name="eam_get_lattice_type", file=EBF, func="EAM_Potential_Builder._get_lattice_type", params=[("species", "Str")], ret="Str", implicit=REF_OPS, try_ops=REF_TRY),
    dict(name="eam_create_potential", file=EBF, func="EAM_Potential_Builder._create_eam_potential", key_error="BuildErr.keyError", implicit=REF_OPS,
         params=[("species", "Str"), ("embed_dict", ("ODict", "Str", ("Rec", "FnRec"))), ("density_dict", ("ODict", "Str", ("Rec", "FnRec")))], ret=("Except", "BuildErr", ("Rec", "EamRec")),
         records=dict(EAM_REC, **EB_REC), rec_constructors={"EAMPotential": ("EamRec", ["Str", "Int", "Rat", ("Rec", "FnRec"), ("Rec", "FnRec"), "Rat", "Str"])},
         rec_field_names={"EAMPotential": ["species", "atomicNumber", "mass", "embed", "dens", "latticeConstant", "latticeType"]}),
    dict(name="eam_init_potentials", file=EBF, func="EAM_Potential_Builder._init_eampotentials", inline=["_add_null_functions"], skip_assign_from=["Potential_Form_Builder"],
         unit_locals=["potential_form_builder"], set_order="setOrder",
         params=[("self.add_undefined", "Bool"), ("cp", ("Rec", "CpEam")), ("potential_form_registry", "Unit"), ("modifier_registry", "Unit")],
         ret=("Except", "BuildErr", ("List", ("Rec", "EamRec"))), records=dict(EAM_REC, **EB_REC),
         implicit=[("mkFn", ("Fun", [("Rec", "Pfi")], ("Rec", "FnRec"))), ("setOrder", ("Fun", [("List", "Str")], ("List", "Str")))] + REF_OPS,
         raises=[("species defined for density function do not match those for embedding functions", "BuildErr.speciesMismatch")], locals={"potlist": ("List", ("Rec", "EamRec"))}),
    # ---- C04: the Finnis-Sinclair builder: the four methods the subclass overrides, and the inherited ones once more for its types (klass: the translator checks
    #      that the subclass does not override what is taken from the base class)
    dict(name="eam_extract_embed_fs", variant=True, klass="EAM_Potential_Builder_FS", file=EBF, func="EAM_Potential_Builder._extract_embed", params=[("cp", ("Rec", "CpEamFS"))],
         ret=("List", ("Rec", "EmbRow")), records=FS_REC),
    dict(name="eam_extract_density_fs", variant=True, klass="EAM_Potential_Builder_FS", file=EBF, func="EAM_Potential_Builder_FS._extract_density", params=[("cp", ("Rec", "CpEamFS"))],
         ret=("List", ("Rec", "FsRow")), records=FS_REC),
    dict(name="eam_density_species_fs", variant=True, klass="EAM_Potential_Builder_FS", file=EBF, func="EAM_Potential_Builder_FS._density_species", params=[("density", ("List", ("Rec", "FsRow")))],
         ret=("Set", "Str"), records=FS_REC, locals={"species_list": ("List", "Str")}),
    dict(name="eam_density_to_dict_fs", variant=True, klass="EAM_Potential_Builder_FS", file=EBF, func="EAM_Potential_Builder_FS._density_to_potential_form_dict",
         params=[("density", ("List", ("Rec", "FsRow"))), ("potential_form_builder", "Unit")], ret=("Except", "BuildErr", FSD), records=FS_REC,
         implicit=[("mkFn", ("Fun", [("Rec", "Pfi")], ("Rec", "FnRec")))], seg_ops={"potential_form_builder.create_potential_function": ("mkFn", [("Rec", "Pfi")], ("Rec", "FnRec"))},
         locals={"outdict": FSD}, raises=[("Duplicate density function found", "BuildErr.duplicateDensity")]),
    dict(name="eam_add_null_embed_fs", variant=True, klass="EAM_Potential_Builder_FS", file=EBF, func="EAM_Potential_Builder._add_null_embedding_functions", inout="embed_dict",
         params=[("cp", ("Rec", "CpEamFS")), ("embed_dict", ("ODict", "Str", ("Rec", "FnRec"))), ("density_dict", FSD)], ret=("ODict", "Str", ("Rec", "FnRec")),
         records=FS_REC, ops={"zero": ("zeroFn", [], ("Rec", "FnRec"))}),
    dict(name="eam_add_null_dens_fs", variant=True, klass="EAM_Potential_Builder_FS", file=EBF, func="EAM_Potential_Builder_FS._add_null_density_functions", inout="density_dict",
         set_order="setOrder", params=[("cp", ("Rec", "CpEamFS")), ("embed_dict", ("ODict", "Str", ("Rec", "FnRec"))), ("density_dict", FSD)], ret=FSD,
         records=FS_REC, ops={"zero": ("zeroFn", [], ("Rec", "FnRec"))}, implicit=[("setOrder", ("Fun", [("List", "Str")], ("List", "Str")))]),
    dict(name="eam_create_potential_fs", variant=True, klass="EAM_Potential_Builder_FS", file=EBF, func="EAM_Potential_Builder._create_eam_potential", key_error="BuildErr.keyError",
         implicit=REF_OPS, params=[("species", "Str"), ("embed_dict", ("ODict", "Str", ("Rec", "FnRec"))), ("density_dict", FSD)], ret=("Except", "BuildErr", ("Rec", "EamRec")),
         records=dict(EAM_REC, **FS_REC), rec_constructors={"EAMPotential": ("EamRec", ["Str", "Int", "Rat", ("Rec", "FnRec"), ("ODict", "Str", ("Rec", "FnRec")), "Rat", "Str"])},
         rec_field_names={"EAMPotential": ["species", "atomicNumber", "mass", "embed", "densFS", "latticeConstant", "latticeType"]}),
    dict(name="eam_init_potentials_fs", variant=True, klass="EAM_Potential_Builder_FS", file=EBF, func="EAM_Potential_Builder._init_eampotentials", inline=["_add_null_functions"],
         skip_assign_from=["Potential_Form_Builder"], unit_locals=["potential_form_builder"], set_order="setOrder",
         params=[("self.add_undefined", "Bool"), ("cp", ("Rec", "CpEamFS")), ("potential_form_registry", "Unit"), ("modifier_registry", "Unit")],
         ret=("Except", "BuildErr", ("List", ("Rec", "EamRec"))), records=dict(EAM_REC, **FS_REC),
         implicit=[("mkFn", ("Fun", [("Rec", "Pfi")], ("Rec", "FnRec"))), ("setOrder", ("Fun", [("List", "Str")], ("List", "Str")))] + REF_OPS,
         raises=[("species defined for density function do not match those for embedding functions", "BuildErr.speciesMismatch")], locals={"potlist": ("List", ("Rec", "EamRec"))}),
    # ---- C09: the modifiers that fold a combinator over their arguments
    dict(name="modifier_reduce", file="_modifiers.py", func="_modifier_from_func_reduce", drop_logging=True, reduce_error="ModErr.noArguments",
         params=[("logger_name", "Str"), ("func", ("Fun", [("Rec", "FnObj2"), ("Rec", "FnObj2")], ("Rec", "FnObj2"))), ("potential_forms", ("List", ("Rec", "Pfi"))), ("potential_form_builder", "Unit")],
         ret=("Except", "ModErr", ("Rec", "FnObj2")), records={"FnObj2": {}, "Pfi": {}}, implicit=[("mkCallable", ("Fun", [("Rec", "Pfi")], ("Rec", "FnObj2")))],
         seg_ops={"potential_form_builder.create_potential_function": ("mkCallable", [("Rec", "Pfi")], ("Rec", "FnObj2"))}, locals={"pot_callables": ("List", ("Rec", "FnObj2"))}),
    dict(name="modifier_sum", file="_modifiers.py", func="sum", params=[("potential_forms", ("List", ("Rec", "Pfi"))), ("potential_form_builder", "Unit")],
         ret=("Except", "ModErr", ("Rec", "FnObj2")), records={"FnObj2": {}, "Pfi": {}}, globals={"plus": ("atsim.potentials", "plusOp")},
         implicit=[("mkCallable", ("Fun", [("Rec", "Pfi")], ("Rec", "FnObj2"))), ("plusOp", ("Fun", [("Rec", "FnObj2"), ("Rec", "FnObj2")], ("Rec", "FnObj2")))]),
    dict(name="modifier_product", file="_modifiers.py", func="product", params=[("potential_forms", ("List", ("Rec", "Pfi"))), ("potential_form_builder", "Unit")],
         ret=("Except", "ModErr", ("Rec", "FnObj2")), records={"FnObj2": {}, "Pfi": {}}, local_imports={("atsim.potentials", "product"): "productOp"},
         implicit=[("mkCallable", ("Fun", [("Rec", "Pfi")], ("Rec", "FnObj2"))), ("productOp", ("Fun", [("Rec", "FnObj2"), ("Rec", "FnObj2")], ("Rec", "FnObj2")))]),
    dict(name="modifier_pow", file="_modifiers.py", func="pow", params=[("potential_forms", ("List", ("Rec", "Pfi"))), ("potential_form_builder", "Unit")],
         ret=("Except", "ModErr", ("Rec", "FnObj2")), records={"FnObj2": {}, "Pfi": {}}, local_imports={("atsim.potentials", "pow"): "powOp"},
         implicit=[("mkCallable", ("Fun", [("Rec", "Pfi")], ("Rec", "FnObj2"))), ("powOp", ("Fun", [("Rec", "FnObj2"), ("Rec", "FnObj2")], ("Rec", "FnObj2")))]),
    dict(name="register_with_each_other", file="config/_potential_form_registry.py", func="Potential_Form_Registry._register_with_each_other", inout="regs",
         params=[("self._potential_forms", ("AssocL", "Str", ("Rec", "FormObj"))), ("regs", ("List", ("Prod", ("Rec", "FuncObj"), ("Rec", "FuncObj"))))],
         ret=("List", ("Prod", ("Rec", "FuncObj"), ("Rec", "FuncObj"))), records=REG_REC, effect_log={"register_function": "regs"},
         implicit=[("funcOf", ("Fun", [("Rec", "FormObj")], ("Rec", "FuncObj")))], attr_ops={("FormObj", "potential_function"): ("funcOf", ("Rec", "FuncObj"))}),
    # ---- the form builder and the pair builder: from a parsed definition to the multi-range callable, from [Pair] rows to Potential objects
    dict(name="pfb_make_tuple", file="config/_potential_form_builder.py", func="Potential_Form_Builder._make_multi_range_tuple",
         params=[("self", ("Rec", "PfbSelf")), ("pform_instance", ("Rec", "PInst"))], ret=("Except", "PfbErr", ("Rec", "MRDefn")), records=PFB_REC, implicit=PFB_OPS,
         try_subscripts={("PfbSelf", "modifier_registry"): ("lookupModifier", "Str", ("Rec", "ModFactory")), ("PfbSelf", "potential_form_registry"): ("lookupForm", "Str", ("Rec", "FormFactory"))},
         methods={("ModFactory", "__call__"): ("applyModifier", [("List", ("Rec", "PInst")), ("Rec", "PfbSelf")], ("Except", "PfbErr", ("Rec", "PForm"))),
                  ("FormFactory", "__call__"): ("applyForm", [("List", "Rat")], ("Except", "PfbErr", ("Rec", "PForm")))},
         raises=[("UnknownModifierException(", "PfbErr.unknownModifier"), ("UnknownPotentialFormException(", "PfbErr.unknownForm")],
         locals={"start": ("Opt", "Rat")}, neg_inf=("none", ("Opt", "Rat")), rec_constructors={"Multi_Range_Defn": ("MRDefn", ["Str", ("Opt", "Rat"), ("Rec", "PForm")])}),
    dict(name="pfb_create", file="config/_potential_form_builder.py", func="Potential_Form_Builder.create_potential_function", drop_logging=True,
         params=[("self", ("Rec", "PfbSelf")), ("potential_form_instance", ("Rec", "PInst"))], ret=("Except", "PfbErr", ("Rec", "PotFn")), records=PFB_REC,
         implicit=PFB_OPS + [("mkMulti", ("Fun", [("List", ("Rec", "MRDefn"))], ("Except", "PfbErr", ("Rec", "PotFn"))))],
         star_ops={"create_Multi_Range_Potential_Form": ("mkMulti", ("List", ("Rec", "MRDefn")), ("Except", "PfbErr", ("Rec", "PotFn")))}),
    dict(name="pair_create_potential", file="config/_pair_potential_builder.py", func="Pair_Potentials_From_Tuples_Builder._create_potential", drop_logging=True,
         params=[("potrow", ("Rec", "PairRow")), ("mrpfb", ("Rec", "PfbSelf"))], ret=("Except", "PfbErr", ("Rec", "PotObj")), records=PFB_REC,
         implicit=PFB_OPS + [("mkMulti", ("Fun", [("List", ("Rec", "MRDefn"))], ("Except", "PfbErr", ("Rec", "PotFn"))))],
         object_methods={("PfbSelf", "create_potential_function"): "pfb_create"}, rec_constructors={"Potential": ("PotObj", ["Str", "Str", ("Rec", "PotFn")])}),
    dict(name="pair_init_potentials", file="config/_pair_potential_builder.py", func="Pair_Potentials_From_Tuples_Builder._init_potentials",
         params=[("self.potential_tuples", ("List", ("Rec", "PairRow"))), ("self.potential_form_registry", "Nat"), ("self.modifier_registry", "Nat")],
         ret=("Except", "PairErr", ("List", ("Rec", "PotObj"))), records=PFB_REC,
         implicit=PFB_OPS + [("mkMulti", ("Fun", [("List", ("Rec", "MRDefn"))], ("Except", "PfbErr", ("Rec", "PotFn"))))],
         rec_constructors={"Potential_Form_Builder": ("PfbSelf", ["Nat", "Nat"])}, locals={"pots": ("List", ("Rec", "PotObj"))},
         exc_classes={"UnknownModifierException": "PfbErr.unknownModifier", "UnknownPotentialFormException": "PfbErr.unknownForm", "ConfigurationException": "*"},
         class_bases=[("config/_potential_form_builder.py", "UnknownModifierException", "ConfigurationException"),
                      ("config/_potential_form_builder.py", "UnknownPotentialFormException", "ConfigurationException")],
         raises=[("Unknown modifier '", "PairErr.unknownModifier"), ("Unknown potential form '", "PairErr.unknownForm"), ("Problem defining", "PairErr.problemDefining")]),
    dict(name="read_from_parser", file="config/_configuration.py", func="Configuration.read_from_parser", drop_logging=True, retype=["tabulation_target"], narrow_attr_dicts=True,
         params=[("self._tabulation_factories", ("AssocL", "Str", ("Rec", "FactoryObj"))), ("cp", ("Rec", "CpT"))], ret=("Except", "TargetErr", ("Rec", "TabulationObj")),
         records={"CpT": {"tabulation": ("tabulation", ("Rec", "TabT"))}, "TabT": {"target": ("target", ("Opt", "Str"))}, "FactoryObj": {}, "TabulationObj": {}},
         implicit=[("createTabulation", ("Fun", [("Rec", "FactoryObj"), ("Rec", "CpT")], ("Except", "TargetErr", ("Rec", "TabulationObj"))))],
         methods={("FactoryObj", "create_tabulation"): ("createTabulation", [("Rec", "CpT")], ("Except", "TargetErr", ("Rec", "TabulationObj")))},
         raises=[("unknown tabulation target specified", "TargetErr.unknownTarget")]),
    # ---- C03 / C16: Reference_Data.get: [Species] entries override the built-in element table, property by property
    dict(name="reference_get", file="referencedata/_reference_data.py", func="Reference_Data.get", dict_get=True, narrow_attr_dicts=True, retype=["species_dat"],
         none_call_error="RefErr.attributeError",
         params=[("self.extra_data", ("ODict", "Str", ("ODict", "Str", ("Rec", "RefVal")))), ("species", "Str"), ("property_name", "Str")],
         ret=("Except", "RefErr", ("Rec", "RefVal")), records={"RefVal": {}, "ElData": {}},
         globals={"reference_data": ("_data", "builtinTable")},
         implicit=[("builtinTable", ("ODict", "Str", ("Rec", "ElData"))), ("asDict", ("Fun", [("Rec", "ElData")], ("ODict", "Str", ("Rec", "RefVal"))))],
         methods={("ElData", "_asdict"): ("asDict", [], ("ODict", "Str", ("Rec", "RefVal")))},
         raises=[("Unknown_Species_Exception(", "RefErr.unknownSpecies"), ("Unknown_Property_Exception(", "RefErr.unknownProperty")]),
    # ---- C09: the trans() modifier
    dict(name="trans_modifier", file="_modifiers.py", func="trans", drop_logging=True, index_error="TransErr.indexError",
         params=[("potential_forms", ("List", ("Rec", "PInstS"))), ("potential_form_builder", "Unit")], ret=("Except", "TransErr", ("Rec", "TransObj")),
         records={"PInstS": {"has_modifier": ("isModifier", "Bool"), "has_potential_form": ("isForm", "Bool"), "modifier": ("name", "Str"), "potential_form": ("name", "Str"),
                             "parameters": ("parameters", ("List", "Rat")), "start": ("start", ("Rec", "StartRec")), "next": ("next", ("Opt", ("Rec", "PInstS")))},
                  "StartRec": {"start": ("start", "Rat"), "range_type": ("range_type", "Str")}, "FnObj2": {}, "TransObj": {}},
         implicit=[("mkFn", ("Fun", [("Rec", "PInstS")], ("Rec", "FnObj2")))],
         seg_ops={"potential_form_builder.create_potential_function": ("mkFn", [("Rec", "PInstS")], ("Rec", "FnObj2"))},
         closure_records={"transformed": ("TransObj", ["potential_func", "trans_value"], "potential_func(r+trans_value)")},
         attribute_defs={"hasattr(potential_func,'deriv')": "def deriv(r):\n    return potential_func.deriv(r+trans_value)\ntransformed.deriv=deriv",
                         "hasattr(potential_func,'deriv2')": "def deriv2(r):\n    return potential_func.deriv2(r+trans_value)\ntransformed.deriv2=deriv2"},
         raises=[("only accepts two arguments", "TransErr.notTwoArguments"), ("must be 'as.constant'", "TransErr.secondNotConstant"),
                 ("should have exactly one parameter", "TransErr.notOneParameter")]),
    # ---- C10 / C16: what the two spline factories of the modifier check before they build
    dict(name="exp_build_spline", file="_modifiers.py", func="_Exp_Spline_Factory.build_spline",
         params=[("detach_point", ("Rec", "SplPoint")), ("attach_point", ("Rec", "SplPoint")), ("spline_defn", ("Rec", "PInstS"))], ret=("Except", "SplBuildErr", ("Rec", "SplCore")),
         records={"PInstS": {"has_modifier": ("isModifier", "Bool"), "has_potential_form": ("isForm", "Bool"), "modifier": ("name", "Str"), "potential_form": ("name", "Str"),
                             "parameters": ("parameters", ("List", "Rat")), "start": ("start", ("Rec", "StartRec")), "next": ("next", ("Opt", ("Rec", "PInstS")))},
                  "StartRec": {"start": ("start", "Rat"), "range_type": ("range_type", "Str")}, "SplPoint": {"r": ("r", "Rat")}, "SplCore": {}}, implicit=[("mkExpSpline", ("Fun", [("Rec", "SplPoint"), ("Rec", "SplPoint")], ("Except", "SplBuildErr", ("Rec", "SplCore"))))],
         ops={"Exp_Spline": ("mkExpSpline", [("Rec", "SplPoint"), ("Rec", "SplPoint")], ("Except", "SplBuildErr", ("Rec", "SplCore")))},
         raises=[("does not take any parameters", "SplBuildErr.config")]),
    dict(name="buck4_build_spline", file="_modifiers.py", func="_Buck4_Spline_Factory.build_spline", index_error="SplBuildErr.config",
         params=[("detach_point", ("Rec", "SplPoint")), ("attach_point", ("Rec", "SplPoint")), ("spline_defn", ("Rec", "PInstS"))], ret=("Except", "SplBuildErr", ("Rec", "SplCore")),
         records={"PInstS": {"has_modifier": ("isModifier", "Bool"), "has_potential_form": ("isForm", "Bool"), "modifier": ("name", "Str"), "potential_form": ("name", "Str"),
                             "parameters": ("parameters", ("List", "Rat")), "start": ("start", ("Rec", "StartRec")), "next": ("next", ("Opt", ("Rec", "PInstS")))},
                  "StartRec": {"start": ("start", "Rat"), "range_type": ("range_type", "Str")}, "SplPoint": {"r": ("r", "Rat")}, "SplCore": {}}, implicit=[("mkBuck4Spline", ("Fun", [("Rec", "SplPoint"), ("Rec", "SplPoint"), "Rat"], ("Except", "SplBuildErr", ("Rec", "SplCore"))))],
         ops={"Buck4_Spline": ("mkBuck4Spline", [("Rec", "SplPoint"), ("Rec", "SplPoint"), "Rat"], ("Except", "SplBuildErr", ("Rec", "SplCore")))},
         raises=[("requires a single parameter to define r_min", "SplBuildErr.config"), ("r_min parameter does not lie between", "SplBuildErr.config")]),
    # ---- C10 / C16: the glue of the spline() modifier: which part is which, where the spline detaches and attaches, what is refused
    dict(name="spline_modifier", file="_modifiers.py", func="spline", drop_logging=True, index_error="SplErr.indexError",
         params=[("potential_forms", ("List", ("Rec", "PInstS"))), ("potential_form_builder", "Unit")], ret=("Except", "SplErr", ("Rec", "SplObj")),
         records={"PInstS": {"has_modifier": ("isModifier", "Bool"), "has_potential_form": ("isForm", "Bool"), "modifier": ("name", "Str"), "potential_form": ("name", "Str"),
                             "parameters": ("parameters", ("List", "Rat")), "start": ("start", ("Rec", "StartRec")), "next": ("next", ("Opt", ("Rec", "PInstS")))},
                  "StartRec": {"start": ("start", "Rat"), "range_type": ("range_type", "Str")}, "SplFactory": {"spline_keyword": ("spline_keyword", "Str")},
                  "SplPoint": {}, "SplCore": {}, "SplObj": {}, "FnObj2": {}},
         const_objects={"_Exp_Spline_Factory": ("expSplineFactory", ("Rec", "SplFactory")), "_Buck4_Spline_Factory": ("buck4SplineFactory", ("Rec", "SplFactory"))},
         const_attrs={"_Exp_Spline_Factory.spline_keyword": ('"exp_spline"', "Str", "_modifiers.py"), "_Buck4_Spline_Factory.spline_keyword": ('"buck4_spline"', "Str", "_modifiers.py")},
         neg_inf=("negInf", "Rat"), rec_constructors={"MultiRangeDefinitionTuple": ("StartRec", ["Str", "Rat"]), "Spline_Point": ("SplPoint", [("Rec", "FnObj2"), "Rat"])},
         implicit=[("negInf", "Rat"), ("mkFn", ("Fun", [("Rec", "PInstS")], ("Rec", "FnObj2"))),
                   ("buildSpline", ("Fun", [("Rec", "SplFactory"), ("Rec", "SplPoint"), ("Rec", "SplPoint"), ("Rec", "PInstS")], ("Except", "SplBuildErr", ("Rec", "SplCore")))),
                   ("mkSplinePotential", ("Fun", [("Rec", "SplCore")], ("Rec", "SplObj")))],
         seg_ops={"potential_form_builder.create_potential_function": ("mkFn", [("Rec", "PInstS")], ("Rec", "FnObj2"))},
         methods={("SplFactory", "build_spline"): ("buildSpline", [("Rec", "SplPoint"), ("Rec", "SplPoint"), ("Rec", "PInstS")], ("Except", "SplBuildErr", ("Rec", "SplCore")))},
         ops={"Custom_SplinePotential": ("mkSplinePotential", [("Rec", "SplCore")], ("Rec", "SplObj"))},
         exc_classes={"ArithmeticError": "SplBuildErr.arithmetic", "ValueError": "SplBuildErr.arithmetic", "ImportError": "SplBuildErr.importError"},
         exc_passthrough=[("SplBuildErr.config", "SplErr.config")],
         raises=[("only accepts a single multi range potential definition", "SplErr.notOneArgument"), ("only one specified", "SplErr.onlyOne"),
                 ("was found instead\".format(\n      \",\".join", "SplErr.middleIsModifier"), ("The modifier '{}' was found instead", "SplErr.middleIsModifier"),
                 ("'{}' was found instead", "SplErr.unknownSplineType"),
                 ("only two specified", "SplErr.onlyTwo"), ("more than three have been given", "SplErr.moreThanThree"),
                 ("Start of 1st potential should be less than start of 2nd", "SplErr.firstNotBelowSecond"),
                 ("should be less than start of 3rd", "SplErr.secondNotBelowThird"),
                 ("cannot join its potentials", "SplErr.cannotJoin"), ("an additional package is required", "SplErr.needsPackage")]),
    # ---- C13: species filter
    dict(name="check_tuple", file="config/_filtered_config_parser.py", func="FilteredConfigParser._check_tuple",
         params=[("self._self_species_list", ("List", "Str")), ("self._self_exclude_flag", "Bool"), ("check_tuple", ("List", "Str"))], ret="Bool"),
    dict(name="filter_init", file="config/_filtered_config_parser.py", func="FilteredConfigParser.__init__",
         params=[("config_parser", "Unit"), ("exclude", ("Opt", ("List", "Str"))), ("include", ("Opt", ("List", "Str")))],
         ret=("Except", "FilterErr", ("Prod", ("List", "Str"), "Bool")), raises=[("Both exclude and include", "FilterErr.bothGiven")],
         skip_calls=["ObjectProxy.__init__"], attr_results=["self._self_species_list", "self._self_exclude_flag"]),
    dict(name="filter_pair", file="config/_filtered_config_parser.py", func="FilteredConfigParser.pair",
         params=[("self._self_species_list", ("List", "Str")), ("self._self_exclude_flag", "Bool"), ("self.__wrapped__.pair", ("List", ("Rec", "PairEnt")))],
         ret=("List", ("Rec", "PairEnt")), records=ENT_REC),
    dict(name="filter_eam_embed", file="config/_filtered_config_parser.py", func="FilteredConfigParser.eam_embed",
         params=[("self._self_species_list", ("List", "Str")), ("self._self_exclude_flag", "Bool"), ("self.__wrapped__.eam_embed", ("List", ("Rec", "ElEnt")))],
         ret=("List", ("Rec", "ElEnt")), records=ENT_REC),
    dict(name="filter_eam_density", file="config/_filtered_config_parser.py", func="FilteredConfigParser.eam_density",
         params=[("self._self_species_list", ("List", "Str")), ("self._self_exclude_flag", "Bool"), ("self.__wrapped__.eam_density", ("List", ("Rec", "ElEnt")))],
         ret=("List", ("Rec", "ElEnt")), records=ENT_REC),
    dict(name="filter_eam_density_fs", file="config/_filtered_config_parser.py", func="FilteredConfigParser.eam_density_fs",
         params=[("self._self_species_list", ("List", "Str")), ("self._self_exclude_flag", "Bool"), ("self.__wrapped__.eam_density_fs", ("List", ("Rec", "PairEnt")))],
         ret=("List", ("Rec", "PairEnt")), records=ENT_REC),
    # ---- C16 / C18: [Table-Form] data
    dict(name="parse_data", file="config/_config_parser.py", func="_TableFormSection._parse_data",
         params=[("section_name", "Str"), ("section", ("List", "Str"))], ret=("Except", "TableErr", "Str"),
         ops={"_parse_x_y": ("useXandY", ["Str", ("List", "Str")], "Str"), "_parse_xy": ("useXY", ["Str", ("List", "Str")], "Str")},
         implicit=[("useXandY", ("Fun", ["Str", ("List", "Str")], "Str")), ("useXY", ("Fun", ["Str", ("List", "Str")], "Str"))],
         raises=[("Did not find both", "TableErr.onlyOneOfXY"), ("Not both", "TableErr.bothForms"), ("neither", "TableErr.noData")]),
    dict(name="parse_xy", file="config/_config_parser.py", func="_TableFormSection._parse_xy", given=["xy_string", "xy"], sig_from_locals=True,
         params=[("xy", ("List", "Rat"))], ret=("Except", "TableErr", ("Prod", ("List", "Rat"), ("List", "Rat"))),
         raises=[("is not even", "TableErr.oddCount")], locals={"x": ("List", "Rat"), "y": ("List", "Rat")}),
    dict(name="parse_x_y", file="config/_config_parser.py", func="_TableFormSection._parse_x_y", given=["x_string", "y_string", "x", "y"], sig_from_locals=True,
         params=[("x", ("List", "Rat")), ("y", ("List", "Rat"))], ret=("Except", "TableErr", ("Prod", ("List", "Rat"), ("List", "Rat"))),
         raises=[("do not match", "TableErr.lengthMismatch")]),
    # ---- C18: the legacy table reader's look-up
    dict(name="find_index", file="_tablereaders.py", func="TableReaderBase._findIndex",
         params=[("self", ("List", ("Prod", "Rat", "Rat"))), ("x", "Rat")], ret=("Opt", "Int"),
         implicit=[("bisectLeft", ("Fun", [("List", ("Prod", "Rat", "Rat")), "Rat"], "Int"))], bisect_ops={"self.xproxy": "self"}),
    dict(name="get_value", file="_tablereaders.py", func="TableReaderBase.getValue",
         params=[("self", ("List", ("Prod", "Rat", "Rat"))), ("x", "Rat")], ret="Rat",
         implicit=[("bisectLeft", ("Fun", [("List", ("Prod", "Rat", "Rat")), "Rat"], "Int"))], locals={"lowidx": ("Opt", "Int")}),
    # ---- C11: [Tabulation] grid rules
    dict(name="check_positive", file="config/_config_parser.py", func="_TabulationCutoff._check_positive",
         params=[("nr", ("Opt", "Int")), ("dr", ("Opt", "Rat")), ("cutoff", ("Opt", "Rat"))], ret=("Except", "LogicErr", "Unit"),
         raises=[("must be at least 2", "LogicErr.tooFewRows"), ("cannot be 0 (zero) or negative", "LogicErr.nonPositive")]),
    dict(name="init_cutoff", file="config/_config_parser.py", func="_TabulationCutoff._init_cutoff",
         params=[("nr", ("Opt", "Int")), ("dr", ("Opt", "Rat")), ("cutoff", ("Opt", "Rat"))],
         skip_assign_from=["_get_or_none"], sig_from_locals=True,
         implicit=[("rows", ("Fun", ["Rat", "Rat"], "Int"))], ops={"_rows_for_step": ("rows", ["Rat", "Rat"], "Int")},
         ret=("Except", "LogicErr", ("Prod", ("Opt", "Int"), ("Opt", "Rat"))),
         raises=[("cannot all be", "LogicErr.allThree"), ("cannot be specified without", "LogicErr.stepAlone")],
         locals={"nr": ("Opt", "Int"), "cutoff": ("Opt", "Rat")}),
    dict(name="rows_for_step", file="config/_config_parser.py", func="_TabulationCutoff._rows_for_step",
         params=[("cutoff", "Float"), ("dr", "Float")], ret="Int", float="Float"),
    # ---- C16 / C20: pair keys and duplicate detection
    dict(name="pair_species_func", file="config/_config_parser.py", func="ConfigParser._pair_species_func",
         params=[("k", "Str")], ret=("Except", "CfgErr", ("Prod", "Str", "Str")), implicit=[("strip", ("Fun", ["Str"], "Str"))],
         methods={("Str", "strip"): ("strip", [], "Str")}, constructors={"SpeciesTuple": ("Prod", "Str", "Str")}, unpack_error="CfgErr.unpack",
         raises=[("keys should be of the form 'SPECIES_A-SPECIES_B'\"", "CfgErr.notTwoParts"), ("a species label is missing", "CfgErr.blankSpecies")]),
    dict(name="fs_species_func", file="config/_config_parser.py", func="ConfigParser._parse_eam_fs_density_line.species_func",
         params=[("k", "Str")], ret=("Except", "CfgErr", ("Prod", "Str", "Str")), implicit=[("strip", ("Fun", ["Str"], "Str"))],
         methods={("Str", "strip"): ("strip", [], "Str")}, constructors={"EAMFSDensitySpeciesTuple": ("Prod", "Str", "Str")}, unpack_error="CfgErr.unpack",
         raises=[("invalid key '{}'\".format", "CfgErr.notTwoParts"), ("a species label is missing", "CfgErr.blankSpecies")]),
    dict(name="dup_pairs", file="config/_config_parser.py", func="ConfigParser._check_for_duplicate_pairs",
         params=[("self._config_parser", ("Rec", "CfgRec"))], ret=("Except", "CfgErr", "Unit"), implicit=[("strip", ("Fun", ["Str"], "Str"))],
         records=CFG_REC, methods=CFG_METHODS, raises=[("Multiple entries for the pair", "CfgErr.duplicatePair")],
         locals={"seen": ("Set", ("Prod", "Str", "Str"))}),
    dict(name="dup_table_forms", file="config/_config_parser.py", func="_TableFormSection.check_for_duplicate_table_forms",
         params=[("cfg_parser", ("Rec", "CfgRec"))], ret=("Except", "CfgErr", "Unit"),
         implicit=[("isRelevant", ("Fun", ["Str"], "Bool")), ("parseName", ("Fun", ["Str"], "Str"))],
         ops={"is_relevant_section": ("isRelevant", ["Str"], "Bool"), "_parse_name": ("parseName", ["Str"], "Str")},
         records=CFG_REC, methods=CFG_METHODS, raises=[("Duplicate '{}' sections found", "CfgErr.duplicateTableForm")],
         locals={"seen": ("MultiL", "Str", "Str")}),
    # ---- C14: overrides / additions / removals
    dict(name="apply_overrides", file="config/_config_parser.py", func="ConfigParser._init_config_parser", sig_from_locals=True,
         skip_assign_from=["_RawConfigParser"], skip_stmts=["try:", "# Resolve every"],
         params=[("cp", ("Rec", "IniRec")), ("overrides", ("List", ("Rec", "OvRec"))), ("additional", ("List", ("Rec", "OvRec")))],
         ret=("Except", "OvErr", ("Rec", "IniRec")), records=INI_REC, methods=INI_METHODS, mut_methods=INI_MUT,
         implicit=[("hasOption", ("Fun", [("Rec", "IniRec"), "Str", "Str"], "Bool")), ("hasSection", ("Fun", [("Rec", "IniRec"), "Str"], "Bool")),
                   ("sectionKeys", ("Fun", [("Rec", "IniRec"), "Str"], ("List", "Str"))), ("removeOption", ("Fun", [("Rec", "IniRec"), "Str", "Str"], ("Rec", "IniRec"))),
                   ("removeSection", ("Fun", [("Rec", "IniRec"), "Str"], ("Rec", "IniRec"))), ("addSection", ("Fun", [("Rec", "IniRec"), "Str"], ("Rec", "IniRec"))),
                   ("setValue", ("Fun", [("Rec", "IniRec"), ("Rec", "OvRec")], ("Except", "OvErr", ("Rec", "IniRec"))))],
         ops={"_set_value": ("setValue", [("Rec", "IniRec"), ("Rec", "OvRec")], ("Except", "OvErr", ("Rec", "IniRec")))}, inout_calls={"_set_value": 0},
         raises=[("not found in configuration file when processing overrides", "OvErr.missing"), ("already exists in configuration file whilst adding", "OvErr.exists"),
                 ("cannot be added, the section name is empty", "OvErr.missing")]),
    # ---- C15 / C14: what the repository's subclass adds to the standard library's parser: a section's options are its OWN entries
    dict(name="raw_optionxform", file="config/_config_parser.py", func="_RawConfigParser.optionxform", params=[("option", "Str")], ret="Str",
         implicit=[("strip", ("Fun", ["Str"], "Str"))], methods={("Str", "strip"): ("strip", [], "Str")}),
    dict(name="raw_own_option", file="config/_config_parser.py", func="_RawConfigParser._own_option", narrow_attr_dicts=True,
         params=[("self._sections", ("ODict", "Str", ("ODict", "Str", "Str"))), ("section", "Str"), ("option", "Str")], ret="Bool", implicit=[("strip", ("Fun", ["Str"], "Str"))]),
    dict(name="raw_has_option", file="config/_config_parser.py", func="_RawConfigParser.has_option",
         params=[("self._sections", ("ODict", "Str", ("ODict", "Str", "Str"))), ("self.default_section", "Str"), ("section", "Str"), ("option", "Str")], ret="Bool",
         implicit=[("strip", ("Fun", ["Str"], "Str")), ("superHasOption", ("Fun", ["Str", "Str"], "Bool"))],
         super_ops={"has_option": ("superHasOption", ["Str", "Str"], "Bool")}),
    dict(name="raw_options", file="config/_config_parser.py", func="_RawConfigParser.options",
         params=[("self._sections", ("ODict", "Str", ("ODict", "Str", "Str"))), ("self._defaults", ("ODict", "Str", "Str")), ("self.default_section", "Str"), ("section", "Str")],
         ret=("Except", "RawErr", ("List", "Str")), raises=[("NoSectionError(section)", "RawErr.noSection")]),
    # ---- C16 / C20: every entry of a section becomes one parsed tuple, in the section's order; a section that is present but EMPTY is not a missing section
    dict(name="parse_params_section", file="config/_config_parser.py", func="ConfigParser._parse_params_section",
         params=[("self._config_parser", ("Rec", "IniRec")), ("section_name", "Str"), ("parse_line_func", ("Fun", ["Str", "Str"], ("Except", "ParseErr", ("Rec", "ParsedLine"))))],
         ret=("Except", "ParseErr", ("List", ("Rec", "ParsedLine"))), records={"IniRec": {"default_section": ("default_section", "Str")}, "ParsedLine": {}},
         methods=QA_METHODS, implicit=QA_OPS, locals={"params": ("List", ("Rec", "ParsedLine"))},
         raises=[("Configuration file does not contain [{section_name}] section", "ParseErr.missingSection")]),
] + [
    dict(name="cp_" + nm, file="config/_config_parser.py", func="ConfigParser." + nm,
         params=[("self._config_parser", ("Rec", "IniRec")), ("self." + lf, ("Fun", ["Str", "Str"], ("Except", "ParseErr", ("Rec", "ParsedLine"))))] + extra,
         ret=("Except", "ParseErr", ("List", ("Rec", "ParsedLine"))),
         records={"IniRec": {"default_section": ("default_section", "Str")}, "ParsedLine": {}}, methods=QA_METHODS, implicit=QA_OPS)
    for nm, lf, extra in [("parse_pair_like", "_parse_pair_line", [("section_name", "Str")]), ("pair", "_parse_pair_line", []), ("eam_embed", "_parse_embed_line", []),
                          ("eam_density", "_parse_density_line", []), ("eam_density_fs", "_parse_eam_fs_density_line", [])]
] + [
    # ---- C14: --list-items: which sections are listed, through which route, in which order
    dict(name="parsed_sections", file="config/_config_parser.py", func="ConfigParser.parsed_sections", class_dicts=["_section_map"], dict_as_list=True,
         params=[("self", ("Rec", "CpObj"))], ret=("List", "Str"), records=QA_REC, methods=QA_METHODS, implicit=QA_OPS, locals={"sections": ("List", "Str")}),
    dict(name="orphan_sections", file="config/_config_parser.py", func="ConfigParser.orphan_sections", class_dicts=["_section_map"], dict_as_list=True,
         params=[("self", ("Rec", "CpObj"))], ret=("List", "Str"), records=QA_REC, methods=QA_METHODS, implicit=QA_OPS, locals={"sections": ("List", "Str")},
         seg_ops={"_TableFormSection.is_relevant_section": ("isRelevant", ["Str"], "Bool")}),
    dict(name="list_section", file=QAF, func="_list_section", str_format=True, params=[("cp", ("Rec", "CpObj")), ("section", "Str")], ret=("List", ("Prod", "Str", "Str")),
         records=QA_REC, methods=QA_METHODS, implicit=QA_OPS, locals={"outlist": ("List", ("Prod", "Str", "Str"))}, retype=["k"]),
] + [
    dict(name="list_%s" % nm, file=QAF, func="_list_%s" % nm, params=[("cp", ("Rec", "CpObj"))], ret=("List", ("Prod", "Str", "Str")), records=QA_REC, methods=QA_METHODS, implicit=QA_OPS)
    for nm in ("pair", "potential_form", "tabulation", "eam_dens", "eam_embed")
] + [
    dict(name="parse_raw", file=QAF, func="_parse_raw", params=[("cp", ("Rec", "CpObj")), ("orphan_sections", ("List", "Str"))], ret=("List", ("Prod", "Str", "Str")),
         records=QA_REC, methods=QA_METHODS, implicit=QA_OPS, locals={"outlist": ("List", ("Prod", "Str", "Str"))}),
    dict(name="list_items", file=QAF, func="_list_items", str_format=True, param_joins=True, params=[("cp", ("Rec", "CpObj"))], ret=("List", ("Prod", "Str", "Str")),
         records=QA_REC, methods=QA_METHODS, implicit=QA_OPS, locals={"items": ("List", ("Prod", "Str", "Str"))}, import_names_only=["_TableFormSection"],
         seg_ops={"_TableFormSection.is_relevant_section": ("isRelevant", ["Str"], "Bool")},
         const_attrs={"_TableFormSection._section_name_prefix": ('"Table-Form"', "Str", "config/_config_parser.py")},
         properties={("CpObj", "parsed_sections"): ("config/_config_parser.py", "parsed_sections"), ("CpObj", "orphan_sections"): ("config/_config_parser.py", "orphan_sections")}),
    dict(name="item_value", file=QAF, func="_item_value", params=[("cp", ("Rec", "CpObj")), ("key", "Str")], ret=("Except", "OvErr", "Str"),
         records=QA_REC, methods=dict(list(QA_METHODS.items()) + [(("IniRec", "has_option"), ("hasOption", ["Str", "Str"], "Bool"))]),
         implicit=QA_OPS + [("hasOption", ("Fun", [("Rec", "IniRec"), "Str", "Str"], "Bool"))], import_names_only=["ConfigOverrideException"], unpack_error="OvErr.malformedOption",
         raises=[("does not name an item", "OvErr.malformedOption"), ("not found in configuration file", "OvErr.missing")]),
    # ---- C14: the command-line layer
    dict(name="create_override_tuple", file="tools/potable/__init__.py", func="_create_override_tuple",
         params=[("key", "Str"), ("has_value", "Bool")], ret=("Except", "OvErr", ("Rec", "OvRec")), records=INI_REC, unpack_error="OvErr.malformedOption",
         rec_constructors={"ConfigParserOverrideTuple": ("OvRec", ["Str", "Str", ("Opt", "Str")])}, rec_fields={"ConfigParserOverrideTuple": ["section", "key", "value"]},
         locals={"value": ("Opt", "Str")}, defaults={"has_value": "true"}),
    dict(name="item_id", file="tools/potable/__init__.py", func="_item_id",
         params=[("over_tuple", ("Rec", "OvRec"))], ret=("Prod", "Str", "Str"), records=INI_REC,
         implicit=[("removeWs", ("Fun", ["Str"], "Str"))], methods={("Str", "remove_whitespace"): ("removeWs", [], "Str")}),
    dict(name="cli_operations", file="tools/potable/__init__.py", func="_make_config_parser", truncate_at="cp = ConfigParser(", result_vars=["overrides_list", "additional_list"],
         params=[("cfg_file", "Unit"), ("overrides", ("Opt", ("List", ("List", "Str")))), ("additional", ("Opt", ("List", ("List", "Str")))), ("remove", ("Opt", ("List", ("List", "Str")))),
                 ("species", "Unit"), ("exclude_flag", "Unit")],
         ret=("Except", "OvErr", ("Prod", ("List", ("Rec", "OvRec")), ("List", ("Rec", "OvRec")))), records=INI_REC, implicit=[("removeWs", ("Fun", ["Str"], "Str"))],
         locals={"override_dict": ("ODict", ("Prod", "Str", "Str"), ("Rec", "OvRec")), "additional_list": ("List", ("Rec", "OvRec"))}),
    # ---- C13: which species list, and in which mode, the command line hands to the filtered view
    dict(name="cli_species_choice", file="tools/potable/__init__.py", func="_do_tabulation", truncate_at="cp = _make_config_parser(", result_vars=["species_list", "exclude_flag"],
         params=[("p", "Unit"), ("args", ("Rec", "CliArgs"))], ret=("Prod", ("Opt", ("List", "Str")), "Bool"), drop_logging=True,
         records={"CliArgs": {"include_species": ("include_species", ("Opt", ("List", "Str"))), "exclude_species": ("exclude_species", ("Opt", ("List", "Str")))}},
         locals={"species_list": ("Opt", ("List", "Str"))}),
    # ---- C18: plotToFile
    dict(name="plot_to_file", file="__init__.py", func="plotToFile", writer=True, inout="fileobj",
         params=[("fileobj", "Stream"), ("lowx", "Rat"), ("highx", "Rat"), ("func", ("Rec", "FnRec")), ("steps", "Int")], ret="Stream", records=EAM_REC, methods=EAM_METHODS),
    # ---- C11 / C16: the factories' defaults and layout checks
    dict(name="pair_extract_cutoffs", file="config/_tabulation_factories.py", func="PairTabulationFactory.extract_cutoffs", drop_logging=True,
         params=[("cp", ("Rec", "CpRec"))], ret=("Rec", "RCut"), records=CP_REC, rec_constructors={"RCutoffTuple": ("RCut", ["Rat", "Int"])}),
    dict(name="eam_extract_cutoffs", file="config/_tabulation_factories.py", func="EAMTabulationFactory.extract_cutoffs", drop_logging=True,
         params=[("cp", ("Rec", "CpRec"))], ret=("Rec", "RRhoCut"), records=CP_REC, rec_constructors={"R_Rho_CutoffTuple": ("RRhoCut", ["Rat", "Int", "Rat", "Int"])},
         super_calls={"extract_cutoffs": "pair_extract_cutoffs"}),
    dict(name="dlpoly_extract_cutoffs", file="config/_tabulation_factories.py", func="DLPOLY_PairTabulationFactory.extract_cutoffs",
         params=[("cp", ("Rec", "CpRec"))], ret=("Except", "FactoryErr", ("Rec", "RCut")), records=CP_REC, super_calls={"extract_cutoffs": "pair_extract_cutoffs"},
         raises=[("needs to be divisible by 4", "FactoryErr.notMultipleOfFour"), ("needs more than 4 rows", "FactoryErr.fourRowsOrFewer")]),
    dict(name="lammps_extract_cutoffs", file="config/_tabulation_factories.py", func="LAMMPS_PairTabulationFactory.extract_cutoffs",
         params=[("cp", ("Rec", "CpRec"))], ret=("Except", "FactoryErr", ("Rec", "RCut")), records=CP_REC, super_calls={"extract_cutoffs": "pair_extract_cutoffs"},
         raises=[("needs at least two rows", "FactoryErr.fewerThanThreePoints")]),
    # ---- C11: from the [Tabulation] values to the constructor arguments of the tabulation class - create_tabulation of the factories, per class of factory
] + [
    dict(name="%s_extract_potential_objects" % k, variant=(k != "pair"), klass=cls, file=TFF, func="PairTabulationFactory.extract_potential_objects",
         params=[("cp", ("Rec", "CpRec")), ("potential_form_registry", "Unit"), ("modifier_registry", "Unit")], ret=("Except", "FactoryErr", ("List", ("Rec", "PotObj"))), records=CP_REC,
         implicit=[("pairObjects", ("Fun", ["Unit", "Unit", ("Rec", "CpRec")], ("Except", "FactoryErr", ("List", ("Rec", "PotObj")))))],
         ops={"_create_pair_objects": ("pairObjects", ["Unit", "Unit", ("Rec", "CpRec")], ("Except", "FactoryErr", ("List", ("Rec", "PotObj"))))})
    for k, cls in [("pair", "PairTabulationFactory")]
] + [
    dict(name="pair_extract_tabulation_args", klass="PairTabulationFactory", file=TFF, func="PairTabulationFactory.extract_tabulation_args", arg_lists=True,
         params=[("cp", ("Rec", "CpRec")), ("r_cutoff", ("Rec", "RCut")), ("potobjs", ("List", ("Rec", "PotObj"))), ("potential_form_registry", "Unit"), ("modifier_registry", "Unit")],
         ret=("Prod", ("List", ("Rec", "PotObj")), "Rat", "Int"), records=CP_REC),
    dict(name="eam_extract_tabulation_args", variant=True, klass="EAMTabulationFactory", file=TFF, func="EAMTabulationFactory.extract_tabulation_args", arg_lists=True,
         drop_logging=True, dead_code=True,
         params=[("cp", ("Rec", "CpRec")), ("r_cutoff", ("Rec", "RRhoCut")), ("potobjs", ("List", ("Rec", "PotObj"))), ("potential_form_registry", "Unit"), ("modifier_registry", "Unit")],
         ret=("Except", "FactoryErr", ("Prod", ("List", ("Rec", "PotObj")), ("List", ("Rec", "EamRec")), "Rat", "Int", "Rat", "Int")), records=dict(CP_REC, **{"BuilderObj": {}, "RefObj": {}}),
         implicit=[("mkRefData", ("Fun", [("Rec", "CpRec")], ("Rec", "RefObj"))),
                   ("eamBuilder", ("Fun", [("Rec", "CpRec"), "Unit", "Unit", ("Rec", "RefObj")], ("Except", "FactoryErr", ("Rec", "BuilderObj")))),
                   ("eamPotentialsOf", ("Fun", [("Rec", "BuilderObj")], ("List", ("Rec", "EamRec"))))],
         ops={"_create_reference_data": ("mkRefData", [("Rec", "CpRec")], ("Rec", "RefObj")),
              "eam_builder_class": ("eamBuilder", [("Rec", "CpRec"), "Unit", "Unit", ("Rec", "RefObj")], ("Except", "FactoryErr", ("Rec", "BuilderObj")))},
         attr_ops={("BuilderObj", "eam_potentials"): ("eamPotentialsOf", ("List", ("Rec", "EamRec")))}),
    dict(name="adp_extract_dipoles", klass="ADP_EAMTabulationFactory", file=TFF, func="ADP_EAMTabulationFactory.extract_dipoles",
         params=[("cp", ("Rec", "CpRec")), ("potential_form_registry", "Unit"), ("modifier_registry", "Unit")], ret=("Except", "FactoryErr", ("List", ("Rec", "PotObj"))), records=CP_REC,
         implicit=[("sectionObjects", ("Fun", [("Rec", "CpRec"), "Unit", "Unit", "Str"], ("Except", "FactoryErr", ("List", ("Rec", "PotObj")))))],
         ops={"_extract_pots": ("sectionObjects", [("Rec", "CpRec"), "Unit", "Unit", "Str"], ("Except", "FactoryErr", ("List", ("Rec", "PotObj"))))}),
    dict(name="adp_extract_quadrupoles", klass="ADP_EAMTabulationFactory", file=TFF, func="ADP_EAMTabulationFactory.extract_quadrupoles",
         params=[("cp", ("Rec", "CpRec")), ("potential_form_registry", "Unit"), ("modifier_registry", "Unit")], ret=("Except", "FactoryErr", ("List", ("Rec", "PotObj"))), records=CP_REC,
         implicit=[("sectionObjects", ("Fun", [("Rec", "CpRec"), "Unit", "Unit", "Str"], ("Except", "FactoryErr", ("List", ("Rec", "PotObj")))))],
         ops={"_extract_pots": ("sectionObjects", [("Rec", "CpRec"), "Unit", "Unit", "Str"], ("Except", "FactoryErr", ("List", ("Rec", "PotObj"))))}),
    dict(name="adp_extract_tabulation_args", variant=True, klass="ADP_EAMTabulationFactory", file=TFF, func="ADP_EAMTabulationFactory.extract_tabulation_args", arg_lists=True,
         params=[("cp", ("Rec", "CpRec")), ("r_cutoff", ("Rec", "RRhoCut")), ("potobjs", ("List", ("Rec", "PotObj"))), ("potential_form_registry", "Unit"), ("modifier_registry", "Unit")],
         ret=("Except", "FactoryErr", ("Prod", ("List", ("Rec", "PotObj")), ("List", ("Rec", "EamRec")), ("List", ("Rec", "PotObj")), ("List", ("Rec", "PotObj")), "Rat", "Int", "Rat", "Int")), records=dict(CP_REC, **{"BuilderObj": {}, "RefObj": {}}), super_calls={"extract_tabulation_args": "eam_extract_tabulation_args"},
         dispatch={"extract_dipoles": "adp_extract_dipoles", "extract_quadrupoles": "adp_extract_quadrupoles"},
         implicit=[("mkRefData", ("Fun", [("Rec", "CpRec")], ("Rec", "RefObj"))),
                   ("eamBuilder", ("Fun", [("Rec", "CpRec"), "Unit", "Unit", ("Rec", "RefObj")], ("Except", "FactoryErr", ("Rec", "BuilderObj")))),
                   ("eamPotentialsOf", ("Fun", [("Rec", "BuilderObj")], ("List", ("Rec", "EamRec")))),
                   ("sectionObjects", ("Fun", [("Rec", "CpRec"), "Unit", "Unit", "Str"], ("Except", "FactoryErr", ("List", ("Rec", "PotObj")))))]),
] + [
    dict(name="%s_create_tabulation" % k, variant=(k != "pair"), klass=cls, file=TFF, func="PairTabulationFactory.create_tabulation",
         skip_calls=["self._log_tabulation_details"], logging_only=["%s._log_tabulation_details" % cls],
         skip_assign_from=["Potential_Form_Registry", "Modifier_Registry"], unit_locals=["potential_form_registry", "modifier_registry"],
         params=[("cp", ("Rec", "CpRec"))], ret=("Except", "FactoryErr", ("Rec", "TabObj")), records=dict(CP_REC, **{"TabObj": {}}),
         dispatch={"extract_cutoffs": cut, "extract_potential_objects": "pair_extract_potential_objects", "extract_tabulation_args": args},
         implicit=[("pairObjects", ("Fun", ["Unit", "Unit", ("Rec", "CpRec")], ("Except", "FactoryErr", ("List", ("Rec", "PotObj")))))] + extra +
                  [("tabClass", ("Fun", [argty], ("Rec", "TabObj")))],
         star_ops={"tabulation_class": ("tabClass", argty, ("Rec", "TabObj"))})
    for k, cls, cut, args, argty, extra in [
        ("pair", "PairTabulationFactory", "pair_extract_cutoffs", "pair_extract_tabulation_args", ("Prod", ("List", ("Rec", "PotObj")), "Rat", "Int"), []),
        ("dlpoly", "DLPOLY_PairTabulationFactory", "dlpoly_extract_cutoffs", "pair_extract_tabulation_args", ("Prod", ("List", ("Rec", "PotObj")), "Rat", "Int"), []),
        ("lammps", "LAMMPS_PairTabulationFactory", "lammps_extract_cutoffs", "pair_extract_tabulation_args", ("Prod", ("List", ("Rec", "PotObj")), "Rat", "Int"), []),
        ("eam", "EAMTabulationFactory", "eam_extract_cutoffs", "eam_extract_tabulation_args",
         ("Prod", ("List", ("Rec", "PotObj")), ("List", ("Rec", "EamRec")), "Rat", "Int", "Rat", "Int"),
         [("mkRefData", ("Fun", [("Rec", "CpRec")], ("Rec", "RefObj"))),
          ("eamBuilder", ("Fun", [("Rec", "CpRec"), "Unit", "Unit", ("Rec", "RefObj")], ("Except", "FactoryErr", ("Rec", "BuilderObj")))),
          ("eamPotentialsOf", ("Fun", [("Rec", "BuilderObj")], ("List", ("Rec", "EamRec"))))]),
        ("adp", "ADP_EAMTabulationFactory", "eam_extract_cutoffs", "adp_extract_tabulation_args", ("Prod", ("List", ("Rec", "PotObj")), ("List", ("Rec", "EamRec")), ("List", ("Rec", "PotObj")), ("List", ("Rec", "PotObj")), "Rat", "Int", "Rat", "Int"),
         [("mkRefData", ("Fun", [("Rec", "CpRec")], ("Rec", "RefObj"))),
          ("eamBuilder", ("Fun", [("Rec", "CpRec"), "Unit", "Unit", ("Rec", "RefObj")], ("Except", "FactoryErr", ("Rec", "BuilderObj")))),
          ("eamPotentialsOf", ("Fun", [("Rec", "BuilderObj")], ("List", ("Rec", "EamRec")))),
          ("sectionObjects", ("Fun", [("Rec", "CpRec"), "Unit", "Unit", "Str"], ("Except", "FactoryErr", ("List", ("Rec", "PotObj")))))])]
] + [
    # ---- C20: the registry's label checks
    dict(name="build_potential_forms", file="config/_potential_form_registry.py", func="Potential_Form_Registry._build_potential_forms",
         params=[("definitions", ("List", ("Rec", "DefRec")))], ret=("Except", "RegErr", ("AssocL", "Str", ("Rec", "FormObj"))), records=REG_REC,
         implicit=[("mkFunc", ("Fun", [("Rec", "DefRec")], ("Rec", "FuncObj"))), ("mkForm", ("Fun", [("Rec", "FuncObj")], ("Rec", "FormObj")))],
         ops={"_Cexptrk_Potential_Function": ("mkFunc", [("Rec", "DefRec")], ("Rec", "FuncObj")), "Potential_Form": ("mkForm", [("Rec", "FuncObj")], ("Rec", "FormObj"))},
         raises=[("Two potential forms have the same label", "RegErr.sameCustomLabel")], locals={"potential_forms": ("AssocL", "Str", ("Rec", "FormObj"))}),
    dict(name="build_table_forms", file="config/_potential_form_registry.py", func="Potential_Form_Registry._build_table_forms",
         params=[("self._potential_forms", ("AssocL", "Str", ("Rec", "FormObj"))), ("definitions", ("List", ("Rec", "TDefRec")))],
         ret=("Except", "RegErr", ("AssocL", "Str", ("Rec", "FormObj"))), records=REG_REC, skip_assign_from=["Table_Form_Builder"],
         implicit=[("mkTable", ("Fun", [("Rec", "TDefRec")], ("Rec", "FormObj")))], seg_ops={"builder.create_potential_form": ("mkTable", [("Rec", "TDefRec")], ("Rec", "FormObj"))},
         raises=[("has the same label as another potential form", "RegErr.tableLabelTaken")], locals={"table_forms": ("AssocL", "Str", ("Rec", "FormObj"))}),
    dict(name="check_labels_case", file="config/_potential_form_registry.py", func="Potential_Form_Registry._check_labels_differ_by_more_than_case",
         params=[("self._potential_forms", ("Set", "Str"))], ret=("Except", "RegErr", "Unit"),
         implicit=[("lower", ("Fun", ["Str"], "Str"))], methods={("Str", "lower"): ("lower", [], "Str")},
         raises=[("labels are not case-sensitive", "RegErr.caseOnlyDifference")], locals={"seen": ("AssocL", "Str", "Str")}),
    # ---- C16: parameter names of a [Potential-Form] signature
    dict(name="signature_names_check", file="config/_cexprtk_potential_function.py", func="_Cexptrk_Potential_Function._init_symbol_table",
         truncate_at="for pn in parameter_names:\n      try:", result_vars=[], skip_assign_from=["Symbol_Table"], sig_from_locals=True,
         given=["parameter_names", "label"], params=[("parameter_names", ("List", "Str")), ("label", "Str")], ret=("Except", "SigErr", "Unit"),
         implicit=[("lower", ("Fun", ["Str"], "Str"))], methods={("Str", "lower"): ("lower", [], "Str")},
         raises=[("Name clash in signature", "SigErr.sameVariable")], locals={"seen": ("AssocL", "Str", "Str")}),
    # ---- C16: target synonyms
    dict(name="init_target", file="config/_config_parser.py", func="_TabulationSection._init_target",
         params=[("target", ("Opt", "Str"))], class_dicts=["_target_synonyms"], skip_assign_from=["_get_or_none"], sig_from_locals=True,
         ret=("Opt", "Str"), returns_attr="self._target"),
]

TABLES = [
    ("tabulation_factories", "config/_tabulation_factories.py", "TABULATION_FACTORIES"),
]

PRELUDE = """import AtsimModel.Model.Basic
import AtsimModel.Model.Ini
/-! GENERATED by translator/py2lean_logic.py from /repo's current source - do not edit.
    Decision logic of the library as ordinary Lean definitions, one per Python function (see the translator's docstring for the
    fragment and for how None / truthiness / short-circuit evaluation / loops with early return / raise are made explicit). -/
set_option linter.unusedVariables false
namespace Atsim.Gen.Logic

/-- a range definition as `_range_search` sees it: `start` (here an integer rank, the search only compares), the marker text and the identity of the potential form -/
structure PRange where
  range_type : String
  start : Int
  f : Nat
deriving DecidableEq, Repr

/-- a Python callable as the derivative plumbing sees it: its identity and whether it offers `.deriv` / `.deriv2` -/
structure Callable where
  fid : Nat
  has_deriv : Bool
  has_deriv2 : Bool
deriving DecidableEq, Repr

/-! ### what the table writers emit

A writer's output is a list of tokens: ONE token per `print` / `write` call, holding the format text as written in the source (named `%(x)` / `{x}` fields
made positional) and the arguments in the order the format uses them.  Potentials are opaque: `pot.energy(r)` is the value `energy of function fid at r`. -/

inductive OV where
  | int (i : Int) | num (q : Rat) | str (s : String)
  | fn (what : String) (fid : Nat) (x : Rat)       -- `pot.energy(r)`, `pot.force(r)`, `_calculateForce(pot, r)`
  | repr (v : OV)                                  -- `_representable(v)`
  | scaled (r : Rat) (v : OV)                      -- `val *= r`
deriving DecidableEq, Repr

structure Tok where
  fmt : String
  args : List OV
deriving DecidableEq, Repr

structure PotRec where
  a : String
  b : String
  fid : Nat
deriving DecidableEq, Repr, Inhabited

/-- a pair tabulation object as its writers read it -/
structure TabRec where
  nr : Int
  cutoff : Rat
  potentials : List PotRec
deriving Repr

def energyOf (p : PotRec) (r : Rat) : OV := .fn "energy" p.fid r
def forceOf (p : PotRec) (r : Rat) : OV := .fn "force" p.fid r
def rForceOf (p : PotRec) (r : Rat) : OV := .fn "r*force" p.fid r
def representable (v : OV) : OV := .repr v

/-- `range(a, b)` -/
def intRange (a b : Int) : List Int := (List.range (b - a).toNat).map fun (k : Nat) => a + (k : Int)

/-- a callable handed to an EAM writer (embedding, density, pair function): its identity -/
structure FnRec where
  fid : Nat
deriving DecidableEq, Repr, Inhabited

/-- an `EAMPotential` as the writers read it; for Finnis-Sinclair models `electronDensityFunction` is a dictionary, read through `densOf` -/
structure EamRec where
  species : String
  atomicNumber : Int
  mass : Rat
  latticeConstant : Rat
  latticeType : String
  embed : FnRec
  dens : FnRec := ⟨0⟩
  densFS : List (String × FnRec) := []
deriving Repr, Inhabited

/-- an entry of `[Pair]` / `[EAM-Density]` (Finnis-Sinclair) as the species filter sees it: the tuple of species it mentions, and which entry it is -/
structure PairEnt where
  species : List String
  id : Nat
deriving Repr, DecidableEq
/-- an entry of `[EAM-Embed]` / `[EAM-Density]`: one species -/
structure ElEnt where
  species : String
  id : Nat
deriving Repr, DecidableEq

/-- the `[Tabulation]` section as the factories read it (`cp.tabulation.cutoff` …: what `_TabulationCutoff` left, `None` when the model does not fix it) -/
structure TabSec where
  cutoff : Option Rat
  nr : Option Int
  cutoff_rho : Option Rat
  nrho : Option Int
deriving Repr, DecidableEq
structure CpRec where
  tabulation : TabSec
deriving Repr, DecidableEq
structure RCut where
  cutoff : Rat
  nr : Int
deriving Repr, DecidableEq
structure RRhoCut where
  cutoff : Rat
  nr : Int
  cutoff_rho : Rat
  nrho : Int
deriving Repr, DecidableEq

/-- an EAM tabulation object (`SetFL_EAMTabulation`, `TABEAM_EAMTabulation`, `ADP_EAMTabulation`, …) as its `write` method reads it -/
structure EamTabRec where
  nr : Int
  cutoff : Rat
  nrho : Int
  cutoff_rho : Rat
  eam_potentials : List EamRec
  potentials : List PotRec
  dipole_potentials : List PotRec
  quadrupole_potentials : List PotRec
deriving Repr, Inhabited

/-- `pot.electronDensityFunction[species]` inside `try: … except KeyError`: the look-up as it is, absent keys included -/
def densOfOpt (p : EamRec) (sp : String) : Option FnRec := (p.densFS.reverse.find? fun e => e.1 == sp).map (·.2)
def evalFnOV (f : FnRec) (x : Rat) : OV := .fn "value" f.fid x
def embedOf (p : EamRec) (x : Rat) : OV := .fn "value" p.embed.fid x
/-- `pot.electronDensityFunction[species]` (a missing key is a `KeyError` in Python; the builder zero-fills, so the writers never meet one: the look-up is total here with an inert default) -/
def densOf (p : EamRec) (sp : String) : FnRec := ((p.densFS.reverse.find? fun e => e.1 == sp).map (·.2)).getD ⟨0⟩
/-- `pp.energy(r)` where `pp` is a declared pair potential or the local zero object -/
def energyOfOpt (pp : Option PotRec) (r : Rat) : OV := match pp with | some p => .fn "energy" p.fid r | none => .num 0

/-- `xs[i]` for an index that a surrounding `range(len(xs))` keeps in bounds -/
def listGet {α : Type} [Inhabited α] (l : List α) (i : Int) : α := l.getD i.toNat default

/-- `d.get(k, absent)` on a dictionary built by `d[key] = v` assignments: the most recent binding of the key -/
def lookupLast {κ β : Type} [BEq κ] (d : List (κ × β)) (k : κ) : Option β := (d.reverse.find? fun e => e.1 == k).map (·.2)

/-- `sep.join(pieces)` of formatted pieces -/
def joinToks (sep : String) (ps : List Tok) : Tok := ⟨sep.intercalate (ps.map (·.fmt)), ps.flatMap (·.args)⟩
def tokSuffix (t : Tok) (suffix : String) : Tok := ⟨t.fmt ++ suffix, t.args⟩

def sepTok : Tok := ⟨"<os.linesep>", []⟩

/-- `os.linesep.join(blocks)` -/
def joinStreams : List (List Tok) → List Tok
  | [] => []
  | [x] => x
  | x :: y :: rest => x ++ [sepTok] ++ joinStreams (y :: rest)

inductive FilterErr where
  | bothGiven
deriving DecidableEq, Repr

inductive TableErr where
  | onlyOneOfXY | bothForms | noData | oddCount | lengthMismatch
deriving DecidableEq, Repr

inductive WErr where
  | notMultipleOfFour | missingDensity
deriving DecidableEq, Repr

/-- the configuration errors raised by the translated functions, identified by their message -/
inductive LogicErr where
  | allThree | stepAlone | nonPositive | tooFewRows
deriving DecidableEq, Repr

/-- the raw parser's content as `_init_config_parser` handles it: opaque here (every access is an operation handed to the translated function), except for the
    name of its default section -/
structure IniRec where
  state : Atsim.Ini
  default_section : String
deriving Repr

/-- a `ConfigParserOverrideTuple`; `value = None` asks for removal -/
structure OvRec where
  sect : String
  key : String
  value : Option String
deriving Repr, DecidableEq

inductive OvErr where
  | missing | exists | badValue | malformedOption
deriving DecidableEq, Repr

/-- configparser.NoSectionError out of `_RawConfigParser.options` -/
inductive RawErr where
  | noSection
deriving DecidableEq, Repr

/-- the two species options of the potable command line as argparse leaves them (`None` when the option was not given; `[]` when given without a label) -/
structure CliArgs where
  include_species : Option (List String)
  exclude_species : Option (List String)
deriving Repr, DecidableEq

/-- configuration errors of the key / duplicate checks, identified by their message (`unpack`: Python's own ValueError of `a, b = xs`) -/
inductive CfgErr where
  | notTwoParts | blankSpecies | unpack | duplicatePair | duplicateTableForm
deriving DecidableEq, Repr

/-- a parsed configuration as the duplicate checks see it: section names in file order, each with its keys in file order -/
structure CfgRec where
  sections : List (String × List String)
deriving DecidableEq, Repr

def cfgHas (c : CfgRec) (s : String) : Bool := c.sections.any fun e => e.1 == s
/-- iterating `cfg[section]`: the keys of that section -/
def cfgKeys (c : CfgRec) (s : String) : List String := ((c.sections.find? fun e => e.1 == s).map (·.2)).getD []
def cfgSections (c : CfgRec) : List String := c.sections.map (·.1)

/-- `d[k] = v` on an ordered dictionary whose values are listed afterwards: a present key keeps its position -/
def odictSet {κ β : Type} [BEq κ] (d : List (κ × β)) (k : κ) (v : β) : List (κ × β) :=
  if d.any (fun e => e.1 == k) then d.map (fun e => if e.1 == k then (k, v) else e) else d ++ [(k, v)]

/-- `s.split(c, 1)`: the text before the first occurrence of the separator and the text after it, or the text alone -/
def splitFirstChars (c : Char) : List Char → List (List Char)
  | [] => [[]]
  | x :: rest => if x == c then [[], rest] else
      match splitFirstChars c rest with
      | [] => [[x]]
      | p :: ps => (x :: p) :: ps
def pySplitFirst (s : String) (c : Char) : List String := (splitFirstChars c s.toList).map String.ofList
/-- `s.rsplit(c, 1)`: the same from the right -/
def pyRSplitLast (s : String) (c : Char) : List String := ((splitFirstChars c s.toList.reverse).map fun p => String.ofList p.reverse).reverse

/-- `s.add(x)` -/
def setAdd {α : Type} [BEq α] (s : List α) (x : α) : List α := if s.contains x then s else s ++ [x]

/-- `d.setdefault(k, []).append(v)`: dictionaries keep the order in which keys were first inserted -/
def multiAppend {κ β : Type} [BEq κ] (d : List (κ × List β)) (k : κ) (v : β) : List (κ × List β) :=
  if d.any (fun e => e.1 == k) then d.map (fun e => if e.1 == k then (e.1, e.2 ++ [v]) else e) else d ++ [(k, [v])]

/-- `s.split(c)` for a one-character separator: the pieces between occurrences (always at least one piece) -/
def splitChars (c : Char) : List Char → List (List Char)
  | [] => [[]]
  | x :: rest => if x == c then [] :: splitChars c rest else
      match splitChars c rest with
      | [] => [[x]]
      | p :: ps => (x :: p) :: ps
def pySplit1 (s : String) (c : Char) : List String := (splitChars c s.toList).map String.ofList

/-- `s.split(ab)` for a separator of two different characters: the pieces between its occurrences, scanned from the left -/
def splitChars2 (a b : Char) : List Char → List (List Char)
  | [] => [[]]
  | [x] => [[x]]
  | x :: y :: rest =>
    if x == a && y == b then [] :: splitChars2 a b rest
    else match splitChars2 a b (y :: rest) with
      | [] => [[x]]
      | p :: ps => (x :: p) :: ps
def pySplit2 (s : String) (a b : Char) : List String := (splitChars2 a b s.toList).map String.ofList

/-- a `[Potential-Form]` definition / a `[Table-Form:NAME]` definition as the registry reads them; the function and form objects it builds are opaque -/
structure SigRec where
  label : String
deriving Repr, DecidableEq
structure DefRec where
  signature : SigRec
  id : Nat
deriving Repr, DecidableEq
structure TDefRec where
  name : String
  id : Nat
deriving Repr, DecidableEq
structure FuncObj where
  id : Nat
deriving Repr, DecidableEq
structure FormObj where
  id : Nat
deriving Repr, DecidableEq
inductive RegErr where
  | sameCustomLabel | tableLabelTaken | caseOnlyDifference
deriving DecidableEq, Repr

/-- an `[EAM-Embed]` / `[EAM-Density]` row as the EAM builder reads it; the potential-form instance it carries is opaque (handed to the form builder) -/
structure Pfi where
  id : Nat
deriving Repr, DecidableEq
structure EmbRow where
  species : String
  pfi : Pfi
deriving Repr, DecidableEq
structure CpEam where
  eam_embed : List EmbRow
  eam_density : List EmbRow
deriving Repr, DecidableEq
/-- an `[EAM-Density]` row of a Finnis-Sinclair model: `A->B : definition` -/
structure FsSpecies where
  from_species : String
  to_species : String
deriving Repr, DecidableEq
structure FsRow where
  species : FsSpecies
  pfi : Pfi
deriving Repr, DecidableEq
structure CpEamFS where
  eam_embed : List EmbRow
  eam_density_fs : List FsRow
deriving Repr, DecidableEq
inductive BuildErr where
  | speciesMismatch | noMass | noAtomicNumber | keyError | duplicateDensity
deriving DecidableEq, Repr
/-- `zero()` -/
def zeroFn : FnRec := ⟨0⟩

/-- `set(xs)`: the distinct members, in order of first occurrence (only membership, set operations and `sorted` look at it; iteration goes through an explicit order) -/
def listToSet {α : Type} [BEq α] : List α → List α
  | [] => []
  | x :: rest => x :: (listToSet rest).filter (fun y => !(y == x))
def setDiff {α : Type} [BEq α] (a b : List α) : List α := a.filter fun x => !b.contains x
def setUnion {α : Type} [BEq α] (a b : List α) : List α := a ++ setDiff b a
def setSymDiff {α : Type} [BEq α] (a b : List α) : List α := setDiff a b ++ setDiff b a
/-- `d.setdefault(k, v)` -/
def odictSetDefault {κ β : Type} [BEq κ] (d : List (κ × β)) (k : κ) (v : β) : List (κ × β) :=
  if d.any (fun e => e.1 == k) then d else d ++ [(k, v)]

/-- `>= 1.5` in front of a form instance -/
structure StartRec where
  range_type : String
  start : Rat
deriving Repr, DecidableEq
/-- a parsed definition as the form builder receives it: a PotentialFormInstanceTuple (`isModifier = false`: label `name`, `parameters`) or a PotentialModifierTuple
(`isModifier = true`: modifier `name`, argument definitions `potential_forms`), its optional range start and the definition of the next range -/
structure PInst where
  isModifier : Bool
  name : String
  parameters : List Rat
  potential_forms : List PInst
  start : Option StartRec
  next : Option PInst
deriving Repr
/-- opaque: a parametrised potential form / what a modifier returns -/
structure PForm where
  id : Nat
deriving Repr, DecidableEq
structure ModFactory where
  id : Nat
deriving Repr, DecidableEq
structure FormFactory where
  id : Nat
deriving Repr, DecidableEq
/-- `Multi_Range_Defn(range_type, start, potential_form)`; `start = none` is -infinity -/
structure MRDefn where
  range_type : String
  start : Option Rat
  pform : PForm
deriving Repr, DecidableEq
/-- the Potential_Form_Builder object: its two registries (opaque) -/
structure PfbSelf where
  forms : Nat
  modifiers : Nat
deriving Repr, DecidableEq
/-- errors of the form builder: all are ConfigurationExceptions; the two look-up failures have classes of their own -/
inductive PfbErr where
  | unknownModifier | unknownForm | config
deriving DecidableEq, Repr
structure PotFn where
  id : Nat
deriving Repr, DecidableEq
structure SpeciesRec where
  species_a : String
  species_b : String
deriving Repr, DecidableEq
structure PairRow where
  species : SpeciesRec
  potential_form_instance : PInst
deriving Repr
structure PotObj where
  a : String
  b : String
  fn : PotFn
deriving Repr, DecidableEq
inductive PairErr where
  | unknownModifier | unknownForm | problemDefining
deriving DecidableEq, Repr

/-- a potential callable as the modifiers handle it: opaque -/
structure FnObj2 where
  id : Nat
deriving Repr, DecidableEq
inductive ModErr where
  | noArguments
deriving DecidableEq, Repr

/-- what `trans()` returns: the callable of its first argument evaluated at `r + x` (value, and `deriv` / `deriv2` when that callable offers them) -/
structure TransObj where
  fn : FnObj2
  x : Rat
deriving Repr, DecidableEq
inductive TransErr where
  | notTwoArguments | secondNotConstant | notOneParameter | indexError
deriving DecidableEq, Repr

/-- a definition as the `spline()` modifier receives it: every part read from a file carries its range start (`>0` when none is written) -/
structure PInstS where
  isModifier : Bool
  name : String
  parameters : List Rat
  start : StartRec
  next : Option PInstS
deriving Repr
instance : Inhabited PInstS := ⟨⟨false, "", [], ⟨"", 0⟩, none⟩⟩
def PInstS.isForm (p : PInstS) : Bool := !p.isModifier
/-- `_Exp_Spline_Factory()` / `_Buck4_Spline_Factory()`: objects without state, told apart by their `spline_keyword` -/
structure SplFactory where
  spline_keyword : String
deriving Repr, DecidableEq
def expSplineFactory : SplFactory := ⟨"exp_spline"⟩
def buck4SplineFactory : SplFactory := ⟨"buck4_spline"⟩
/-- `Spline_Point(potential, r)` -/
structure SplPoint where
  fn : FnObj2
  r : Rat
deriving Repr, DecidableEq
structure SplCore where
  id : Nat
deriving Repr, DecidableEq
structure SplObj where
  core : SplCore
deriving Repr, DecidableEq
/-- what `build_spline` may raise -/
inductive SplBuildErr where
  | config | arithmetic | importError
deriving DecidableEq, Repr
inductive SplErr where
  | notOneArgument | onlyOne | middleIsModifier | unknownSplineType | onlyTwo | moreThanThree | firstNotBelowSecond | secondNotBelowThird
  | cannotJoin | needsPackage | config | indexError
deriving DecidableEq, Repr

/-- `itertools.permutations(xs, 2)`: the ordered pairs of items at two different positions, first position outermost, both in the list's order -/
def orderedPairs {α : Type} (xs : List α) : List (α × α) :=
  (List.range xs.length).flatMap fun i => (List.range xs.length).filterMap fun j =>
    if i = j then none else match xs[i]?, xs[j]? with
      | some a, some b => some (a, b)
      | _, _ => none

/-- `d.update(other)` -/
def odictUpdate {κ β : Type} [BEq κ] (d other : List (κ × β)) : List (κ × β) := other.foldl (fun acc e => odictSet acc e.1 e.2) d

/-- a property value of the reference data (number or text): opaque -/
structure RefVal where
  id : Nat
deriving Repr, DecidableEq
/-- an `Element_Data` record of the built-in table: opaque, read through `_asdict()` -/
structure ElData where
  id : Nat
deriving Repr, DecidableEq
inductive RefErr where
  | unknownSpecies | unknownProperty | attributeError
deriving DecidableEq, Repr

/-- `s.replace(c, "")` -/
def removeChar (s : String) (c : Char) : String := String.ofList (s.toList.filter fun x => x != c)

/-- `sub in s` for texts (non-empty `sub`) -/
def charsContain (sub : List Char) : List Char → Bool
  | [] => sub.isEmpty
  | c :: t => sub.isPrefixOf (c :: t) || charsContain sub t
def strContains (s sub : String) : Bool := charsContain sub.toList s.toList

/-- one parsed entry of a section (`PairPotentialTuple`, `EAMEmbedTuple`, ...): opaque -/
structure ParsedLine where
  id : Nat
deriving Repr, DecidableEq
inductive ParseErr where
  | missingSection | badLine
deriving DecidableEq, Repr

/-- a `ConfigParser` object as the query actions see it: its raw parser -/
structure CpObj where
  raw : IniRec
deriving Repr

/-- what `Configuration.read_from_parser` reads of the parser: `cp.tabulation.target` -/
structure TabT where
  target : Option String
deriving Repr, DecidableEq
structure CpT where
  tabulation : TabT
deriving Repr, DecidableEq
structure FactoryObj where
  id : Nat
deriving Repr, DecidableEq
structure TabulationObj where
  id : Nat
deriving Repr, DecidableEq
inductive TargetErr where
  | unknownTarget | factory
deriving DecidableEq, Repr

inductive SigErr where
  | sameVariable
deriving DecidableEq, Repr

/-- the layout complaints of the tabulation factories -/
inductive FactoryErr where
  | notMultipleOfFour | fourRowsOrFewer | fewerThanThreePoints
  | other     -- a configuration error raised by a builder the factory calls (opaque here)
deriving DecidableEq, Repr
/-- what a tabulation class constructor returns: opaque (a list of numbers, so that a driver can let it record its arguments) -/
structure TabObj where
  args : List Rat
deriving Repr, DecidableEq
structure RefObj where
  id : Nat
deriving Repr, DecidableEq
structure BuilderObj where
  id : Nat
deriving Repr, DecidableEq

/-- stable insertion: `x` goes after every element `y` with `le y x` -/
def insertBy {α : Type} (le : α → α → Bool) (x : α) : List α → List α
  | [] => [x]
  | y :: ys => if le y x then y :: insertBy le x ys else x :: y :: ys

/-- `xs.sort(key = functools.cmp_to_key(cmp))` with `le a b := cmp(a, b) <= 0`: Python's sort is stable -/
def stableSortBy {α : Type} (le : α → α → Bool) (l : List α) : List α := l.foldl (fun acc x => insertBy le x acc) []

/-- a call that may raise, followed by the rest of the function: the exception propagates -/
def andThen {ε α β : Type} (x : Except ε α) (k : α → Except ε β) : Except ε β :=
  match x with
  | .error e => .error e
  | .ok a => k a

"""


def find_function(tree, path, nth=0):
    """nth: which of several definitions of the LAST name (a property's getter and setter share it)"""
    node = tree
    parts = path.split(".")
    for pi, part in enumerate(parts):
        nxt = None
        seen = 0
        for n in ast.iter_child_nodes(node):
            if isinstance(n, (ast.FunctionDef, ast.ClassDef)) and n.name == part:
                if pi == len(parts) - 1 and seen < nth:
                    seen += 1
                    continue
                nxt = n
                break
        if nxt is None:
            raise Untranslatable("no %s" % path)
        node = nxt
    return node


class _Prep(object):
    """per-proc source adaptations declared in the spec, applied to a copy of the function's AST (they are about how the function
    is CALLED, not about what it does): `self.X` reads become parameters, assignments from the named helper calls are dropped (their
    targets are the parameters), a final `self.A = v` (returns_attr) is the function's result, class-level dictionaries are in scope."""


def mro_owner(tree, cls, method):
    """the class whose definition of `method` an object of `cls` runs (single inheritance within the file)"""
    while True:
        cd = next((n for n in tree.body if isinstance(n, ast.ClassDef) and n.name == cls), None)
        if cd is None:
            raise Untranslatable("class %s not found" % cls)
        if any(isinstance(m, ast.FunctionDef) and m.name == method for m in cd.body):
            return cls
        if len(cd.bases) != 1:
            raise Untranslatable("%s does not define %s and has no single base" % (cls, method))
        cls = ast.unparse(cd.bases[0])


PURE_CALLS = {"sorted", "isinstance", "len", "str", "list", "tuple", "set"}
PURE_METHODS = {"keys", "values", "items", "format", "getChild", "getLogger"}


def _is_logging_stmt(x):
    return isinstance(x, ast.Expr) and isinstance(x.value, ast.Call) and isinstance(x.value.func, ast.Attribute) and isinstance(x.value.func.value, ast.Name) \
        and x.value.func.value.id == "logger" and x.value.func.attr in ("info", "warning", "debug", "error")


def _pure_expr(e):
    """no call other than the listed side-effect-free builtins / methods (attribute reads and subscripts of records and dictionaries are taken to be plain reads)"""
    for n in ast.walk(e):
        if isinstance(n, ast.Call):
            f = n.func
            if isinstance(f, ast.Name) and f.id in PURE_CALLS:
                continue
            if isinstance(f, ast.Attribute) and f.attr in PURE_METHODS:
                continue
            return False
        if isinstance(n, (ast.Yield, ast.YieldFrom, ast.Await, ast.NamedExpr, ast.Lambda)):
            return False
    return True


def _loads(e):
    return set(n.id for n in ast.walk(e) if isinstance(n, ast.Name) and isinstance(n.ctx, ast.Load))


def dead_code(stmts, live):
    """statements that only feed log messages removed (backwards liveness): -> (kept statements, names live before them).  A statement is removed when it is a logging
    call, or an assignment of a side-effect-free expression to names nothing later reads, or an `if` / `for` whose bodies reduce to nothing and whose test / iterable is
    side-effect-free.  Everything else is kept as it is."""
    out = []
    for st in reversed(stmts):
        if _is_logging_stmt(st) or isinstance(st, ast.Pass) or (isinstance(st, ast.Expr) and isinstance(st.value, ast.Constant)):
            continue
        if isinstance(st, ast.Assign) and all(isinstance(t, ast.Name) for t in st.targets) and _pure_expr(st.value):
            tg = set(t.id for t in st.targets)
            if not (tg & live):
                continue
            live = (live - tg) | _loads(st.value)
            out.append(st)
            continue
        if isinstance(st, ast.If):
            b, lb = dead_code(st.body, set(live))
            o, lo = dead_code(st.orelse, set(live))
            if not b and not o and _pure_expr(st.test):
                continue
            import copy as _c
            st2 = _c.copy(st)
            st2.body, st2.orelse = (b or [ast.copy_location(ast.Pass(), st)]), o
            live = lb | lo | _loads(st.test)
            out.append(st2)
            continue
        if isinstance(st, ast.For) and not st.orelse and _pure_expr(st.iter):
            lv = set(live)
            for _ in range(10):
                b, lb = dead_code(st.body, set(lv))
                if lb <= lv:
                    break
                lv |= lb
            if not b:
                continue
            import copy as _c
            st2 = _c.copy(st)
            st2.body = b
            tg = set(n.id for n in ast.walk(st.target) if isinstance(n, ast.Name))
            live = (lv - tg) | _loads(st.iter) | live
            out.append(st2)
            continue
        # anything else is kept; every name it mentions is live
        live = live | set(n.id for n in ast.walk(st) if isinstance(n, ast.Name))
        out.append(st)
    out.reverse()
    return out, live


def logging_only(tree, cls, method, seen=None):
    """the method of the class (or of a base class in the same file) does nothing but log: after dead_code its body is empty apart from calls of self methods that are
    logging-only themselves"""
    seen = seen or set()
    if (cls, method) in seen:
        return True
    seen.add((cls, method))
    cd = next((n for n in tree.body if isinstance(n, ast.ClassDef) and n.name == cls), None)
    if cd is None:
        return False
    fn = next((n for n in cd.body if isinstance(n, ast.FunctionDef) and n.name == method), None)
    if fn is None:
        return any(logging_only(tree, ast.unparse(b), method, seen) for b in cd.bases)
    body = [x for x in fn.body if not (isinstance(x, ast.Assign) and len(x.targets) == 1 and isinstance(x.targets[0], ast.Name) and x.targets[0].id == "logger")]
    # calls of self._log* / super()._log* methods are checked recursively and then treated as logging
    rest = []
    for x in body:
        c = x.value if isinstance(x, ast.Expr) and isinstance(x.value, ast.Call) else None
        if c is not None and isinstance(c.func, ast.Attribute) and c.func.attr.startswith("_log") and all(_pure_expr(a) for a in c.args) \
                and all(_pure_expr(k.value) for k in c.keywords):
            recv = c.func.value
            if isinstance(recv, ast.Name) and recv.id == "self":
                # any class of the file may provide it: all definitions of that name must be logging-only
                defs = [k.name for k in tree.body if isinstance(k, ast.ClassDef) and any(isinstance(m, ast.FunctionDef) and m.name == c.func.attr for m in k.body)]
                if defs and all(logging_only(tree, k, c.func.attr, seen) for k in defs):
                    continue
            if isinstance(recv, ast.Call) and isinstance(recv.func, ast.Name) and recv.func.id == "super":
                if all(logging_only(tree, ast.unparse(b), c.func.attr, seen) for b in cd.bases):
                    continue
        rest.append(x)
    kept, _ = dead_code(rest, set())
    return not kept


def prepare(spec, src, tree):
    import copy
    fn = copy.deepcopy(find_function(tree, spec["func"], spec.get("nth", 0)))
    body = []
    for st in fn.body:
        if isinstance(st, ast.Try) and len(st.body) == 1 and isinstance(st.body[0], ast.Assign) and len(st.body[0].targets) == 1 \
                and isinstance(st.body[0].targets[0], ast.Name) and st.body[0].targets[0].id in spec.get("given", []):
            continue          # `try: x = <conversion of the raw text>` - the converted value is a parameter of the translated function
        if isinstance(st, ast.Assign) and len(st.targets) == 1 and isinstance(st.targets[0], ast.Name) and st.targets[0].id in spec.get("given", []):
            continue
        if isinstance(st, ast.Expr) and isinstance(st.value, ast.Call) and ast.unparse(st.value.func) in spec.get("skip_calls", []):
            continue
        if any((ast.get_source_segment(src, st) or "").replace(" ", "").startswith(pref.replace(" ", "")) for pref in spec.get("skip_stmts", [])):
            continue          # a statement the spec declares as outside the translated fragment (modelled by hand, named in DESIGN.md)
        if isinstance(st, ast.Assign) and isinstance(st.value, ast.Call):
            f = st.value.func
            nm = f.id if isinstance(f, ast.Name) else (f.attr if isinstance(f, ast.Attribute) else None)
            if nm in spec.get("skip_assign_from", []):
                continue
        body.append(st)
    for cls_m in spec.get("logging_only", []):
        # a method the function calls for its log output only (the call is in skip_calls): checked here - it computes nothing else
        kc, km = cls_m.rsplit(".", 1)
        if not logging_only(tree, kc, km):
            raise Untranslatable("%s does more than log" % cls_m)
    if spec.get("dead_code"):
        body, _ = dead_code(body, set())
    if spec.get("inline"):
        # a call statement `self.helper(a, b, c)` whose arguments are exactly the helper's parameter names is replaced by the helper's body (a pure substitution)
        def inline_in(stmts):
            out_ = []
            for st in stmts:
                if isinstance(st, ast.If):
                    st.body, st.orelse = inline_in(st.body), inline_in(st.orelse)
                out_ += inline_one(st)
            return out_

        def inline_one(st):
            newbody = []
            c = st.value if isinstance(st, ast.Expr) and isinstance(st.value, ast.Call) else None
            nm = c.func.attr if c is not None and isinstance(c.func, ast.Attribute) and isinstance(c.func.value, ast.Name) and c.func.value.id == "self" else None
            if nm in spec["inline"]:
                helper = find_function(tree, spec["func"].rsplit(".", 1)[0] + "." + nm)
                hargs = [a.arg for a in helper.args.args if a.arg != "self"]
                if [ast.unparse(a) for a in c.args] != hargs or c.keywords:
                    raise Untranslatable("cannot inline %s: arguments differ from its parameter names" % nm)
                newbody += [x for x in helper.body if not (isinstance(x, ast.Expr) and isinstance(x.value, ast.Constant))]
            else:
                newbody.append(st)
            return newbody
        body = inline_in(body)
    if spec.get("truncate_at"):
        # the function's first part only: cut before the named statement, the result is the named locals (what the rest of the function is handed)
        idx = next((i for i, st in enumerate(body) if (ast.get_source_segment(src, st) or "").replace(" ", "").startswith(spec["truncate_at"].replace(" ", ""))), None)
        if idx is None:
            raise Untranslatable("no statement starting with %s" % spec["truncate_at"])
        ret = ast.Return(value=ast.Tuple(elts=[ast.Name(id=n, ctx=ast.Load()) for n in spec["result_vars"]], ctx=ast.Load()) if spec["result_vars"] else None)
        ret._synth = True
        ast.copy_location(ret, body[idx])
        ast.fix_missing_locations(ret)
        body = body[:idx] + [ret]
    if spec.get("returns_attr"):
        last = body[-1]
        if not (isinstance(last, ast.Assign) and ast.get_source_segment(src, last.targets[0]) == spec["returns_attr"]):
            raise Untranslatable("expected the function to end with %s = ..." % spec["returns_attr"])
        body[-1] = ast.copy_location(ast.Return(value=last.value), last)
    pre = []
    for dname in spec.get("class_dicts", []):
        cls = find_function(tree, spec["func"].rsplit(".", 1)[0])
        found = None
        for n in cls.body:
            if isinstance(n, ast.Assign) and len(n.targets) == 1 and isinstance(n.targets[0], ast.Name) and n.targets[0].id == dname and isinstance(n.value, ast.Dict):
                found = n
        if found is None:
            raise Untranslatable("no class dictionary %s" % dname)
        tgt = ast.Attribute(value=ast.Name(id="self", ctx=ast.Load()), attr=dname, ctx=ast.Store())
        tgt._synth = True
        a = ast.Assign(targets=[tgt], value=found.value)
        ast.copy_location(a, found)
        ast.copy_location(tgt, found.targets[0])
        pre.append(a)
    fn.body = pre + body
    for obj, (cls, methods) in spec.get("absent_objects", {}).items():
        # e.g. zeroPair = ZeroPair() where `class ZeroPair: def energy(self, rij): return 0.0` - the class must be exactly that constant object
        cdef = next((n for n in ast.walk(fn) if isinstance(n, ast.ClassDef) and n.name == cls), None)
        if cdef is None:
            raise Untranslatable("no local class %s" % cls)
        for mname, const in methods.items():
            m = next((n for n in cdef.body if isinstance(n, ast.FunctionDef) and n.name == mname), None)
            ok = m is not None and len(m.body) == 1 and isinstance(m.body[0], ast.Return) and isinstance(m.body[0].value, ast.Constant) and m.body[0].value.value == const
            if not ok:
                raise Untranslatable("%s.%s is not `return %r`" % (cls, mname, const))
        inst = any(isinstance(n, ast.Assign) and len(n.targets) == 1 and isinstance(n.targets[0], ast.Name) and n.targets[0].id == obj
                   and isinstance(n.value, ast.Call) and isinstance(n.value.func, ast.Name) and n.value.func.id == cls and not n.value.args for n in fn.body)
        if not inst:
            raise Untranslatable("%s is not an instance of %s" % (obj, cls))
    if spec.get("sig_from_locals"):
        # the parameters are the locals the dropped helper calls would have set; the Python signature is (self, <section>)
        fn.args.args = [ast.arg(arg="self")] + [ast.arg(arg=n) for n, _ in spec["params"]]
    return fn


class _SegProc(Proc):
    """source segments for synthesised nodes (class dictionaries moved into the body) fall back to unparse"""

    def seg(self, e):
        s = None
        if not getattr(e, "_synth", False):
            try:
                s = ast.get_source_segment(self.src, e)
            except Exception:
                s = None
        if s is None:
            s = ast.unparse(e)
        return s.replace(" ", "")


def gen_logic(repo, outdir, summary, write_if_changed):
    import os
    out = [PRELUDE]
    res = {}
    cache = {}
    import copy
    all_specs = list(PROCS)
    for spec in PROCS:
        if spec.get("dest"):
            # the same function once more, with its output parameter as the DESTINATION: the list of chunks it has received, one per write call that reaches it
            d = copy.deepcopy(spec)
            d["name"] = spec["name"] + "_writes"
            d["params"] = [(n, "Dest" if n == spec["inout"] else t) for n, t in spec["params"]]
            d["err"] = spec["ret"][1] if spec["ret"][0] == "Except" else None
            d["ret"] = "Dest"
            d["variant"], d["dest_mode"] = True, True
            d.pop("dest")
            all_specs.append(d)
    procs = {}
    for spec in all_specs:
        key = (spec["file"], spec["func"].rsplit(".", 1)[-1])              # calls are resolved within the same source file
        if spec.get("variant"):
            procs[key].setdefault("variants", []).append(spec)            # the same function translated for another type of argument: chosen by the argument types
        else:
            procs[key] = spec
        procs[("name", spec["name"])] = spec
    for spec in all_specs:
        try:
            fp = os.path.join(repo, "atsim/potentials", spec["file"])
            if fp not in cache:
                src = open(fp).read()
                cache[fp] = (src, ast.parse(src))
            src, tree = cache[fp]
            for cfile, cname, base in spec.get("class_bases", []):
                # the exception classes the handlers name: each is declared with the stated base class (so that the order of the handlers means what exc_classes says)
                ctree = ast.parse(open(os.path.join(repo, "atsim/potentials", cfile)).read())
                cd = next((n for n in ctree.body if isinstance(n, ast.ClassDef) and n.name == cname), None)
                if cd is None or [ast.unparse(b) for b in cd.bases] != [base]:
                    raise Untranslatable("class %s(%s) not found in %s" % (cname, base, cfile))
            for cname_attr, (ltext, lty_, cfile) in spec.get("const_attrs", {}).items():
                ccls, cattr = cname_attr.rsplit(".", 1)
                ctree = ast.parse(open(os.path.join(repo, "atsim/potentials", cfile)).read())
                cd = next((n for n in ctree.body if isinstance(n, ast.ClassDef) and n.name == ccls), None)
                asg = None if cd is None else next((n for n in cd.body if isinstance(n, ast.Assign) and len(n.targets) == 1 and isinstance(n.targets[0], ast.Name)
                                                    and n.targets[0].id == cattr and isinstance(n.value, ast.Constant)), None)
                if asg is None or lstr(asg.value.value) != ltext:
                    raise Untranslatable("%s is not the constant %s" % (cname_attr, ltext))
            for kname, cmpf in spec.get("sort_keys", {}).items():
                ok = any(isinstance(n, ast.Assign) and len(n.targets) == 1 and isinstance(n.targets[0], ast.Name) and n.targets[0].id == kname
                         and ast.unparse(n.value).replace(" ", "") == "functools.cmp_to_key(%s)" % cmpf for n in tree.body)
                if not ok:
                    raise Untranslatable("%s is not functools.cmp_to_key(%s)" % (kname, cmpf))
            for alias, (ifile, iname) in spec.get("imports", {}).items():
                stem = os.path.splitext(os.path.basename(ifile))[0]
                ok = any(isinstance(n, ast.ImportFrom) and (n.module or "").split(".")[-1] == stem and any(a.name == iname and (a.asname or a.name) == alias for a in n.names)
                         for n in tree.body)
                if not ok:
                    raise Untranslatable("%s is not `from .%s import %s`" % (alias, stem, iname))
            fn = prepare(spec, src, tree)
            for dn, dv in spec.get("defaults", {}).items():
                names = [a.arg for a in fn.args.args]
                defs = dict(zip(names[len(names) - len(fn.args.defaults):], fn.args.defaults))
                if isinstance(dv, tuple):
                    if dn not in defs or ast.unparse(defs[dn]).replace(" ", "") != dv[1].replace(" ", ""):
                        raise Untranslatable("default of %s is not %s" % (dn, dv[1]))
                    continue
                want = {"true": True, "false": False}.get(dv, dv)
                if dn not in defs or not isinstance(defs[dn], ast.Constant) or defs[dn].value != want:
                    raise Untranslatable("default of %s is not %s" % (dn, dv))
            p = _SegProc(spec, src, fn, procs)
            p.called, p.called_super = [], []
            text = p.translate()
            if spec.get("klass"):
                # the function as it behaves on an object of the subclass `klass`: what is taken from the base class (the function itself, and the methods it calls
                # that were translated from the base class) must not be overridden by the subclass - read from the class statement
                kcls = next((n for n in tree.body if isinstance(n, ast.ClassDef) and n.name == spec["klass"]), None)
                if kcls is None or len(kcls.bases) != 1:
                    raise Untranslatable("no class %s with one base" % spec["klass"])
                for q in [spec] + p.called:
                    if q["file"] != spec["file"] or "." not in q["func"]:
                        continue
                    qcls, qm = q["func"].rsplit(".", 1)
                    if next((n for n in tree.body if isinstance(n, ast.ClassDef) and n.name == qcls), None) is None:
                        continue          # not a method of a class of this file (a nested helper function)
                    if mro_owner(tree, spec["klass"], qm) != qcls:
                        raise Untranslatable("%s: %s is not what an object of %s runs" % (spec["name"], q["func"], spec["klass"]))
                for q in p.called_super:
                    # super().method(...): resolved from the base of the class that defines the calling method
                    qcls, qm = q["func"].rsplit(".", 1)
                    here = next((n for n in tree.body if isinstance(n, ast.ClassDef) and n.name == spec["func"].rsplit(".", 1)[0]), None)
                    if here is None or len(here.bases) != 1 or mro_owner(tree, ast.unparse(here.bases[0]), qm) != qcls:
                        raise Untranslatable("%s: super().%s is not %s" % (spec["name"], qm, q["func"]))
            res[spec["name"]] = True
            out.append("/-- %s `%s` -/" % (spec["file"], spec["func"]))
            out.append(text)
        except (Untranslatable, OSError, SyntaxError, IndexError, KeyError) as e:
            res[spec["name"]] = "%s: %s" % (type(e).__name__, e)
            out.append("-- %s `%s` is UNTRANSLATABLE: %s\n" % (spec["file"], spec["func"], str(e).replace("\n", " ")))
    # ---- module-level registries (dictionary literals whose values are constructor calls): key, callee, positional arguments as written
    for tname, rel, dname in TABLES:
        try:
            fp = os.path.join(repo, "atsim/potentials", rel)
            if fp not in cache:
                src = open(fp).read()
                cache[fp] = (src, ast.parse(src))
            src, tree = cache[fp]
            found = None
            for n in tree.body:
                if isinstance(n, ast.Assign) and len(n.targets) == 1 and isinstance(n.targets[0], ast.Name) and n.targets[0].id == dname and isinstance(n.value, ast.Dict):
                    found = n.value
            if found is None:
                raise Untranslatable("no module-level dictionary %s" % dname)
            rows = []
            for k, v in zip(found.keys, found.values):
                if not (isinstance(k, ast.Constant) and isinstance(k.value, str)):
                    raise Untranslatable("non-literal key in %s" % dname)
                if not (isinstance(v, ast.Call) and isinstance(v.func, ast.Name) and not v.keywords):
                    raise Untranslatable("value of %r in %s is not a plain constructor call" % (k.value, dname))
                args = []
                for a in v.args:
                    if isinstance(a, ast.Constant) and isinstance(a.value, str):
                        args.append(a.value)
                    elif isinstance(a, ast.Name):
                        args.append(a.id)
                    else:
                        raise Untranslatable("argument of %s(...) in %s" % (v.func.id, dname))
                rows.append('("%s", "%s", [%s])' % (k.value, v.func.id, ", ".join('"%s"' % x for x in args)))
            out.append("/-- %s `%s`: (key, constructor, its positional arguments as written) in source order -/" % (rel, dname))
            out.append("def %s : List (String × String × List String) := [\n  %s]\n" % (tname, ",\n  ".join(rows)))
            res[tname] = True
        except (Untranslatable, OSError, SyntaxError) as e:
            res[tname] = "%s: %s" % (type(e).__name__, e)
            out.append("-- %s `%s` is UNTRANSLATABLE: %s\n" % (rel, dname, str(e).replace("\n", " ")))
    out.append("end Atsim.Gen.Logic\n")
    changed = write_if_changed(os.path.join(outdir, "Logic.lean"), "\n".join(out))
    summary["logic"] = dict(changed=changed, procs=res)


if __name__ == "__main__":
    import json
    import sys
    from py2lean import write_if_changed
    s = {}
    gen_logic(sys.argv[1], sys.argv[2], s, write_if_changed)
    print(json.dumps(s, indent=1))
