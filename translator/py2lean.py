#!/usr/bin/env python3
"""Python `ast` -> Lean translator.

usage: py2lean.py <repo> <outdir>      writes <outdir>/*.lean (only when the content changed, so `lake build` stays a no-op
                                        when the relevant source is unchanged) and prints a JSON summary on stdout.

Translated fragment (anything else is reported as `untranslatable` and the generated definition becomes `E.bad`, which makes
every theorem about it fail - a broken tie, never a silently wrong model):

  * straight-line bodies  `name = <expr>` ... `return <expr>`  built from  + - * / **, unary minus, numeric literals, names,
    math.exp/log/sqrt/pi, float(x), class attribute constants (self.Ck1), calls to sibling forms (`buck(r, A, rho, 0.0)`,
    `buck.deriv(...)` are inlined).
  * numeric literals become exact rationals of their decimal source text (`E.lit n d` with natural-number numerals; never a
    Lean scientific literal);  `x ** <integer literal>` becomes `E.npow`, any other `**` becomes `E.rpow`.
  * closures `potential`, `deriv`, `deriv2` inside `plus`, `product`, `pow` (atsim/potentials/__init__.py): free names become
    function symbols (`E2`, see Gen/Combinators.lean).
  * the literal matrices of Exp_Spline / Buck4_Spline (atsim/potentials/spline/__init__.py).
"""
import ast
import warnings
warnings.simplefilter("ignore")
import json
import os
import sys
sys.path.insert(0, os.path.dirname(os.path.abspath(__file__)))
from fractions import Fraction as Fr


class Untranslatable(Exception):
    pass


# ----------------------------------------------------------------------------------------------------------------------
# expression terms (python side): tuples
def lit_of_text(text):
    q = Fr(text)
    if q < 0:
        return ("neg", ("lit", -q.numerator, q.denominator))
    return ("lit", q.numerator, q.denominator)


class FormTranslator(object):
    def __init__(self, src, tree):
        self.src = src
        self.tree = tree
        self.classes = {}
        self.instances = {}       # module-level name -> class name   (buck = _buck())
        for node in tree.body:
            if isinstance(node, ast.ClassDef):
                self.classes[node.name] = node
            if isinstance(node, ast.Assign) and len(node.targets) == 1 and isinstance(node.targets[0], ast.Name) \
                    and isinstance(node.value, ast.Call) and isinstance(node.value.func, ast.Name):
                self.instances[node.targets[0].id] = node.value.func.id

    def class_consts(self, cls):
        out = {}
        for n in cls.body:
            if isinstance(n, ast.Assign) and len(n.targets) == 1 and isinstance(n.targets[0], ast.Name) and isinstance(n.value, ast.Constant):
                out[n.targets[0].id] = lit_of_text(ast.get_source_segment(self.src, n.value))
        return out

    def method(self, cls, name):
        for n in cls.body:
            if isinstance(n, ast.FunctionDef) and n.name == name:
                return n
        return None

    def translate_method(self, clsname, mname, depth=0):
        """-> (params, term) with r = ('var',) and params ('param', i)"""
        if depth > 4:
            raise Untranslatable("sibling call nesting too deep")
        cls = self.classes[clsname]
        fn = self.method(cls, mname)
        if fn is None:
            raise Untranslatable("no method %s" % mname)
        if fn.args.vararg or fn.args.kwarg or fn.args.kwonlyargs:
            raise Untranslatable("varargs")
        args = [a.arg for a in fn.args.args]
        if len(args) < 2 or args[0] != "self":
            raise Untranslatable("unexpected signature")
        env = {args[1]: ("var",)}
        for i, a in enumerate(args[2:]):
            env[a] = ("param", i)
        consts = self.class_consts(cls)
        body = [s for s in fn.body if not (isinstance(s, ast.Expr) and isinstance(s.value, ast.Constant) and isinstance(s.value.value, str))]
        guards = []
        for st in body:
            if isinstance(st, ast.Assign) and len(st.targets) == 1 and isinstance(st.targets[0], ast.Name):
                env[st.targets[0].id] = self.expr(st.value, env, consts, depth)
            elif isinstance(st, ast.Return):
                term = self.expr(st.value, env, consts, depth)
                if depth == 0:
                    # `if <param> == <literal> [or ...]: return <literal>` before the formula: the formula term is what is translated; for each guard the
                    # term with the parameter fixed to the literal and the literal returned are emitted side by side (theorem: they agree wherever the formula
                    # is defined, so the guard only extends it to points where the floating-point expression would raise, e.g. 0.0**-1)
                    self.last_guards = [(subst_param(term, pi, lit), val) for (pi, lit, val) in guards]
                return args[2:], term
            elif isinstance(st, ast.If) and not st.orelse and len(st.body) == 1 and isinstance(st.body[0], ast.Return) \
                    and isinstance(st.body[0].value, ast.Constant) and isinstance(st.body[0].value.value, (int, float)):
                val = lit_of_text(ast.get_source_segment(self.src, st.body[0].value))
                tests = st.test.values if isinstance(st.test, ast.BoolOp) and isinstance(st.test.op, ast.Or) else [st.test]
                for t in tests:
                    ok = isinstance(t, ast.Compare) and len(t.ops) == 1 and isinstance(t.ops[0], ast.Eq) and isinstance(t.left, ast.Name) and t.left.id in args[2:] \
                        and isinstance(t.comparators[0], ast.Constant) and isinstance(t.comparators[0].value, (int, float))
                    if not ok:
                        raise Untranslatable("guard %s" % (ast.get_source_segment(self.src, st.test) or "")[:40])
                    guards.append((args[2:].index(t.left.id), lit_of_text(ast.get_source_segment(self.src, t.comparators[0])), val))
            else:
                raise Untranslatable("statement %s" % type(st).__name__)
        raise Untranslatable("no return")

    def expr(self, e, env, consts, depth):
        g = zero_factor_guard(e)
        if g is not None:
            return self.expr(g, env, consts, depth)
        if isinstance(e, ast.Constant):
            if isinstance(e.value, bool) or not isinstance(e.value, (int, float)):
                raise Untranslatable("constant %r" % (e.value,))
            return lit_of_text(ast.get_source_segment(self.src, e))
        if isinstance(e, ast.Name):
            if e.id in env:
                return env[e.id]
            raise Untranslatable("free name %s" % e.id)
        if isinstance(e, ast.Attribute):
            if isinstance(e.value, ast.Name) and e.value.id == "self" and e.attr in consts:
                return consts[e.attr]
            if isinstance(e.value, ast.Name) and e.value.id == "math" and e.attr == "pi":
                return ("pi",)
            raise Untranslatable("attribute %s" % ast.dump(e)[:60])
        if isinstance(e, ast.UnaryOp) and isinstance(e.op, ast.USub):
            return ("neg", self.expr(e.operand, env, consts, depth))
        if isinstance(e, ast.UnaryOp) and isinstance(e.op, ast.UAdd):
            return self.expr(e.operand, env, consts, depth)
        if isinstance(e, ast.BinOp):
            if isinstance(e.op, ast.Pow):
                base = self.expr(e.left, env, consts, depth)
                n = self.int_literal(e.right)
                if n is not None and n >= 0:
                    return ("npow", base, n)
                return ("rpow", base, self.expr(e.right, env, consts, depth))
            a = self.expr(e.left, env, consts, depth)
            b = self.expr(e.right, env, consts, depth)
            op = {ast.Add: "add", ast.Sub: "sub", ast.Mult: "mul", ast.Div: "div"}.get(type(e.op))
            if op is None:
                raise Untranslatable("operator %s" % type(e.op).__name__)
            return (op, a, b)
        if isinstance(e, ast.Call):
            f = e.func
            if e.keywords:
                raise Untranslatable("keyword call")
            if isinstance(f, ast.Attribute) and isinstance(f.value, ast.Name) and f.value.id == "math" and f.attr in ("exp", "log", "sqrt"):
                if len(e.args) != 1:
                    raise Untranslatable("math.%s arity" % f.attr)
                return (f.attr, self.expr(e.args[0], env, consts, depth))
            if isinstance(f, ast.Name) and f.id == "float" and len(e.args) == 1:
                return self.expr(e.args[0], env, consts, depth)
            # sibling form:  buck(r, A, rho, 0.0)   /   buck.deriv(r, A, rho, 0.0)
            target = None
            if isinstance(f, ast.Name) and f.id in self.instances:
                target = (self.instances[f.id], "__call__")
            if isinstance(f, ast.Attribute) and isinstance(f.value, ast.Name) and f.value.id in self.instances and f.attr in ("deriv", "deriv2"):
                target = (self.instances[f.value.id], f.attr)
            if target:
                params, term = self.translate_method(target[0], target[1], depth + 1)
                actual = [self.expr(a, env, consts, depth) for a in e.args]
                if len(actual) != len(params) + 1:
                    raise Untranslatable("sibling call arity")
                return subst(term, actual[0], actual[1:])
            raise Untranslatable("call %s" % ast.dump(f)[:60])
        raise Untranslatable("expression %s" % type(e).__name__)

    @staticmethod
    def int_literal(e):
        if isinstance(e, ast.Constant) and isinstance(e.value, int) and not isinstance(e.value, bool):
            return e.value
        if isinstance(e, ast.Constant) and isinstance(e.value, float) and e.value == int(e.value) and abs(e.value) < 1000:
            return int(e.value)
        return None


def zero_factor_guard(e):
    """`(X * Y) if X != 0 else 0.0`  ->  (name of X, the product node) or None.  Over the reals (total functions) the product is 0 when X is, so the conditional
    denotes the product; in floating point it avoids evaluating Y (e.g. log of a negative number) when its factor vanishes."""
    if not isinstance(e, ast.IfExp):
        return None
    t, body, other = e.test, e.body, e.orelse
    ok = isinstance(t, ast.Compare) and len(t.ops) == 1 and isinstance(t.ops[0], ast.NotEq) and isinstance(t.left, ast.Name) \
        and isinstance(t.comparators[0], ast.Constant) and t.comparators[0].value == 0 \
        and isinstance(other, ast.Constant) and other.value == 0 \
        and isinstance(body, ast.BinOp) and isinstance(body.op, ast.Mult) \
        and ((isinstance(body.left, ast.Name) and body.left.id == t.left.id) or (isinstance(body.right, ast.Name) and body.right.id == t.left.id))
    return body if ok else None


def subst_param(t, pi, lit):
    k = t[0]
    if k == "param":
        return lit if t[1] == pi else t
    if k in ("var", "lit", "pi", "bad", "sym"):
        return t
    if k == "npow":
        return ("npow", subst_param(t[1], pi, lit), t[2])
    return (k,) + tuple(subst_param(x, pi, lit) for x in t[1:])


def subst(t, var, params):
    k = t[0]
    if k == "var":
        return var
    if k == "param":
        return params[t[1]]
    if k in ("lit", "pi", "bad"):
        return t
    if k == "npow":
        return ("npow", subst(t[1], var, params), t[2])
    return (k,) + tuple(subst(x, var, params) for x in t[1:])


def size(t):
    if t[0] in ("var", "param", "lit", "pi", "bad", "sym"):
        return 1
    if t[0] == "npow":
        return 1 + size(t[1])
    return 1 + sum(size(x) for x in t[1:])


def lean(t, ns="E"):
    k = t[0]
    if k == "var":
        return ".var"
    if k == "param":
        return "(.param %d)" % t[1]
    if k == "lit":
        return "(.lit %d %d)" % (t[1], t[2])
    if k == "pi":
        return ".pi"
    if k == "bad":
        return ".bad"
    if k == "sym":
        return "(.sym %d)" % t[1]
    if k == "npow":
        return "(.npow %s %d)" % (lean(t[1]), t[2])
    return "(.%s %s)" % (k, " ".join(lean(x) for x in t[1:]))


def write_if_changed(path, text):
    old = None
    if os.path.exists(path):
        old = open(path).read()
    if old != text:
        os.makedirs(os.path.dirname(path), exist_ok=True)
        with open(path, "w") as f:
            f.write(text)
        return True
    return False


# ----------------------------------------------------------------------------------------------------------------------
def gen_forms(repo, outdir, summary):
    path = os.path.join(repo, "atsim/potentials/potentialfunctions.py")
    src = open(path).read()
    ft = FormTranslator(src, ast.parse(src))
    out = ["import AtsimModel.Model.Expr",
           "/-! GENERATED by translator/py2lean.py from atsim/potentials/potentialfunctions.py - do not edit.",
           "    One `E` term per method body; parameters are numbered in signature order (after `self, r`). -/",
           "namespace Atsim.Gen", "open Atsim", ""]
    forms = {}
    table = []
    for inst, clsname in sorted(ft.instances.items()):
        if clsname not in ft.classes:
            continue
        entry = dict(cls=clsname, methods={})
        for m, lname in (("__call__", "call"), ("deriv", "deriv"), ("deriv2", "deriv2")):
            guards = []
            try:
                ft.last_guards = []
                params, term = ft.translate_method(clsname, m)
                guards = ft.last_guards
                entry["params"] = params
                entry["methods"][lname] = dict(ok=True, nodes=size(term))
            except Untranslatable as e:
                term = ("bad",)
                entry["methods"][lname] = dict(ok=False, why=str(e))
            out.append("def %s_%s : E := %s" % (inst, lname, lean(term)))
            if guards:
                out.append("/-- guards `if <parameter> == <literal>: return <value>` placed before the formula of `%s.%s`: (the formula with the parameter fixed, the value returned) -/" % (inst, m))
                out.append("def %s_%s_guards : List (E × E) := [%s]" % (inst, lname, ", ".join("(%s, %s)" % (lean(a), lean(b)) for a, b in guards)))
        params = entry.get("params", [])
        out.append("def %s_params : List String := [%s]" % (inst, ", ".join('"%s"' % p for p in params)))
        out.append("")
        forms[inst] = entry
        table.append('("%s", %s_call, %s_deriv, %s_deriv2, %d)' % (inst, inst, inst, inst, len(params)))
    out.append("/-- (name, call, deriv, deriv2, number of parameters) for the driver's Float evaluation -/")
    out.append("def formTable : List (String × E × E × E × Nat) := [\n  " + ",\n  ".join(table) + "]")
    out += ["", "end Atsim.Gen", ""]
    changed = write_if_changed(os.path.join(outdir, "Forms.lean"), "\n".join(out))
    summary["forms"] = dict(changed=changed, forms={k: {m: (v["ok"] if v["ok"] else v["why"]) for m, v in e["methods"].items()} for k, e in forms.items()})
    return forms


# ----------------------------------------------------------------------------------------------------------------------
class ClosureTranslator(object):
    """closures inside plus/product/pow: free callables become symbols, `f(r)` becomes `.app k`"""
    SYMS = ["a", "b", "deriv_a", "deriv_b", "deriv2_a", "deriv2_b", "potential", "deriv"]

    def __init__(self, src):
        self.src = src

    def closure(self, fn):
        env = {}
        body = [s for s in fn.body if not (isinstance(s, ast.Expr) and isinstance(s.value, ast.Constant))]
        rname = fn.args.args[0].arg
        self.last_guards = []
        for st in body:
            if isinstance(st, ast.Assign) and len(st.targets) == 1 and isinstance(st.targets[0], ast.Name):
                env[st.targets[0].id] = self.expr(st.value, env, rname)
            elif isinstance(st, ast.Return):
                return self.expr(st.value, env, rname)
            elif isinstance(st, ast.If) and not st.orelse and st.body and isinstance(st.body[-1], ast.Return):
                # `if x == 0 and y == 0: [local assignments;] return <expression>` before the general formula: the formula term is what is translated; each guard is
                # emitted beside it as (the terms tested against zero, the term returned) - the theorems about the guards say that the value returned is the
                # derivative at the points the guard selects (where the general expression divides by zero)
                tests = st.test.values if isinstance(st.test, ast.BoolOp) and isinstance(st.test.op, ast.And) else [st.test]
                conds = []
                for t in tests:
                    ok = isinstance(t, ast.Compare) and len(t.ops) == 1 and isinstance(t.ops[0], ast.Eq) and isinstance(t.left, ast.Name) and t.left.id in env \
                        and isinstance(t.comparators[0], ast.Constant) and t.comparators[0].value == 0
                    if not ok:
                        raise Untranslatable("guard %s" % (ast.get_source_segment(self.src, st.test) or "")[:40])
                    conds.append(env[t.left.id])
                genv = dict(env)
                for g in st.body[:-1]:
                    if not (isinstance(g, ast.Assign) and len(g.targets) == 1 and isinstance(g.targets[0], ast.Name)):
                        raise Untranslatable("statement %s inside a guard" % type(g).__name__)
                    genv[g.targets[0].id] = self.expr(g.value, genv, rname)
                self.last_guards.append((conds, self.expr(st.body[-1].value, genv, rname)))
            else:
                raise Untranslatable("statement %s" % type(st).__name__)
        raise Untranslatable("no return")

    def expr(self, e, env, rname):
        g = zero_factor_guard(e)
        if g is not None:
            return self.expr(g, env, rname)
        if isinstance(e, ast.Constant) and isinstance(e.value, (int, float)) and not isinstance(e.value, bool):
            return lit_of_text(ast.get_source_segment(self.src, e))
        if isinstance(e, ast.Name):
            if e.id in env:
                return env[e.id]
            raise Untranslatable("free name %s" % e.id)
        if isinstance(e, ast.UnaryOp) and isinstance(e.op, ast.USub):
            return ("neg", self.expr(e.operand, env, rname))
        if isinstance(e, ast.BinOp):
            if isinstance(e.op, ast.Pow):
                n = FormTranslator.int_literal(e.right)
                if n is not None and n >= 0:
                    return ("npow", self.expr(e.left, env, rname), n)
                return ("rpow", self.expr(e.left, env, rname), self.expr(e.right, env, rname))
            op = {ast.Add: "add", ast.Sub: "sub", ast.Mult: "mul", ast.Div: "div"}.get(type(e.op))
            if op is None:
                raise Untranslatable("operator")
            return (op, self.expr(e.left, env, rname), self.expr(e.right, env, rname))
        if isinstance(e, ast.Call):
            f = e.func
            if isinstance(f, ast.Attribute) and isinstance(f.value, ast.Name) and f.value.id == "math" and f.attr in ("exp", "log", "sqrt"):
                return (f.attr, self.expr(e.args[0], env, rname))
            if isinstance(f, ast.Name) and f.id in self.SYMS and len(e.args) == 1 and isinstance(e.args[0], ast.Name) and e.args[0].id == rname:
                return ("sym", self.SYMS.index(f.id))
            raise Untranslatable("call %s" % ast.dump(f)[:60])
        raise Untranslatable("expression %s" % type(e).__name__)


def find_closures(fn):
    """nested FunctionDefs named potential / deriv / deriv2 anywhere inside fn"""
    out = {}
    for n in ast.walk(fn):
        if isinstance(n, ast.FunctionDef) and n is not fn and n.name in ("potential", "deriv", "deriv2"):
            out[n.name] = n
    return out


def gen_combinators(repo, outdir, summary):
    path = os.path.join(repo, "atsim/potentials/__init__.py")
    src = open(path).read()
    tree = ast.parse(src)
    ct = ClosureTranslator(src)
    out = ["import AtsimModel.Model.Expr",
           "/-! GENERATED by translator/py2lean.py from atsim/potentials/__init__.py (closures of plus / product / pow) - do not edit.",
           "    Function symbols: " + ", ".join("%d=%s(r)" % (i, s) for i, s in enumerate(ct.SYMS)) + " -/",
           "namespace Atsim.Gen", "open Atsim", ""]
    res = {}
    for node in tree.body:
        if isinstance(node, ast.FunctionDef) and node.name in ("plus", "product", "pow"):
            cl = find_closures(node)
            for cname in ("potential", "deriv", "deriv2"):
                try:
                    if cname not in cl:
                        raise Untranslatable("closure %s missing" % cname)
                    ct.last_guards = []
                    term = ct.closure(cl[cname])
                    res["%s.%s" % (node.name, cname)] = True
                except Untranslatable as e:
                    term = ("bad",)
                    ct.last_guards = []
                    res["%s.%s" % (node.name, cname)] = str(e)
                out.append("def %s_%s : E := %s" % (node.name, cname, lean(term)))
                if ct.last_guards:
                    out.append("/-- guards `if x == 0 and ...: return <value>` placed before the general expression of `%s.%s`: (the terms tested against zero, the term returned) -/" % (node.name, cname))
                    out.append("def %s_%s_guards : List (List E × E) := [%s]" % (node.name, cname, ", ".join(
                        "([%s], %s)" % (", ".join(lean(c) for c in conds), lean(v)) for conds, v in ct.last_guards)))
            out.append("")
    # num_deriv from _util.py
    upath = os.path.join(repo, "atsim/potentials/_util.py")
    usrc = open(upath).read()
    out += ["end Atsim.Gen", ""]
    changed = write_if_changed(os.path.join(outdir, "Combinators.lean"), "\n".join(out))
    summary["combinators"] = dict(changed=changed, closures=res)


# ----------------------------------------------------------------------------------------------------------------------
class MatrixTranslator(object):
    """straight-line `name = expr` prefix of a method, attribute chains mapped to numbered symbols, then literal matrices"""

    def __init__(self, src, symtab):
        self.src = src
        self.symtab = symtab      # "self.detach_point.r" -> param index

    def chain(self, e):
        parts = []
        while isinstance(e, ast.Attribute):
            parts.append(e.attr)
            e = e.value
        if isinstance(e, ast.Name):
            parts.append(e.id)
            return ".".join(reversed(parts))
        return None

    def expr(self, e, env):
        if isinstance(e, ast.Constant) and isinstance(e.value, (int, float)) and not isinstance(e.value, bool):
            return lit_of_text(ast.get_source_segment(self.src, e))
        if isinstance(e, ast.Name):
            if e.id in env:
                return env[e.id]
            raise Untranslatable("free name %s" % e.id)
        if isinstance(e, ast.Attribute):
            c = self.chain(e)
            if c in self.symtab:
                return ("param", self.symtab[c])
            raise Untranslatable("attribute %s" % c)
        if isinstance(e, ast.UnaryOp) and isinstance(e.op, ast.USub):
            return ("neg", self.expr(e.operand, env))
        if isinstance(e, ast.BinOp):
            if isinstance(e.op, ast.Pow):
                n = FormTranslator.int_literal(e.right)
                if n is None or n < 0:
                    raise Untranslatable("non-literal power")
                return ("npow", self.expr(e.left, env), n)
            op = {ast.Add: "add", ast.Sub: "sub", ast.Mult: "mul", ast.Div: "div"}.get(type(e.op))
            if op is None:
                raise Untranslatable("operator")
            return (op, self.expr(e.left, env), self.expr(e.right, env))
        if isinstance(e, ast.Call) and isinstance(e.func, ast.Attribute) and isinstance(e.func.value, ast.Name) and e.func.value.id == "math" and e.func.attr == "log":
            return ("log", self.expr(e.args[0], env))
        raise Untranslatable("expression %s" % type(e).__name__)

    def run(self, fn, want):
        """walk the body; returns {name: python list structure of terms} for the names in `want`; `if` blocks are skipped
        (the upward shift of Exp_Spline is modelled by hand and validated numerically)"""
        env, out = {}, {}
        for st in fn.body:
            if isinstance(st, ast.Assign) and len(st.targets) == 1 and isinstance(st.targets[0], ast.Name):
                name = st.targets[0].id
                v = st.value
                if name in want:
                    node = v
                    if isinstance(node, ast.Call) and node.args:      # np.array([...]) / np.reshape(X, ..)
                        if isinstance(node.func, ast.Attribute) and node.func.attr == "reshape":
                            continue
                        node = node.args[0]
                    out[name] = self.listexpr(node, env)
                    continue
                try:
                    env[name] = self.expr(v, env)
                except Untranslatable:
                    pass
        return out

    def listexpr(self, node, env):
        if isinstance(node, (ast.List, ast.Tuple)):
            return [self.listexpr(x, env) for x in node.elts]
        return self.expr(node, env)


def lean_list(x):
    if isinstance(x, list):
        return "[" + ", ".join(lean_list(y) for y in x) + "]"
    return lean(x)


def gen_splines(repo, outdir, summary):
    path = os.path.join(repo, "atsim/potentials/spline/__init__.py")
    src = open(path).read()
    tree = ast.parse(src)
    classes = {n.name: n for n in tree.body if isinstance(n, ast.ClassDef)}
    out = ["import AtsimModel.Model.Expr",
           "/-! GENERATED by translator/py2lean.py from atsim/potentials/spline/__init__.py - do not edit.",
           "    Exp_Spline symbols: param 0=sx 1=ex 2=sy 3=ey (after the upward shift) 4=sdydx 5=edydx 6=sddydx 7=eddydx",
           "    Buck4_Spline symbols: param 0=r_dp 1=r_min 2=r_ap 3=dp.v 4=dp.deriv 5=dp.deriv2 6=ap.v 7=ap.deriv 8=ap.deriv2 -/",
           "namespace Atsim.Gen", "open Atsim", ""]
    res = {}

    def method(cls, name):
        for n in classes[cls].body:
            if isinstance(n, ast.FunctionDef) and n.name == name:
                return n
        raise Untranslatable("no %s.%s" % (cls, name))
    try:
        mt = MatrixTranslator(src, {"self.detach_point.r": 0, "self.attach_point.r": 1, "self.detach_point.v": 2, "self.attach_point.v": 3,
                                    "self.detach_point.deriv": 4, "self.attach_point.deriv": 5, "self.detach_point.deriv2": 6, "self.attach_point.deriv2": 7})
        got = mt.run(method("Exp_Spline", "_init_spline_coefficients"), {"A", "B"})
        A, B = got["A"], got["B"]
        if len(A) != 6 or any(len(r) != 6 for r in A) or len(B) != 6:
            raise Untranslatable("Exp_Spline system is not 6x6")
        res["exp"] = True
    except (Untranslatable, KeyError) as e:
        A, B = [[("bad",)]], [("bad",)]
        res["exp"] = str(e)
    out.append("def expA : List (List E) := " + lean_list(A))
    out.append("def expB : List E := " + lean_list(B))
    out.append("")
    try:
        mt = MatrixTranslator(src, {"self.detach_point.r": 0, "self.r_min": 1, "self.attach_point.r": 2, "self.detach_point.v": 3, "self.detach_point.deriv": 4,
                                    "self.detach_point.deriv2": 5, "self.attach_point.v": 6, "self.attach_point.deriv": 7, "self.attach_point.deriv2": 8})
        got = mt.run(method("Buck4_Spline", "_init_spline_coefficients"), {"M", "V"})
        M, V = got["M"], got["V"]
        if len(M) != 100 or len(V) != 10:
            raise Untranslatable("Buck4_Spline system is not 10x10")
        M = [M[i * 10:(i + 1) * 10] for i in range(10)]
        res["buck4"] = True
    except (Untranslatable, KeyError) as e:
        M, V = [[("bad",)]], [("bad",)]
        res["buck4"] = str(e)
    out.append("def buck4M : List (List E) := " + lean_list(M))
    out.append("def buck4V : List E := " + lean_list(V))
    out += ["", "end Atsim.Gen", ""]
    changed = write_if_changed(os.path.join(outdir, "Splines.lean"), "\n".join(out))
    summary["splines"] = dict(changed=changed, systems=res)



# ----------------------------------------------------------------------------------------------------------------------
class KernelTranslator(object):
    """Arithmetic kernels of the writers and of the [Tabulation] grid rules: ONE expression picked out of a function (a return
    value, the right-hand side of an assignment or augmented assignment, a yielded value, an argument of a call, an element of a
    `%`-format tuple, the element expression of a list comprehension) and translated with a declared list of free operands
    (names, attribute chains, or whole sub-expressions given by their source text) as parameters 0..n-1."""

    def __init__(self, src, params):
        self.src = src
        self.params = {p.replace(" ", ""): i for i, p in enumerate(params)}

    def key(self, e):
        seg = ast.get_source_segment(self.src, e)
        return None if seg is None else seg.replace(" ", "")

    def expr(self, e, env):
        k = self.key(e)
        if k in self.params:
            return ("param", self.params[k])
        if isinstance(e, ast.Constant) and isinstance(e.value, (int, float)) and not isinstance(e.value, bool):
            return lit_of_text(ast.get_source_segment(self.src, e))
        if isinstance(e, ast.Name):
            if e.id in env:
                return env[e.id]
            raise Untranslatable("free name %s" % e.id)
        if isinstance(e, ast.UnaryOp) and isinstance(e.op, ast.USub):
            return ("neg", self.expr(e.operand, env))
        if isinstance(e, ast.BinOp):
            if isinstance(e.op, ast.Pow):
                n = FormTranslator.int_literal(e.right)
                if n is None or n < 0:
                    raise Untranslatable("non-literal power")
                return ("npow", self.expr(e.left, env), n)
            op = {ast.Add: "add", ast.Sub: "sub", ast.Mult: "mul", ast.Div: "div"}.get(type(e.op))
            if op is None:
                raise Untranslatable("operator %s" % type(e.op).__name__)
            return (op, self.expr(e.left, env), self.expr(e.right, env))
        if isinstance(e, ast.Call):
            f = e.func
            if isinstance(f, ast.Name) and f.id == "float" and len(e.args) == 1 and not e.keywords:
                return self.expr(e.args[0], env)
            if isinstance(f, ast.Attribute) and isinstance(f.value, ast.Name) and f.value.id == "math" and f.attr in ("exp", "log", "sqrt") and len(e.args) == 1:
                return (f.attr, self.expr(e.args[0], env))
            raise Untranslatable("call %s" % (self.key(e) or "?")[:40])
        raise Untranslatable("expression %s" % (self.key(e) or type(e).__name__)[:40])


class _OperandRenamer(ast.NodeTransformer):
    """rewrites the declared operands of a kernel to the names _p0, _p1, ... so that the harness can evaluate the ORIGINAL expression with Python itself
    (translator validation: Lean evaluation of the generated term vs Python evaluation of the source expression on the same operand values)"""

    def __init__(self, src, params):
        self.src, self.params = src, {p.replace(" ", ""): i for i, p in enumerate(params)}

    def visit(self, node):
        seg = ast.get_source_segment(self.src, node) if isinstance(node, ast.expr) else None
        if seg is not None and seg.replace(" ", "") in self.params:
            return ast.copy_location(ast.Name(id="_p%d" % self.params[seg.replace(" ", "")], ctx=ast.Load()), node)
        return self.generic_visit(node)


def py_render(src, node, params):
    import copy
    return ast.unparse(ast.fix_missing_locations(_OperandRenamer(src, params).visit(copy.deepcopy(node))))


def _find_function(tree, path):
    node = tree
    for part in path.split("."):
        nxt = None
        for n in ast.walk(node):
            if n is not node and isinstance(n, (ast.FunctionDef, ast.ClassDef)) and n.name == part:
                nxt = n
                break
        if nxt is None:
            raise Untranslatable("no %s" % path)
        node = nxt
    return node


def _ordered(node):
    """statements / expressions of a function in source order (nested blocks included, nested function definitions excluded)"""
    out = []

    def visit(n):
        for c in ast.iter_child_nodes(n):
            if isinstance(c, (ast.FunctionDef, ast.ClassDef, ast.Lambda)):
                continue
            out.append(c)
            visit(c)
    visit(node)
    out.sort(key=lambda n: (getattr(n, "lineno", 0), getattr(n, "col_offset", 0)))
    return out


PICKED = []      # (python-evaluable source of the expression(s) picked by the last pick_kernel call, over _p0.. and the straight-line names before it)


def pick_kernel(src, fn, pick, params):
    """-> list of terms (one for most kinds, several for `callargs`)"""
    del PICKED[:]
    kt = KernelTranslator(src, params)
    nodes = _ordered(fn)
    kind = pick[0]
    env = {}
    pre = []

    def done(nodes_):
        for x in nodes_:
            PICKED.append("\n".join(pre + ["_result = " + (x if isinstance(x, str) else py_render(src, x, params))]))

    def straight_env(upto_line):
        # earlier plain assignments of the function (any nesting depth) whose value translates extend the environment
        for n in nodes:
            if not hasattr(n, "lineno"):
                continue
            if n.lineno >= upto_line:
                break
            if isinstance(n, ast.Assign) and len(n.targets) == 1 and isinstance(n.targets[0], ast.Name):
                try:
                    env[n.targets[0].id] = kt.expr(n.value, env)
                    pre.append("%s = %s" % (n.targets[0].id, py_render(src, n.value, params)))
                except Untranslatable:
                    env.pop(n.targets[0].id, None)
    if kind == "return":
        c = [n for n in nodes if isinstance(n, ast.Return) and n.value is not None]
        n = c[pick[1]]
        straight_env(n.lineno)
        done([n.value])
        return [kt.expr(n.value, env)]
    if kind == "yield":
        c = [n for n in nodes if isinstance(n, ast.Yield) and n.value is not None]
        n = c[pick[1]]
        straight_env(n.lineno)
        done([n.value])
        return [kt.expr(n.value, env)]
    if kind == "assign":
        c = [n for n in nodes if isinstance(n, ast.Assign) and len(n.targets) == 1 and isinstance(n.targets[0], ast.Name) and n.targets[0].id == pick[1]]
        n = c[pick[2]]
        straight_env(n.lineno)
        done([n.value])
        return [kt.expr(n.value, env)]
    if kind == "augassign":
        c = [n for n in nodes if isinstance(n, ast.AugAssign) and isinstance(n.target, ast.Name) and n.target.id == pick[1]]
        n = c[pick[2]]
        op = {ast.Add: "add", ast.Sub: "sub", ast.Mult: "mul", ast.Div: "div"}.get(type(n.op))
        if op is None:
            raise Untranslatable("augmented operator")
        done(["(%s) %s (%s)" % (py_render(src, n.target, params), {"add": "+", "sub": "-", "mul": "*", "div": "/"}[op], py_render(src, n.value, params))])
        return [(op, kt.expr(n.target, env), kt.expr(n.value, env))]
    if kind == "callargs":
        c = [n for n in nodes if isinstance(n, ast.Call) and ((isinstance(n.func, ast.Name) and n.func.id == pick[1]) or (isinstance(n.func, ast.Attribute) and n.func.attr == pick[1]))]
        n = c[pick[3] if len(pick) > 3 else 0]
        straight_env(n.lineno)
        done([n.args[i] for i in pick[2]])
        return [kt.expr(n.args[i], env) for i in pick[2]]
    if kind == "percent":
        c = [n for n in nodes if isinstance(n, ast.BinOp) and isinstance(n.op, ast.Mod) and isinstance(n.left, ast.Constant) and isinstance(n.left.value, str) and isinstance(n.right, ast.Tuple)]
        n = c[pick[1]]
        straight_env(n.lineno)
        done([n.right.elts[pick[2]]])
        return [kt.expr(n.right.elts[pick[2]], env)]
    if kind == "listcomp":
        c = [n for n in nodes if isinstance(n, ast.Assign) and len(n.targets) == 1 and isinstance(n.targets[0], ast.Name) and n.targets[0].id == pick[1] and isinstance(n.value, ast.ListComp)]
        n = c[pick[2]]
        straight_env(n.lineno)
        done([n.value.elt])
        return [kt.expr(n.value.elt, env)]
    raise Untranslatable("unknown pick %r" % (pick,))


KERNELS = [
    # name, file (under atsim/potentials), function path, pick, operands (= parameters 0..)
    ("pair_dr", "pair_tabulation.py", "PairTabulation_AbstractBase.dr", ("return", 0), ["self.cutoff", "self.nr"]),
    ("eam_drho", "eam_tabulation.py", "_EAMTabulationAbstractbase.drho", ("return", 0), ["self.cutoff_rho", "self.nrho"]),
    ("r_iter", "pair_tabulation.py", "_r_value_iterator", ("yield", 0), ["n", "tabulation.cutoff", "tabulation.nr"]),
    ("rho_iter", "eam_tabulation.py", "_rho_value_iterator", ("yield", 0), ["n", "tabulation.cutoff_rho", "tabulation.nrho"]),
    ("lammps_args", "pair_tabulation.py", "LAMMPS_PairTabulation.write", ("callargs", "lmp_writePotentials", [1, 2, 3]), ["self.cutoff", "self.nr", "self.dr"]),
    ("dlpoly_args", "pair_tabulation.py", "DLPoly_PairTabulation.write", ("callargs", "dlpoly_writePotentials", [1, 2]), ["self.cutoff", "self.nr"]),
    ("setfl_args", "eam_tabulation.py", "SetFL_EAMTabulation.write", ("callargs", "writeSetFL", [0, 1, 2, 3]), ["self.nrho", "self.drho", "self.nr", "self.dr"]),
    ("setfl_fs_args", "eam_tabulation.py", "SetFL_FS_EAMTabulation.write", ("callargs", "writeSetFLFinnisSinclair", [0, 1, 2, 3]), ["self.nrho", "self.drho", "self.nr", "self.dr"]),
    ("tabeam_args", "eam_tabulation.py", "TABEAM_EAMTabulation.write", ("callargs", "writeTABEAM", [0, 1, 2, 3]), ["self.nrho", "self.drho", "self.nr", "self.dr"]),
    ("tabeam_fs_args", "eam_tabulation.py", "TABEAM_FinnisSinclair_EAMTabulation.write", ("callargs", "writeTABEAMFinnisSinclair", [0, 1, 2, 3]), ["self.nrho", "self.drho", "self.nr", "self.dr"]),
    ("lammps_row_r", "_lammps_writeTABLE.py", "_writeSinglePotential", ("assign", "r", 0), ["minr", "maxr", "gridPoints", "n"]),
    ("dlpoly_mesh", "_dlpoly_writeTABLE.py", "writePotentials", ("assign", "meshResolution", 0), ["cutoff", "gridPoints"]),
    ("dlpoly_r_step", "_dlpoly_writeTABLE.py", "_writePotential", ("augassign", "r", 0), ["r", "meshResolution"]),
    ("dlpoly_r_step_force", "_dlpoly_writeTABLE.py", "_writePotential", ("augassign", "r", 1), ["r", "meshResolution"]),
    ("dlpoly_force", "_dlpoly_writeTABLE.py", "_calculateForce", ("return", 0), ["r", "pot.force(r)"]),
    ("setfl_rho", "_lammpsWriteEAM.py", "_writeSetFLEmbeddingFunction", ("assign", "rho", 0), ["i", "drho"]),
    ("setfl_dens_r", "_lammpsWriteEAM.py", "_writeDensityFunction", ("assign", "r", 0), ["i", "dr"]),
    ("setfl_pair_r", "_lammpsWriteEAM.py", "_writeSetFLPairPots", ("assign", "r", 0), ["k", "dr"]),
    ("setfl_pair_scale", "_lammpsWriteEAM.py", "_writeSetFLPairPots", ("augassign", "val", 0), ["val", "r"]),
    ("funcfl_cutoff", "_lammpsWriteEAM.py", "writeFuncFL", ("assign", "cutoff", 0), ["dr", "nr"]),
    ("funcfl_charge", "_lammpsWriteEAM.py", "writeFuncFL", ("listcomp", "charges", 1), ["charge"]),
    ("funcfl_rphi", "_lammpsWriteEAM.py", "writeFuncFL", ("listcomp", "charges", 0), ["pairpot.energy(sep)", "sep"]),
    ("tabeam_sample", "_dlpoly_writeTABEAM.py", "_tabulateFunction", ("callargs", "func", [0]), ["i", "step"]),
    ("tabeam_embe_end", "_dlpoly_writeTABEAM.py", "_writeEmbeddingFunction", ("percent", 0, 2), ["nrho", "drho"]),
    ("tabeam_dens_end_fs", "_dlpoly_writeTABEAM.py", "_writeDensityFunction", ("percent", 0, 3), ["nr", "dr"]),
    ("tabeam_dens_end", "_dlpoly_writeTABEAM.py", "_writeDensityFunction", ("percent", 1, 2), ["nr", "dr"]),
    ("tabeam_pair_end", "_dlpoly_writeTABEAM.py", "_writePairPotential", ("percent", 0, 3), ["nr", "dr"]),
    ("tabeam_numpots", "_dlpoly_writeTABEAM.py", "writeTABEAM", ("assign", "numpots", 1), ["len(eampots)"]),
    ("tabeam_numpots_fs", "_dlpoly_writeTABEAM.py", "writeTABEAMFinnisSinclair", ("assign", "numpots", 1), ["len(eampots)"]),
    ("initcutoff_cutoff", "config/_config_parser.py", "_TabulationCutoff._init_cutoff", ("assign", "cutoff", 1), ["nr", "dr"]),
    ("plot_step", "__init__.py", "plotToFile", ("assign", "step", 0), ["lowx", "highx", "steps"]),
    ("plot_v", "__init__.py", "plotToFile", ("assign", "v", 0), ["lowx", "i", "step"]),
]


def gen_kernels(repo, outdir, summary):
    out = ["import AtsimModel.Model.Expr",
           "/-! GENERATED by translator/py2lean.py - do not edit.  Arithmetic kernels of the writers and grid rules: one expression each,",
           "    picked out of the named function of /repo's current source; operands are parameters 0.. in the order listed. -/",
           "namespace Atsim.Gen", "open Atsim", ""]
    res, table, srcs = {}, [], {}
    cache = {}
    for name, rel, path, pick, params in KERNELS:
        try:
            fp = os.path.join(repo, "atsim/potentials", rel)
            if fp not in cache:
                src = open(fp).read()
                cache[fp] = (src, ast.parse(src))
            src, tree = cache[fp]
            fn = _find_function(tree, path)
            terms = pick_kernel(src, fn, pick, params)
            res[name] = True
            if pick[0] == "callargs" and len(pick[2]) > 1:
                for j, code in enumerate(PICKED):
                    srcs["%s.%d" % (name, j)] = dict(code=code, operands=len(params))
            else:
                srcs[name] = dict(code=PICKED[0], operands=len(params))
        except (Untranslatable, IndexError, OSError, SyntaxError) as e:
            terms = [("bad",)] * (len(pick[2]) if pick[0] == "callargs" else 1)
            res[name] = "%s: %s" % (type(e).__name__, e)
        out.append("/-- %s, `%s` (%s); operands: %s -/" % (rel, path, " ".join(str(x) for x in pick), ", ".join("%d=%s" % (i, p) for i, p in enumerate(params))))
        if pick[0] == "callargs" and len(pick[2]) > 1:
            out.append("def k_%s : List E := %s" % (name, lean_list(terms)))
            for j, t in enumerate(terms):
                table.append('("%s.%d", %s, %d)' % (name, j, lean(t), len(params)))
        else:
            out.append("def k_%s : E := %s" % (name, lean(terms[0])))
            table.append('("%s", k_%s, %d)' % (name, name, len(params)))
        out.append("")
    out.append("/-- (name, term, number of operands) for the driver's evaluation -/")
    out.append("def kernelTable : List (String × E × Nat) := [\n  " + ",\n  ".join(table) + "]")
    out += ["", "end Atsim.Gen", ""]
    changed = write_if_changed(os.path.join(outdir, "Kernels.lean"), "\n".join(out))
    summary["kernels"] = dict(changed=changed, kernels=res, python=srcs)


# ----------------------------------------------------------------------------------------------------------------------
def main():
    repo, outdir = sys.argv[1], sys.argv[2]
    summary = {}
    gen_forms(repo, outdir, summary)
    gen_combinators(repo, outdir, summary)
    gen_splines(repo, outdir, summary)
    gen_kernels(repo, outdir, summary)
    import py2lean_logic
    py2lean_logic.gen_logic(repo, outdir, summary, write_if_changed)
    bad = []
    for k, e in summary["forms"]["forms"].items():
        for m, v in e.items():
            if v is not True:
                bad.append("%s.%s: %s" % (k, m, v))
    for k, v in summary["combinators"]["closures"].items():
        if v is not True:
            bad.append("%s: %s" % (k, v))
    for k, v in summary["splines"]["systems"].items():
        if v is not True:
            bad.append("spline system %s: %s" % (k, v))
    for k, v in summary["kernels"]["kernels"].items():
        if v is not True:
            bad.append("kernel %s: %s" % (k, v))
    for k, v in summary["logic"]["procs"].items():
        if v is not True:
            bad.append("logic %s: %s" % (k, v))
    print(json.dumps(dict(summary=dict(untranslatable=bad, forms_changed=summary["forms"]["changed"], combinators_changed=summary["combinators"]["changed"]),
                          detail=summary)))


if __name__ == "__main__":
    main()
