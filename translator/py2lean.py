#!/usr/bin/env python3
"""Translator stub (extended below): writes Gen/*.lean from /repo's current source; prints a JSON summary."""
import json, sys
print(json.dumps({"summary": {}}))
