"""Development aid: with ATSIM_REPO=<copy of the repository> in the environment, `import atsim` resolves to that copy instead of the
installed /repo (used to run the checks against scratch copies, e.g. seeded changes in parallel, without touching /repo).
The registered commands never set it: they run against /repo itself."""
import os
import sys

_repo = os.environ.get("ATSIM_REPO")
if _repo and os.path.realpath(_repo) != os.path.realpath("/repo"):
    import atsim
    atsim.__path__.insert(0, os.path.join(os.path.realpath(_repo), "atsim"))
    for _k in list(sys.modules):
        if _k.startswith("atsim."):
            sys.modules.pop(_k)
