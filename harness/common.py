"""Shared machinery of the checks: PRNG, Lean build/audit/driver, findings, evidence, replays.

Every check is `./check Cxx [--tier quick|thorough]`; see DESIGN.md sections 2, 3 and 5.
"""
import collections
import fcntl
import hashlib
import json
import os
import random
import re
import subprocess
import sys
import time
from fractions import Fraction as Fr

ROOT = os.path.dirname(os.path.dirname(os.path.abspath(__file__)))
# Development aids (never set by the registered commands): ATSIM_REPO = scratch copy of the repository to check instead of /repo,
# ATSIM_LEAN_DIR = private copy of lean/ (its Gen/ files are regenerated from ATSIM_REPO), ATSIM_OUT_DIR = where evidence/ and replays/ go.
LEAN_DIR = os.environ.get("ATSIM_LEAN_DIR") or os.path.join(ROOT, "lean")
OUT_DIR = os.environ.get("ATSIM_OUT_DIR") or ROOT
REPO = os.environ.get("ATSIM_REPO", "/repo")
PY = "/venv/bin/python"

STD_AXIOMS = {"propext", "Classical.choice", "Quot.sound"}
FORBIDDEN = re.compile(r"\bsorry\b|\badmit\b|^\s*axiom\s|native_decide|bv_decide|implemented_by|\bunsafe\s|maxHeartbeats\s+0\b")

TRUSTED_BASE = [
    "Lean 4.33.0 kernel; Mathlib v4.33.0 (single modules)",
    "axioms allowed: propext, Classical.choice, Quot.sound (audited by collectAxioms on every run); no sorry/native_decide/bv_decide/own axioms",
    "translator/py2lean.py (Python ast -> Lean terms), validated each run by evaluating the generated terms at Float against the Python originals",
    "correspondence harness: tokenisers, tracer encoding, exception->outcome mapping, generators",
]


class InfraError(Exception):
    pass


# --------------------------------------------------------------------------------------
# exact numbers
def fq(q):
    q = Fr(q)
    return str(q.numerator) if q.denominator == 1 else "%d/%d" % (q.numerator, q.denominator)


def dec(s):
    """printed decimal -> exact rational"""
    return Fr(s)


# --------------------------------------------------------------------------------------
# Lean: build, audit, driver
class _Lock(object):
    def __enter__(self):
        self.f = open(os.path.join(LEAN_DIR if os.environ.get("ATSIM_LEAN_DIR") else ROOT, ".lock"), "w")
        fcntl.flock(self.f, fcntl.LOCK_EX)
        return self

    def __exit__(self, *a):
        fcntl.flock(self.f, fcntl.LOCK_UN)
        self.f.close()


def _run(cmd, cwd=None, inp=None, timeout=3600):
    p = subprocess.run(cmd, cwd=cwd, input=inp, capture_output=True, text=True, timeout=timeout)
    return p.returncode, p.stdout, p.stderr


def regenerate():
    """Run the translator: /repo's current working tree -> lean/AtsimModel/Gen/*.lean (written only when changed)."""
    rc, out, err = _run([PY, os.path.join(ROOT, "translator", "py2lean.py"), REPO, os.path.join(LEAN_DIR, "AtsimModel", "Gen")])
    if rc != 0:
        raise InfraError("translator crashed:\n" + out + err)
    try:
        return json.loads(out)
    except Exception:
        raise InfraError("translator output unreadable:\n" + out + err)


_ERR_RE = re.compile(r"^error: (?:\./)?(?:\./)?([A-Za-z0-9_/.]+\.lean):(\d+):(\d+): (.*)$")


def lean_build(prop):
    """Regenerate Gen/, build the driver and the property's theorem file.

    Returns dict(ok, driver_ok, broken=[{file,line,msg,decl}], log, translator=...)."""
    with _Lock():
        tr = regenerate()
        t0 = time.time()
        rc_d, out_d, err_d = _run(["lake", "build", "AtsimModel.Driver.All"], cwd=LEAN_DIR)
        props_mod = "AtsimModel.Props.%s" % prop
        have_props = os.path.exists(os.path.join(LEAN_DIR, "AtsimModel", "Props", prop + ".lean"))
        rc_p, out_p, err_p = (0, "", "")
        if have_props:
            rc_p, out_p, err_p = _run(["lake", "build", props_mod], cwd=LEAN_DIR)
        wall = time.time() - t0
    broken = []
    log = out_p + err_p
    if rc_p != 0:
        lines = log.split("\n")
        for i, l in enumerate(lines):
            m = _ERR_RE.match(l.strip())
            if m:
                broken.append(dict(file=m.group(1), line=int(m.group(2)), msg=(m.group(4) + " " + " ".join(lines[i + 1:i + 3]))[:400]))
        for b in broken:
            b["decl"] = _enclosing_decl(os.path.join(LEAN_DIR, b["file"]), b["line"])
        if not broken:
            broken.append(dict(file=props_mod, line=0, msg=log[-600:], decl="?"))
    return dict(ok=(rc_p == 0), driver_ok=(rc_d == 0), driver_log=(out_d + err_d)[-3000:], broken=broken,
                log=log[-4000:], translator=tr, wall=wall, have_props=have_props)


def _enclosing_decl(path, line):
    try:
        src = open(path).read().split("\n")
    except Exception:
        return "?"
    for i in range(min(line, len(src)) - 1, -1, -1):
        m = re.match(r"\s*(?:private\s+|protected\s+|noncomputable\s+)*(theorem|lemma|def|example|instance)\s+([^\s:({\[]+)?", src[i])
        if m:
            return (m.group(2) or m.group(1))
    return "?"


AUDIT_TMPL = """import Lean
import AtsimModel.Props.%(prop)s
open Lean Elab Command
run_cmd do
  let env ← getEnv
  let some idx := env.getModuleIdx? `AtsimModel.Props.%(prop)s | throwError "module not found"
  let names := env.header.moduleData[idx.toNat]!.constNames
  for n in names do
    if let some (.thmInfo _) := env.find? n then
      if !n.isInternal && (`Atsim.%(prop)s).isPrefixOf n then
        let ax ← collectAxioms n
        IO.println s!"AUDIT {n} :: {ax.toList}"
"""


def lean_audit(prop):
    """#print-axioms-style audit of every theorem declared in Props/<prop>.lean. Returns list of (name, [axioms])."""
    d = os.path.join(LEAN_DIR, ".audit")
    os.makedirs(d, exist_ok=True)
    path = os.path.join(d, "Audit_%s.lean" % prop)
    with open(path, "w") as f:
        f.write(AUDIT_TMPL % dict(prop=prop))
    rc, out, err = _run(["lake", "env", "lean", path], cwd=LEAN_DIR)
    if rc != 0:
        raise InfraError("audit failed:\n" + out + err)
    res = []
    for l in out.split("\n"):
        m = re.match(r"AUDIT (\S+) :: \[(.*)\]", l)
        if m:
            ax = [a.strip() for a in m.group(2).split(",") if a.strip()]
            res.append((m.group(1), ax))
    return res


def grep_forbidden(prop_files=None):
    """Scan Lean sources (comments stripped) for sorry/admit/axiom/native_decide/... Returns list of hits."""
    hits = []
    base = os.path.join(LEAN_DIR, "AtsimModel")
    for dp, dn, fn in os.walk(base):
        for f in fn:
            if not f.endswith(".lean"):
                continue
            p = os.path.join(dp, f)
            src = open(p).read()
            src = re.sub(r"/-.*?-/", lambda m: "\n" * m.group(0).count("\n"), src, flags=re.S)
            for i, l in enumerate(src.split("\n")):
                l = l.split("--")[0]
                if FORBIDDEN.search(l):
                    hits.append("%s:%d: %s" % (os.path.relpath(p, LEAN_DIR), i + 1, l.strip()[:120]))
    return hits


def lean_query(reqs, timeout=1800):
    """Send JSON requests (list of dicts) through the line-protocol driver; returns list of answers.

    An answer is the value under "ok"; a driver-side error raises InfraError (bad request = harness bug)."""
    if not reqs:
        return []
    inp = "\n".join(json.dumps(r, separators=(",", ":")) for r in reqs) + "\n"
    rc, out, err = _run(["lake", "env", "lean", "--run", "Main.lean"], cwd=LEAN_DIR, inp=inp, timeout=timeout)
    lines = [l for l in out.split("\n") if l.strip()]
    if rc != 0 or len(lines) != len(reqs):
        raise InfraError("lean driver failed rc=%s answers=%d/%d\n%s" % (rc, len(lines), len(reqs), (err or out)[-2000:]))
    res = []
    for i, l in enumerate(lines):
        j = json.loads(l)
        if "ok" not in j:
            raise InfraError("lean driver rejected request %d: %s\n%s" % (i, j.get("error"), json.dumps(reqs[i])[:500]))
        res.append(j["ok"])
    return res


# --------------------------------------------------------------------------------------
# findings
def load_findings():
    p = os.path.join(ROOT, "known_findings.json")
    try:
        return json.load(open(p)).get("findings", [])
    except Exception:
        return []


class Run(object):
    """State of one check run: counts, samples, failing inputs, broken ties; decides and writes evidence."""

    def __init__(self, prop, tier, seed):
        self.prop, self.tier, self.seed = prop, tier, seed
        self.rng = random.Random((seed * 1000003) ^ int(hashlib.sha1(prop.encode()).hexdigest()[:8], 16))
        self.t0 = time.time()
        self.evaluations = 0
        self.nontrivial = set()
        self.samples = []
        self.dist = collections.Counter()
        self.failures = []       # concrete failing inputs on the implementation
        self.ties = []           # broken theorem / correspondence / translator ties without (yet) a failing input
        self.traces = 0
        self.obligations = []    # (theorem, axioms)
        self.discharged = 0
        self.notes = []
        self.extra = {}
        self.assumptions = []
        self.exhaustive = False
        self.rule = ""

    @property
    def quick(self):
        return self.tier == "quick"

    def n(self, quick, thorough):
        return quick if self.quick else thorough

    def case(self, key=None, sample=None, kind=None):
        """count one explored case; `key` (hashable) identifies it for the distinct/non-trivial count"""
        self.evaluations += 1
        if key is not None:
            self.nontrivial.add(key if isinstance(key, (str, int, tuple)) else json.dumps(key, sort_keys=True, default=str))
        if kind is not None:
            self.dist[kind] += 1
        if sample is not None and len(self.samples) < 6:
            self.samples.append(sample)

    def fail(self, key, what, payload):
        """a concrete input on which the property fails on the real code"""
        self.failures.append(dict(key=key, what=what, payload=payload))

    def tie_broken(self, kind, name, detail=""):
        self.ties.append(dict(kind=kind, name=name, detail=str(detail)[:2000]))

    # ---- decision -------------------------------------------------------------------
    def finish(self, level="proof", checker_cmd=None):
        findings = [f for f in load_findings() if f.get("property") == self.prop]
        known = {f["key"]: f for f in findings if f.get("status") == "known"}
        printed = set()
        unknown = []
        nknown = 0
        for f in self.failures:
            if f["key"] in known:
                nknown += 1
                if f["key"] not in printed:
                    printed.add(f["key"])
                    print("KNOWN-FINDING: property=%s %s [%s]" % (self.prop, known[f["key"]].get("what", f["what"]), f["key"]))
            else:
                unknown.append(f)
        rc = 0
        replay = None
        if unknown:
            rc = 1
            f = unknown[0]
            replay = self._write_replay(dict(property=self.prop, kind="failing-input", key=f["key"], what=f["what"],
                                             case=f["payload"], other_failures=[dict(key=g["key"], what=g["what"]) for g in unknown[1:20]],
                                             broken_ties=self.ties[:10], tier=self.tier, seed=self.seed,
                                             reproduce="cd /verif && ./check %s --replay <this file>" % self.prop))
            print("VIOLATION property=%s replay=%s" % (self.prop, replay))
            print("  what: %s" % f["what"])
        elif self.ties:
            rc = 1
            replay = self._write_replay(dict(property=self.prop, kind="broken-tie", broken_ties=self.ties[:20],
                                             note="theorem(s)/correspondence named here no longer check against /repo's current source; "
                                                  "the failing-input search over the implementation found no input on which the property's predicate fails",
                                             tier=self.tier, seed=self.seed))
            print("VIOLATION property=%s replay=%s no-failing-input-found" % (self.prop, replay))
            for t in self.ties[:5]:
                print("  broken %s: %s %s" % (t["kind"], t["name"], t["detail"][:200]))
        wall = time.time() - self.t0
        try:
            from tracers import ORACLE
            if any(ORACLE.values()):
                self.notes.append("numerical derivative reference (Ridders extrapolation with error estimate): converged and used at %d points, not converged and skipped at %d points" % (
                    ORACLE["reference_converged"], ORACLE["reference_not_converged"]))
        except Exception:
            pass
        cov = dict(
            obligations=len(self.obligations), discharged=self.discharged,
            checker_cmd=checker_cmd or ("cd lean && lake build AtsimModel.Props.%s && lake env lean .audit/Audit_%s.lean" % (self.prop, self.prop)),
            trusted_base=TRUSTED_BASE + self.assumptions,
            theorems=[dict(name=n, axioms=a) for n, a in self.obligations][:200],
            evaluations=self.evaluations, distinct_nontrivial=len(self.nontrivial),
            rule=self.rule, samples=self.samples or ["(none)"], traces_validated_against_impl=self.traces,
            distribution=dict(self.dist), exhaustive=self.exhaustive,
            known_findings_seen=sorted(printed), failures_known=nknown, broken_ties=self.ties[:10], notes=self.notes,
        )
        cov.update(self.extra)
        ev = dict(property_id=self.prop, tier=self.tier, seed=self.seed, level=level, coverage=cov,
                  assumptions=self.assumptions, wall_s=round(wall, 2), violations=len(unknown) + (1 if (not unknown and self.ties) else 0))
        os.makedirs(os.path.join(OUT_DIR, "evidence"), exist_ok=True)
        with open(os.path.join(OUT_DIR, "evidence", self.prop + ".json"), "w") as f:
            json.dump(ev, f, indent=1, default=str)
            f.write("\n")
        print("%s %s tier=%s seed=%d: theorems %d/%d, cases %d (distinct non-trivial %d), impl traces %d, known-finding hits %d, %.1fs -> %s" % (
            self.prop, "PASS" if rc == 0 else "FAIL", self.tier, self.seed, self.discharged, len(self.obligations), self.evaluations,
            len(self.nontrivial), self.traces, nknown, wall, "exit %d" % rc))
        return rc

    def _write_replay(self, obj):
        os.makedirs(os.path.join(OUT_DIR, "replays"), exist_ok=True)
        s = json.dumps(obj, indent=1, default=str, sort_keys=True)
        name = "replays/%s-%s.json" % (self.prop, hashlib.sha1(s.encode()).hexdigest()[:10])
        with open(os.path.join(OUT_DIR, name), "w") as f:
            f.write(s + "\n")
        return name


def proof_stage(run, extra_obligation_names=()):
    """Steps 1-2 of every run: regenerate + build + audit.  Records obligations; broken ones become ties."""
    b = lean_build(run.prop)
    if not b["driver_ok"]:
        raise InfraError("driver build failed:\n" + b["driver_log"])
    run.extra["lean_build_s"] = round(b["wall"], 1)
    run.extra["translator"] = b["translator"].get("summary", {})
    run.translator_detail = b["translator"].get("detail", {})
    hits = grep_forbidden()
    if hits:
        raise InfraError("forbidden tokens in Lean sources: " + "; ".join(hits[:5]))
    if not b["have_props"]:
        return b
    if not b["ok"]:
        seen = set()
        for br in b["broken"]:
            k = (br["file"], br["decl"])
            if k in seen:
                continue
            seen.add(k)
            run.tie_broken("theorem", "%s (%s:%d)" % (br["decl"], br["file"], br["line"]), br["msg"])
        # obligations: count the declared theorems textually so that obligations > discharged
        src = open(os.path.join(LEAN_DIR, "AtsimModel", "Props", run.prop + ".lean")).read()
        names = re.findall(r"^\s*theorem\s+(\S+)", src, flags=re.M)
        run.obligations = [(n, ["<not checked: build broken>"]) for n in names]
        run.discharged = max(0, len(names) - len(seen))
        return b
    aud = lean_audit(run.prop)
    run.obligations = aud
    bad = [(n, a) for n, a in aud if not set(a) <= STD_AXIOMS]
    run.discharged = len(aud) - len(bad)
    for n, a in bad:
        run.tie_broken("theorem", n, "depends on non-standard axioms %s" % a)
    if not aud:
        raise InfraError("audit found no theorems in Props/%s.lean" % run.prop)
    if run.tier == "thorough":
        # independent re-check of the compiled theorems by the toolchain's external checker (replays every declaration of the module through the kernel)
        mods = ["AtsimModel.Props.%s" % run.prop] + {"C09": ["AtsimModel.Props.C09Roundtrip"], "C06": ["AtsimModel.Lemmas.ExprReal"], "C07": ["AtsimModel.Lemmas.ExprReal"],
                                                     "C10": ["AtsimModel.Lemmas.ExprReal"]}.get(run.prop, [])
        t0 = time.time()
        rc, out, err = _run(["lake", "env", "leanchecker"] + mods, cwd=LEAN_DIR, timeout=1800)
        if rc != 0:
            run.tie_broken("theorem", "leanchecker " + " ".join(mods), (out + err)[-400:])
        run.notes.append("leanchecker %s: %s (%.1fs)" % (" ".join(mods), "accepted" if rc == 0 else "REJECTED", time.time() - t0))
    return b
