"""Built-in potential forms: parameter domains, documented formulas (hand transcription of docs/reference/potential_forms.rst
and the docstrings), translator validation against the Lean Float evaluation of the generated terms."""
import io
import math
from fractions import Fraction as Fr

from common import lean_query, InfraError
from props.C11 import me, from_me

import atsim.potentials.potentialfunctions as pfn
import atsim.potentials.potentialforms as pfo


def rnd(rng, lo, hi, nd=3):
    return round(rng.uniform(lo, hi), nd)


# parameter domains (incl. zero and negative values where the form's domain allows), r in the physically used range
DOMAIN = {
    "buck": lambda g: [g.choice([0.0, rnd(g, 50, 5000, 1), -rnd(g, 1, 100, 1)]), rnd(g, 0.1, 0.6), g.choice([0.0, rnd(g, 0, 100, 2), -rnd(g, 0, 20, 2)])],
    "bornmayer": lambda g: [g.choice([0.0, rnd(g, 50, 5000, 1), -rnd(g, 1, 100, 1)]), g.choice([rnd(g, 0.1, 0.6), -rnd(g, 0.5, 2.0)])],
    "coul": lambda g: [g.choice([-2.0, -1.1, 0.0, 0.5, 1.0, 2.4, 4.0]), g.choice([-2.0, -0.8, 0.0, 1.0, 3.0])],
    "constant": lambda g: [g.choice([0.0, rnd(g, -10, 10)])],
    "exponential": lambda g: [g.choice([0.0, rnd(g, -10, 10)]), g.choice([-6.0, -1.0, 0.0, 1.0, 2.0, 0.5, rnd(g, -4, 4, 2), 12.0])],
    "exp_spline": lambda g: [rnd(g, -2, 2) for _ in range(3)] + [rnd(g, -0.3, 0.3) for _ in range(2)] + [rnd(g, -0.02, 0.02), g.choice([0.0, rnd(g, -5, 5)])],
    "hbnd": lambda g: [g.choice([0.0, rnd(g, -100, 10000, 1)]), g.choice([0.0, rnd(g, -100, 1000, 1)])],
    "lj": lambda g: [g.choice([0.0, rnd(g, -0.1, 0.5, 4)]), g.choice([0.0, rnd(g, 0.5, 4.0, 2), -rnd(g, 0.5, 3.0, 2)])],
    "morse": lambda g: [rnd(g, -1.0, 3.0, 2), rnd(g, 0.5, 4.0, 2), g.choice([0.0, rnd(g, -2, 8, 2)])],
    "sqrt": lambda g: [g.choice([0.0, rnd(g, -10, 10)])],
    "tang_toennies": lambda g: [rnd(g, 10, 400, 1), rnd(g, 0.9, 2.2, 3), rnd(g, 1, 300, 1), rnd(g, 10, 6000, 0), rnd(g, 100, 100000, 0)],
    "zbl": lambda g: [float(g.randint(1, 92)), float(g.randint(1, 92))],
    "zero": lambda g: [],
}


def r_value(rng, name):
    lo = 1.5 if name == "tang_toennies" else 0.05
    return round(rng.uniform(lo, 30.0 if rng.random() < 0.3 else 6.0), 4)


def form_names():
    return sorted(n for n in DOMAIN if hasattr(pfn, n))


# ---------------------------------------------------------------------------------------------------------------------
# documented formulas, float evaluation (math functions), parameters in documented signature order
def doc_tang_toennies(r, A, b, C6, C8, C10):
    R = r / 0.5292

    def f2n(n, x):
        s = sum(x ** k / math.factorial(k) for k in range(2 * n + 1))
        return 1.0 - math.exp(-x) * s
    return 27.211 * (A * math.exp(-b * R) - (f2n(3, b * R) * C6 / R ** 6 + f2n(4, b * R) * C8 / R ** 8 + f2n(5, b * R) * C10 / R ** 10))


def doc_zbl_manual(r, z1, z2):
    """reference manual (docs/reference/potential_forms.rst): universal ZBL coefficients"""
    a = 0.46850 / (z1 ** 0.23 + z2 ** 0.23)
    x = r / a
    phi = 0.18175 * math.exp(-3.19980 * x) + 0.50986 * math.exp(-0.94229 * x) + 0.28022 * math.exp(-0.40290 * x) + 0.02817 * math.exp(-0.20162 * x)
    return 14.39942 * z1 * z2 / r * phi


def doc_zbl_1985(r, z1, z2):
    """the constants of the code's own reference expression (_as_sympy): ZBL 1985 set"""
    a = (0.8854 * 0.529) / (z1 ** 0.23 + z2 ** 0.23)
    return 14.39942 * (z1 * z2) / r * (0.1818 * math.exp(-3.2 * r / a) + 0.5099 * math.exp(-0.9423 * r / a) + 0.2802 * math.exp(-0.4029 * r / a) + 0.02817 * math.exp(-0.2016 * r / a))


DOC = {
    "buck": lambda r, A, rho, C: A * math.exp(-r / rho) - C / r ** 6,
    "bornmayer": lambda r, A, rho: A * math.exp(-r / rho),
    "coul": lambda r, qi, qj: qi * qj / (4.0 * math.pi * 0.0055264 * r),
    "constant": lambda r, c: c,
    "exponential": lambda r, A, n: A * r ** n,
    "exp_spline": lambda r, B0, B1, B2, B3, B4, B5, C: math.exp(B0 + B1 * r + B2 * r ** 2 + B3 * r ** 3 + B4 * r ** 4 + B5 * r ** 5) + C,
    "hbnd": lambda r, A, B: A / r ** 12 - B / r ** 10,
    "lj": lambda r, eps, sigma: 4.0 * eps * (sigma ** 12 / r ** 12 - sigma ** 6 / r ** 6),
    "morse": lambda r, gamma, r_star, D: D * (math.exp(-2.0 * gamma * (r - r_star)) - 2.0 * math.exp(-gamma * (r - r_star))),
    "sqrt": lambda r, G: G * math.sqrt(r),
    "tang_toennies": doc_tang_toennies,
    "zbl": doc_zbl_1985,
    "zero": lambda r: 0.0,
}
DOC_SIGNATURE = {
    "buck": ["A", "rho", "C"], "bornmayer": ["A", "rho"], "coul": ["qi", "qj"], "constant": ["constant"], "exponential": ["A", "n"],
    "exp_spline": ["B0", "B1", "B2", "B3", "B4", "B5", "C"], "hbnd": ["A", "B"], "lj": ["epsilon", "sigma"], "morse": ["gamma", "r_star", "D"],
    "sqrt": ["G"], "tang_toennies": ["A", "b", "C_6", "C_8", "C_10"], "zbl": ["z1", "z2"], "zero": [],
}


def close(a, b, rel, abs_=0.0):
    if isinstance(a, str) or isinstance(b, str):
        return a == b
    if math.isnan(a) or math.isnan(b):
        return math.isnan(a) and math.isnan(b)
    if a == b:
        return True          # equal infinities included
    return abs(a - b) <= rel * max(abs(a), abs(b)) + abs_


def ans_float(x):
    if isinstance(x, str):
        return {"nan": float("nan"), "inf": float("inf"), "-inf": float("-inf")}.get(x, x)
    return from_me(x)


# ---------------------------------------------------------------------------------------------------------------------
def validate_translator(run, whiches=("call", "deriv", "deriv2"), npts=150, closures=False):
    """Evaluate the generated terms at Float through the driver and the Python originals on the same arguments.
    A disagreement is a broken tie (translator), never by itself a violation."""
    rng = run.rng
    reqs, metas = [], []
    for name in form_names():
        fobj = getattr(pfn, name)
        for which in whiches:
            pts = []
            for _ in range(npts):
                ps = DOMAIN[name](rng)
                pts.append([r_value(rng, name)] + ps)
            reqs.append(dict(m="expr", op="form", name=name, which=which, points=[[me(float(x)) for x in p] for p in pts]))
            metas.append((name, which, pts, fobj))
    answers = lean_query(reqs)
    nbad = 0
    checked = 0
    for (name, which, pts, fobj), ans in zip(metas, answers):
        if ans == "untranslatable":
            run.tie_broken("translator", "%s.%s" % (name, which), "method body is outside the translated Python fragment")
            continue
        fn = fobj if which == "call" else getattr(fobj, which)
        tol = 1e-7 if name == "tang_toennies" else 1e-11
        for p, a in zip(pts, ans):
            try:
                v = float(fn(*p))
            except (OverflowError, ZeroDivisionError, ValueError):
                continue
            checked += 1
            if not close(ans_float(a), v, tol, 1e-300):
                nbad += 1
                if nbad <= 3:
                    run.tie_broken("translator", "%s.%s" % (name, which), "generated term evaluates to %r, Python to %r at (r, params) = %s" % (ans_float(a), v, p))
                break
    run.extra["translator_points_checked"] = run.extra.get("translator_points_checked", 0) + checked
    run.traces += checked
    return nbad


KERNELS = {
    "C01": ["pair_dr", "lammps_args", "lammps_row_r"],
    "C02": ["dlpoly_args", "dlpoly_mesh", "dlpoly_r_step", "dlpoly_r_step_force", "dlpoly_force"],
    "C03": ["pair_dr", "eam_drho", "setfl_args", "setfl_rho", "setfl_dens_r", "setfl_pair_r", "setfl_pair_scale"],
    "C04": ["setfl_fs_args", "tabeam_fs_args"],
    "C05": ["tabeam_args", "tabeam_sample", "tabeam_embe_end", "tabeam_dens_end", "tabeam_dens_end_fs", "tabeam_pair_end", "tabeam_numpots", "tabeam_numpots_fs"],
    "C11": ["initcutoff_cutoff", "pair_dr", "eam_drho"],
    "C18": ["plot_step", "plot_v"],
    "C19": ["r_iter", "rho_iter", "funcfl_cutoff", "funcfl_charge", "funcfl_rphi"],
}


def validate_kernels(run, npts=40):
    """Translator validation for the arithmetic kernels this property's `Cxx_kernel_*` theorems are about (Gen/Kernels.lean): the generated term
    evaluated at Float by the Lean driver vs the ORIGINAL source expression evaluated by Python itself, on the same operand values.
    A kernel the translator cannot pick out of the current source, or a disagreement, is a broken tie - never by itself a violation."""
    import math as _math
    wanted = KERNELS.get(run.prop, [])
    detail = getattr(run, "translator_detail", {}).get("kernels", {})
    status, py = detail.get("kernels", {}), detail.get("python", {})
    rng = run.rng
    reqs, metas = [], []
    for k in wanted:
        if status.get(k) is not True:
            run.tie_broken("translator", "kernel %s" % k, "the expression is no longer found / outside the translated fragment: %s" % status.get(k, "kernel not generated"))
            continue
        for name in sorted(n for n in py if n == k or n.startswith(k + ".")):
            nops = py[name]["operands"]
            pts = []
            for _ in range(npts):
                pts.append([float(rng.randint(2, 60)) if rng.random() < 0.5 else round(rng.uniform(0.01, 12.0), rng.choice([1, 2, 3, 4])) for _ in range(nops)])
            reqs.append(dict(m="expr", op="kernel", name=name, points=[[me(x) for x in p] for p in pts]))
            metas.append((name, pts, py[name]["code"]))
    checked = 0
    for (name, pts, code), ans in zip(metas, lean_query(reqs)):
        if ans == "untranslatable":
            run.tie_broken("translator", "kernel %s" % name, "generated term is E.bad")
            continue
        comp = compile(code, "<kernel %s>" % name, "exec")
        for p, a in zip(pts, ans):
            env = {"float": float, "math": _math}
            env.update({"_p%d" % i: v for i, v in enumerate(p)})
            try:
                exec(comp, env)
                v = float(env["_result"])
            except (ZeroDivisionError, OverflowError, ValueError):
                continue
            checked += 1
            if not close(ans_float(a), v, 1e-13, 1e-300):
                run.tie_broken("translator", "kernel %s" % name, "generated term evaluates to %r, the source expression %r to %r at operands %s" % (ans_float(a), code.split("\n")[-1], v, p))
                break
    run.extra["kernel_points_checked"] = checked
    run.traces += checked
    run.dist["kernel-translation-points"] = checked


def validate_literals(run):
    """every decimal literal of potentialfunctions.py: the Lean Float it denotes vs Python's float(text), bit for bit"""
    import ast
    import os
    from common import REPO
    src = open(os.path.join(REPO, "atsim/potentials/potentialfunctions.py")).read()
    lits = set()
    for n in ast.walk(ast.parse(src)):
        if isinstance(n, ast.Constant) and isinstance(n.value, float):
            lits.add(ast.get_source_segment(src, n))
    lits = sorted(lits)
    fr = [Fr(t) for t in lits]
    ans = lean_query([dict(m="expr", op="lits", lits=[[abs(q).numerator, q.denominator] for q in fr])])[0]
    bad = [(t, ans_float(a), float(t)) for t, a, q in zip(lits, ans, fr) if ans_float(a) != abs(float(t))]
    for t, a, b in bad[:3]:
        run.tie_broken("translator", "literal %s" % t, "Lean litF gives %r, Python float gives %r" % (a, b))
    run.extra["literals_checked"] = len(lits)
    return len(bad)
