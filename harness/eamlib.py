"""EAM models for the correspondence checks (C03, C04, C05, C12, C13, C17, C19): generator, real-object builder,
potable file rendering, Lean requests, and tokenisers for setfl / ADP / TABEAM output.

Tracer functions: value(x) = 64*fid + x on dyadic grids, so every printed number decodes exactly to (fid, x).
"""
import io
import itertools
from fractions import Fraction as Fr

from common import fq, dec
import impl

from atsim.potentials import Potential, EAMPotential
from atsim.potentials.referencedata._data import reference_data as BUILTIN

REAL_ELS = ["Al", "Cu", "Ni", "Fe", "Ag", "U", "Zr", "Mg", "Au", "Pt", "Ti", "Nb"]
FAKE_ELS = ["Xx", "Q1", "Zz2", "Ni_core1", "Fe_shel2", "al", "zn", "c", "AL", "NI"]      # (8 characters is the longest label DL_POLY takes: fixed-width headers must not fuse them - seed C04_7)
LATTICES = ["fcc", "bcc", "hcp", "diamond"]


class Tr(object):
    """tracer callable 64*fid + x; optional fault injection for C17"""

    def __init__(self, fid):
        self.fid = fid

    def __call__(self, x):
        return 64 * self.fid + x


def zero_fn(x):
    return 0.0


def decode64(v):
    v = Fr(v)
    if v == 0:
        return "0"
    fid = int(v // 64)
    return [fid, fq(v - 64 * fid)]


def flt(s):
    """printed %e number -> the double it denotes, exactly"""
    return Fr(float(s))


# ---------------------------------------------------------------------------------------------------------------
def gen_model(rng, fs, potable, nmax=4, allow_undeclared=True, kmax=4, nr_max=12, nrho_max=9, fine=False):
    """A random EAM model.

    returns dict(fs, els=[sp...], embed={sp:fid|None}, dens={sp:fid|None} | {a:{b:fid|None}}, pairs=[(a,b,fid)...] in declaration order,
                 meta={sp: dict(z,mass,a0,lat)}, species_extra={sp:{prop:val}}, grid...)"""
    n = rng.randint(1, nmax)
    pool = REAL_ELS + (FAKE_ELS if rng.random() < 0.4 else [])
    els = rng.sample(pool, n)
    if n >= 2 and rng.random() < 0.12:
        # two labels that differ only in case, or whose plain and case-blind orders differ (round-10 seeds C03_15, C05_15: pair keys sorted without regard to case)
        v = rng.choice([els[0].upper(), els[0].lower(), els[0].swapcase()])
        if v not in els:
            els[1] = v
    fid = itertools.count(1)
    k = rng.randint(1, kmax)
    nr = rng.randint(2, nr_max)
    nrho = rng.randint(2, nrho_max)
    kr = rng.randint(1, 3)
    if fine and rng.random() < 0.3:
        # steps that need more than six decimals (1/128 .. 1/4096): a header that rounds them to `%f` no longer declares the grid tabulated (seed C03_8);
        # only for formats that print 16 significant digits
        k, kr = rng.randint(7, 12), rng.randint(7, 12)
    m = dict(fs=fs, els=els, nr=nr, nrho=nrho, cut=Fr(nr - 1, 2 ** k), cutrho=Fr(nrho - 1, 2 ** kr))
    und = allow_undeclared and rng.random() < 0.4
    m["embed"] = {e: next(fid) for e in els}
    if fs:
        m["dens"] = {a: {b: (next(fid) if not (und and rng.random() < 0.3) else None) for b in els} for a in els}
        if not potable and rng.random() < 0.35:
            # Python API: density dictionaries may hold entries for species that are not being tabulated (objects of a larger model re-used for a sub-system);
            # the file has one block per TABULATED species pair all the same (seed C05_8)
            for a in els:
                m["dens"][a]["Qq"] = next(fid)
    else:
        m["dens"] = {e: next(fid) for e in els}
    pairs = []
    for i, a in enumerate(els):
        for b in els[:i + 1]:
            if rng.random() < 0.7:
                pairs.append(((a, b) if rng.random() < 0.5 else (b, a)) + (next(fid),))
    rng.shuffle(pairs)
    if not potable and pairs and rng.random() < 0.1:      # API only: a key declared twice, the later one wins (dict semantics)
        a, b, _ = rng.choice(pairs)
        pairs.append((b, a, next(fid)))
    m["pairs"] = pairs
    meta, extra = {}, {}
    for i, e in enumerate(els):
        if potable:
            ex = {}
            known = e in BUILTIN
            if not known or rng.random() < 0.3:
                # zero is a legitimate override value (a placeholder element, a massless shell): it must not be mistaken for "not given" (seed C03_5)
                ex["atomic_number"] = 0 if rng.random() < 0.2 else rng.randint(1, 110)
            if not known or rng.random() < 0.3:
                ex["atomic_mass"] = Fr(0) if rng.random() < 0.2 else Fr(rng.randint(8, 2000), 8)
            if rng.random() < 0.4:
                ex["lattice_constant"] = Fr(0) if rng.random() < 0.2 else Fr(rng.randint(16, 80), 16)
            if rng.random() < 0.4:
                ex["lattice_type"] = rng.choice(LATTICES)
            if ex:
                extra[e] = ex
        else:
            meta[e] = dict(z=rng.randint(1, 110), mass=Fr(rng.randint(8, 2000), 8), a0=Fr(rng.randint(0, 80), 16), lat=rng.choice(LATTICES))
    m["meta"], m["species_extra"] = meta, extra
    return m


def make_potable_variants(rng, m):
    """For potable routes: choose declaration orders and (at most one) species without an embedding entry.
    Adds m['embed_order'] (species with an [EAM-Embed] entry, file order), m['dens_decl'] (density entries in file order)."""
    els = list(m["els"])
    embed_order = list(els)
    # some species lose their embedding entry: they are zero-filled and listed after the others, in sorted order
    if len(els) >= 2 and rng.random() < 0.3:
        victims = rng.sample(els, rng.randint(1, len(els) - 1))
        for victim in victims:
            embed_order.remove(victim)
            m["embed"][victim] = None
            if m["fs"]:
                # the victim must still be mentioned by some density entry, else it is not a species of the model at all
                if all(m["dens"][a].get(victim) is None for a in els) and all(v is None for v in m["dens"][victim].values()):
                    m["dens"][victim][victim] = 9000 + els.index(victim)
        m["els"] = embed_order + sorted(victims)
    if not m["fs"]:
        # some species may lack a density entry (zero-filled density)
        for e in els:
            if e in embed_order and len(els) >= 2 and rng.random() < 0.15:
                m["dens"][e] = None
        decl = [(e, m["dens"][e]) for e in els if m["dens"][e] is not None]
    else:
        decl = [(a, b, f) for a in els for b, f in m["dens"][a].items() if f is not None]
    rng.shuffle(decl)
    m["embed_order"] = embed_order
    m["dens_decl"] = decl
    if m["fs"]:
        # a species that appears in no entry at all does not exist for the builder
        mentioned = set(embed_order) | {x for (a, b, f) in decl for x in (a, b)}
        m["els"] = [e for e in m["els"] if e in mentioned]
    else:
        mentioned = set(embed_order) | {e for e, f in decl}
        m["els"] = [e for e in m["els"] if e in mentioned]
    m["pairs"] = [p for p in m["pairs"]]
    return m


# ---------------------------------------------------------------------------------------------------------------
class EnergyPotential(Potential):
    """a pair potential whose energy() is not its potentialFunction (a truncated / shifted subclass): writers tabulate energy()"""

    def __init__(self, a, b, f, decoy):
        Potential.__init__(self, a, b, decoy)
        self._f = f

    def energy(self, r):
        return self._f(r)


class MissingDict(dict):
    """a density dictionary that supplies some of its entries through __missing__ (like collections.defaultdict): `d[key]` finds them, `.get` / iteration do not"""

    def __init__(self, explicit, hidden):
        dict.__init__(self, explicit)
        self._hidden = hidden

    def __missing__(self, key):
        return self._hidden[key]


def build_objects(m, tracer=Tr, variant=None):
    """variant (Python-API routes only): 'energy-subclass' - pair potentials are Potential subclasses overriding energy(); 'missing-dict' - Finnis-Sinclair density
    dictionaries hand out every second entry through __missing__"""
    eams = []
    for e in m["els"]:
        md = m["meta"][e]
        emb = tracer(m["embed"][e]) if m["embed"][e] else zero_fn
        if m["fs"]:
            d = {b: (tracer(f) if f else zero_fn) for b, f in m["dens"][e].items()}
            if variant == "missing-dict":
                keys = sorted(d)
                d = MissingDict({k: d[k] for k in keys[::2]}, {k: d[k] for k in keys[1::2]})
        else:
            d = tracer(m["dens"][e]) if m["dens"][e] else zero_fn
        eams.append(EAMPotential(e, md["z"], float(md["mass"]), emb, d, float(md["a0"]), md["lat"]))
    if variant == "energy-subclass":
        pots = [EnergyPotential(a, b, tracer(f), tracer(f + 40)) for (a, b, f) in m["pairs"]]
    else:
        pots = [Potential(a, b, tracer(f)) for (a, b, f) in m["pairs"]]
    return pots, eams


def api_variant(rng, m, allow_missing_dict=True):
    """which shape of API objects a case uses (see build_objects)"""
    r = rng.random()
    if r < 0.2:
        return "energy-subclass"
    if r < 0.4 and m["fs"] and allow_missing_dict:
        return "missing-dict"
    return None


def poly(fid):
    return ">=0 as.polynomial %d.0 1.0" % (64 * fid)


def cfg_text(m, target, extra_sections=""):
    t = "[Tabulation]\ntarget : %s\ncutoff : %s\nnr : %d\ncutoff_rho : %s\nnrho : %d\n\n" % (
        target, impl.decimal_str(m["cut"]), m["nr"], impl.decimal_str(m["cutrho"]), m["nrho"])
    t += "[EAM-Embed]\n"
    for e in m["embed_order"]:
        t += "%s : %s\n" % (e, poly(m["embed"][e]))
    t += "\n[EAM-Density]\n"
    for d in m["dens_decl"]:
        if m["fs"]:
            t += "%s->%s : %s\n" % (d[0], d[1], poly(d[2]))
        else:
            t += "%s : %s\n" % (d[0], poly(d[1]))
    t += "\n[Pair]\n"
    for (a, b, f) in m["pairs"]:
        t += "%s-%s : %s\n" % (a, b, poly(f))
    if m["species_extra"]:
        t += "\n[Species]\n"
        for e, ex in m["species_extra"].items():
            for k, v in ex.items():
                t += "%s.%s : %s\n" % (e, k, v if isinstance(v, (int, str)) else impl.decimal_str(v))
    return t + extra_sections


# ---------------------------------------------------------------------------------------------------------------
def meta_json(d):
    o = {}
    if "atomic_number" in d:
        o["z"] = d["atomic_number"]
    if "atomic_mass" in d:
        o["mass"] = fq(Fr(d["atomic_mass"]))
    if "lattice_constant" in d:
        o["a0"] = fq(Fr(d["lattice_constant"]))
    if "lattice_type" in d:
        o["lat"] = d["lattice_type"]
    return o


def request(m, op, potable, extra_order=None, **kw):
    """Lean request.  API routes pass the element objects; potable routes pass the file's entries (`cfg`) so that the
    model of the builder (element order, zero filling, reference data) is exercised too."""
    r = dict(m="eam", op=op, fs=m["fs"], pairs=[dict(a=a, b=b, fid=f) for (a, b, f) in m["pairs"]])
    if potable:
        species = set(m["els"]) | {a for a, b, f in m["pairs"]} | {b for a, b, f in m["pairs"]}
        cfg = dict(fs=m["fs"], embed=[[e, m["embed"][e]] for e in m["embed_order"]],
                   speciesExtra=[[e, meta_json(ex)] for e, ex in m["species_extra"].items()],
                   speciesBuiltin=[[e, meta_json(BUILTIN[e]._asdict())] for e in sorted(species) if e in BUILTIN])
        if m["fs"]:
            cfg["densFS"] = [{"from": a, "to": b, "fid": f} for (a, b, f) in m["dens_decl"]]
        else:
            cfg["dens"] = [[e, f] for (e, f) in m["dens_decl"]]
        r["cfg"] = cfg
        if extra_order is not None:
            cfg["extraOrder"] = extra_order
    else:
        els = []
        for e in m["els"]:
            md = m["meta"][e]
            els.append(dict(sp=e, z=md["z"], mass=fq(md["mass"]), a0=fq(md["a0"]), lat=md["lat"], embed=m["embed"][e] or 0,
                            dens=(0 if m["fs"] else (m["dens"][e] or 0)),
                            densTo=([[b, f or 0] for b, f in m["dens"][e].items()] if m["fs"] else [])))
        r["els"] = els
    r.update(kw)
    return r


def tab_args(m):
    return dict(cut=fq(m["cut"]), nr=m["nr"], cutrho=fq(m["cutrho"]), nrho=m["nrho"])


def direct_args(m):
    return dict(nrho=m["nrho"], drho=fq(m["cutrho"] / (m["nrho"] - 1)), nr=m["nr"], dr=fq(m["cut"] / (m["nr"] - 1)))


# ---------------------------------------------------------------------------------------------------------------
class FormatError(Exception):
    pass


def setfl_tokens(text, fs, adp=False):
    """tokens of a setfl / ADP file; any departure from the layout (also one that makes a header field unreadable as a number) is a FormatError"""
    try:
        return _setfl_tokens(text, fs, adp)
    except (ValueError, IndexError) as e:
        raise FormatError("unreadable setfl layout: %s: %s; the first lines are %r" % (type(e).__name__, e, text.split("\n")[:5]))


def _setfl_tokens(text, fs, adp=False):
    L = text.split("\n")
    if L and L[-1] == "":
        L = L[:-1]
    if len(L) < 5:
        raise FormatError("setfl file shorter than its 5 header lines")
    h3 = L[3].split()
    ntypes, names = int(h3[0]), h3[1:]
    h4 = L[4].split()
    if len(h4) != 5:
        raise FormatError("line 5 has %d fields" % len(h4))
    nrho, drho, nr, dr = int(h4[0]), flt(h4[1]), int(h4[2]), flt(h4[3])
    pos = 5
    n = len(names)

    def take(cnt, what):
        nonlocal pos
        if pos + cnt > len(L):
            raise FormatError("file ends inside %s (need %d more lines, have %d)" % (what, cnt, len(L) - pos))
        vals = L[pos:pos + cnt]
        pos += cnt
        for v in vals:
            if len(v.split()) != 1:
                raise FormatError("line %r in %s is not a single number" % (v, what))
        # `% 20.16e` prints 17 significant digits: the text denotes exactly one double (round trip), which is the number the writer held - not the decimal text itself
        return [flt(v.strip()) for v in vals]

    elements = []
    for ei in range(n):
        if pos >= len(L):
            raise FormatError("file ends before element block %d" % ei)
        eh = L[pos].split()
        pos += 1
        if len(eh) != 4:
            raise FormatError("element header %r" % L[pos - 1])
        emb = [decode64(v) for v in take(nrho, "embedding values")]
        dens = []
        for _ in range(n if fs else 1):
            dens.append([decode64(v) for v in take(nr, "density values")])
        elements.append(dict(z=int(eh[0]), mass=fq(flt(eh[1])), a0=fq(flt(eh[2])), lat=eh[3], embed=emb, dens=dens))

    def pair_section(scaled, what):
        blocks = []
        for bi in range(n * (n + 1) // 2):
            vals = take(nr, what)
            row = []
            for kidx, v in enumerate(vals):
                if v == 0:
                    row.append("0")
                elif scaled:
                    r = kidx * dr
                    row.append(decode64(v / r) if r != 0 else ["?", str(v)])
                else:
                    row.append(decode64(v))
            blocks.append(row)
        return blocks
    out = dict(ntypes=ntypes, names=names, nrho=nrho, drho=fq(drho), nr=nr, dr=fq(dr), elements=elements,
               pairs=pair_section(True, "pair r*phi values"))
    if adp:
        out["dipoles"] = pair_section(False, "dipole values")
        out["quadrupoles"] = pair_section(False, "quadrupole values")
    if pos != len(L):
        raise FormatError("%d unexpected trailing lines after the last block" % (len(L) - pos))
    return out


def tabeam_tokens(text):
    L = text.split("\n")
    if L and L[-1] == "":
        L = L[:-1]
    declared = int(L[1])
    pos = 2
    blocks = []
    while pos < len(L):
        h = L[pos].split()
        if len(h) < 5 or h[0] not in ("pair", "embe", "dens"):
            raise FormatError("not a block header: %r" % L[pos])
        kw, species, npts, lo, hi = h[0], h[1:-3], int(h[-3]), dec(h[-2]), dec(h[-1])
        pos += 1
        rows, got = [], 0
        while got < npts:
            if pos >= len(L):
                raise FormatError("file ends inside block %s %s (%d of %d values)" % (kw, species, got, npts))
            f = L[pos].split()
            if L[pos].split()[0] in ("pair", "embe", "dens"):
                raise FormatError("block %s %s has %d values, header says %d" % (kw, species, got, npts))
            if len(f) > 4:
                raise FormatError("record with %d values in block %s %s" % (len(f), kw, species))
            if len(f) < 4 and got + len(f) < npts:
                raise FormatError("short record inside block %s %s" % (kw, species))
            rows.append([decode64(dec(x)) for x in f])
            got += len(f)
            pos += 1
        if got != npts:
            raise FormatError("block %s %s has %d values, header says %d" % (kw, species, got, npts))
        blocks.append(dict(kw=kw, species=species, n=npts, lo=fq(lo), hi=fq(hi), rows=rows))
    return dict(declared=declared, blocks=blocks)


def excel_tokens(data):
    """xlsx bytes -> [{name, header, rows:[[x, [slots]]]}]  (sheet order as stored)"""
    import openpyxl
    wb = openpyxl.load_workbook(io.BytesIO(data))
    out = []
    for ws in wb.worksheets:
        rows = list(ws.iter_rows(values_only=True))
        if not rows:
            out.append(dict(name=ws.title, header=[], rows=[]))
            continue
        header = [("" if c is None else str(c)) for c in rows[0]]
        body = []
        for r in rows[1:]:
            if any(c is None for c in r):
                raise FormatError("empty cell in sheet %s" % ws.title)
            body.append([fq(Fr(r[0])), [decode64(Fr(c)) for c in r[1:]]])
        out.append(dict(name=ws.title, header=header, rows=body))
    return out


def excel_tokens_raw(data):
    """xlsx bytes -> [{name, header, rows:[[x, v1, v2, ...]]}] with the cell values as stored (no tracer decoding)"""
    import openpyxl
    wb = openpyxl.load_workbook(io.BytesIO(data))
    out = []
    for ws in wb.worksheets:
        rows = list(ws.iter_rows(values_only=True))
        out.append(dict(name=ws.title, header=[("" if c is None else str(c)) for c in rows[0]] if rows else [], rows=[list(r) for r in rows[1:]]))
    return out


def describe(case):
    m = case["model"]
    d = dict(route=case["route"], fs=m["fs"], els=m["els"], nr=m["nr"], nrho=m["nrho"], cut=fq(m["cut"]), cutrho=fq(m["cutrho"]),
             pairs=["%s-%s:%d" % p for p in m["pairs"]], embed=m["embed"], dens=m["dens"],
             species_extra={k: {a: str(b) for a, b in v.items()} for k, v in m["species_extra"].items()})
    if "embed_order" in m:
        d["embed_order"] = m["embed_order"]
        d["dens_decl"] = [list(x) for x in m["dens_decl"]]
        d["potable_file"] = cfg_text(m, case.get("target", "setfl"))
    return d


def correspond(run, cases, run_impl, model_request, tokenise, fail_key, what, kind_of=None, shrinker=None):
    """Generic differential loop: implementation tokens vs Lean model tokens on every case."""
    from common import lean_query
    from props.C01 import first_diff

    def compare(case, model):
        oc, out = run_impl(case)
        if model == "config_error":
            return (None if oc == "config_error" else "expected a configuration error, outcome %r" % oc), oc
        if oc != "ok":
            return "valid model, outcome %r" % (oc,), oc
        try:
            toks = tokenise(case, out)
        except FormatError as e:
            return "layout: %s" % e, (out[:600] if isinstance(out, str) else "<binary>")
        return first_diff(toks, model), toks
    models = lean_query([model_request(c) for c in cases])
    bad = 0
    for c, mo in zip(cases, models):
        d, toks = compare(c, mo)
        run.traces += 1
        m = c["model"]
        key = (c["route"], m["fs"], tuple(m["els"]), tuple(m["pairs"]), m["nr"], m["nrho"], str(m["cut"]), str(sorted(m["species_extra"])),
               str(m.get("dens_decl")))
        run.case(key=key, kind=(kind_of(c, mo) if kind_of else "%s/n=%d" % (c["route"], len(m["els"]))),
                 sample=describe(c) if run.evaluations < 2 else None)
        if d:
            bad += 1
            if bad <= 3:
                small = c
                if bad == 1:
                    small = shrink_pairs(c, lambda cc: compare(cc, lean_query([model_request(cc)])[0])[0] is not None)
                mm = lean_query([model_request(small)])[0]
                dd, tt = compare(small, mm)
                run.fail(fail_key, "%s: %s" % (what, dd), dict(case=describe(small), first_difference=dd, impl_tokens=tt, model_tokens=mm))
    return bad


def shrink_pairs(case, still_fails):
    best = case
    improved = True
    while improved:
        improved = False
        m = best["model"]
        for i in range(len(m["pairs"])):
            c = dict(best, model=dict(m, pairs=m["pairs"][:i] + m["pairs"][i + 1:]))
            try:
                if still_fails(c):
                    best, improved = c, True
                    break
            except Exception:
                pass
    return best


_REWRITE = [0]


def write_second_time(tab, s):
    """every other tabulation object is walked and written once into a throw-away stream before the write that is compared: the compared output is then the object's
    SECOND write - a tabulation may be listed and written any number of times (round-7 seeds C03_11: one-shot iterator kept as `.potentials`; C19_11: the Excel
    workbook dropped after the first write)"""
    _REWRITE[0] += 1
    if _REWRITE[0] % 2 == 0:
        for attr in ("potentials", "eam_potentials"):
            if hasattr(tab, attr):
                for _ in getattr(tab, attr):
                    pass
        tab.write(type(s)())
    tab.write(s)
