"""Access to the real implementation (imported in-process from /repo) and helpers shared by the checks."""
import contextlib
import io
import logging
import os
import shutil
import subprocess
import sys
import tempfile
from fractions import Fraction as Fr

logging.disable(logging.CRITICAL)

import reposhim  # noqa: E402,F401  (no effect unless ATSIM_REPO names a scratch copy)
import atsim.potentials  # noqa: E402
from atsim.potentials.config._common import ConfigurationException  # noqa: E402

assert os.path.realpath(atsim.potentials.__file__).startswith(os.path.realpath(os.environ.get("ATSIM_REPO", "/repo"))), atsim.potentials.__file__


def decimal_str(q):
    """exact finite decimal text of a rational whose denominator divides a power of ten"""
    q = Fr(q)
    d = q.denominator
    k = 0
    while d % 10 == 0:
        d //= 10
        k += 1
    e2 = e5 = 0
    while d % 2 == 0:
        d //= 2
        e2 += 1
    while d % 5 == 0:
        d //= 5
        e5 += 1
    assert d == 1, q
    k += max(e2, e5)
    n = q * 10 ** k
    assert n.denominator == 1
    n = n.numerator
    s = "%0*d" % (k + 1, abs(n))
    s = (s[:-k] + "." + s[-k:]) if k else s + ".0"
    return ("-" if n < 0 else "") + s


def outcome_of(fn):
    """run fn(); map the result to the outcome enum (ok | config_error | rejected | internal:<Exc>)"""
    from atsim.potentials._dlpoly_writeTABLE import WritePotentialException
    try:
        v = fn()
        return "ok", v
    except ConfigurationException as e:
        return "config_error", e
    except WritePotentialException as e:
        return "rejected", e
    except SystemExit as e:
        return "exit:%s" % e.code, e
    except Exception as e:  # noqa
        return "internal:" + type(e).__name__, e


def config_tabulate(cfg_text, binary=False):
    """Configuration().read(cfg).write(buffer) -> bytes/str"""
    from atsim.potentials.config import Configuration
    tab = Configuration().read(io.StringIO(cfg_text))
    buf = io.BytesIO() if binary else io.StringIO()
    _REWRITE[0] += 1
    if _REWRITE[0] % 3 == 0:
        # every third tabulation read from a file is walked and written once into a throw-away stream first: what is returned is then its SECOND write - an object
        # built by Configuration may be written any number of times (round-8 seed C05_14: a factory handing the tabulation a one-shot iterator)
        for attr in ("potentials", "eam_potentials"):
            if hasattr(tab, attr):
                for _ in getattr(tab, attr):
                    pass
        tab.write(io.BytesIO() if binary else io.StringIO())
    tab.write(buf)
    return buf.getvalue()


_REWRITE = [0]


def potable_cli(cfg_text, args=(), want_output=True, binary=False):
    """Run the potable entry point main() in-process with sys.argv = [potable, cfg, out, *args].

    Returns dict(rc, stdout, stderr, output) where output is the content of OUTPUT_FILE (None when absent)."""
    from atsim.potentials.tools import potable
    d = tempfile.mkdtemp(prefix="verif_potable_")
    try:
        cfg = os.path.join(d, "model.ini")
        out = os.path.join(d, "OUTPUT_FILE")
        with open(cfg, "w") as f:
            f.write(cfg_text)
        argv = ["potable", cfg] + ([out] if want_output else []) + list(args)
        so, se = io.StringIO(), io.StringIO()
        old = sys.argv
        rc = 0
        try:
            sys.argv = argv
            with contextlib.redirect_stdout(so), contextlib.redirect_stderr(se):
                try:
                    potable.main()
                except SystemExit as e:
                    rc = e.code if isinstance(e.code, int) else (0 if e.code is None else 1)
                except Exception as e:  # an exception leaving main(): the process would die with a traceback, exit status 1
                    rc = 1
                    se.write("Traceback (uncaught %s): %s" % (type(e).__name__, e))
        finally:
            sys.argv = old
            # argparse FileType leaves the config file open
        content = None
        if os.path.exists(out):
            with open(out, "rb") as f:
                content = f.read()
            if not binary:
                try:
                    content = content.decode("utf-8")
                except UnicodeDecodeError:
                    pass                      # a binary target (xlsx): keep the bytes
        return dict(rc=rc, stdout=so.getvalue(), stderr=se.getvalue(), output=content)
    finally:
        shutil.rmtree(d, ignore_errors=True)


def potable_subprocess(cfg_text, args=(), env=None, binary=False, timeout=120):
    """Run potable as a real subprocess (fresh interpreter; used where process state / hash seed matters)."""
    d = tempfile.mkdtemp(prefix="verif_potable_")
    try:
        cfg = os.path.join(d, "model.ini")
        out = os.path.join(d, "OUTPUT_FILE")
        with open(cfg, "w") as f:
            f.write(cfg_text)
        e = dict(os.environ)
        if env:
            e.update(env)
        if os.environ.get("ATSIM_REPO"):
            shim = "import sys; sys.path.insert(0, %r); import reposhim; from atsim.potentials.tools.potable import main; sys.argv[0] = 'potable'; main()" % os.path.dirname(os.path.abspath(__file__))
            cmd = ["/venv/bin/python", "-c", shim, cfg, out]
        else:
            cmd = ["/venv/bin/potable", cfg, out]
        p = subprocess.run(cmd + list(args), capture_output=True, text=True, env=e, timeout=timeout)
        content = None
        if os.path.exists(out):
            with open(out, "rb" if binary else "r") as f:
                content = f.read()
        return dict(rc=p.returncode, stdout=p.stdout, stderr=p.stderr, output=content)
    finally:
        shutil.rmtree(d, ignore_errors=True)
