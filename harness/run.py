"""./check Cxx [--tier quick|thorough] [--replay file]"""
import argparse
import importlib
import json
import os
import sys
import traceback
import warnings

sys.path.insert(0, os.path.dirname(os.path.abspath(__file__)))
warnings.simplefilter("ignore")
import common  # noqa: E402


def main():
    ap = argparse.ArgumentParser()
    ap.add_argument("prop")
    ap.add_argument("--tier", default=os.environ.get("VERIF_TIER", "quick"), choices=["quick", "thorough"])
    ap.add_argument("--replay", default=None)
    a = ap.parse_args()
    try:
        seed = int(os.environ.get("VERIF_SEED", "0"))
    except ValueError:
        seed = 0
    try:
        mod = importlib.import_module("props." + a.prop)
    except ImportError:
        traceback.print_exc()
        print("no check for property %s" % a.prop)
        return 2
    run = common.Run(a.prop, a.tier, seed)
    try:
        if a.replay:
            payload = json.load(open(a.replay))
            return mod.replay(run, payload)
        common.proof_stage(run)
        mod.check(run)
        return run.finish(level=getattr(mod, "LEVEL", "proof"))
    except common.InfraError as e:
        print("INFRASTRUCTURE FAILURE (not a verdict on the property): %s" % e)
        return 2
    except Exception:
        traceback.print_exc()
        print("INFRASTRUCTURE FAILURE (harness exception; not a verdict on the property)")
        return 2


if __name__ == "__main__":
    sys.exit(main())
