"""./check Cxx [--tier quick|thorough] [--replay file]"""
import argparse
import importlib
import json
import os
import sys
import traceback
import warnings

sys.path.insert(0, os.path.dirname(os.path.abspath(__file__)))
warnings.simplefilter("ignore")
import reposhim  # noqa: E402,F401
import common  # noqa: E402


def kernel_stage(run):
    """translator validation of the arithmetic kernels the property's `Cxx_kernel_*` theorems are stated about"""
    import formlib
    if run.prop in formlib.KERNELS:
        formlib.validate_kernels(run)


def main():
    ap = argparse.ArgumentParser()
    ap.add_argument("prop")
    ap.add_argument("--tier", default=os.environ.get("VERIF_TIER", "quick"), choices=["quick", "thorough"])
    ap.add_argument("--replay", default=None)
    a = ap.parse_args()
    try:
        seed = int(os.environ.get("VERIF_SEED", "0"))
    except ValueError:
        seed = 0
    try:
        mod = importlib.import_module("props." + a.prop)
    except ImportError:
        traceback.print_exc()
        print("no check for property %s" % a.prop)
        return 2
    run = common.Run(a.prop, a.tier, seed)
    try:
        if a.replay:
            payload = json.load(open(a.replay))
            rc = mod.replay(run, payload)
            if rc in (0, 1):
                return rc
            # generic replay: every random choice derives from (tier, seed), both recorded in the replay file - re-run the check with them and report
            # whether the recorded failure (same key) or broken tie (same name) recurs on /repo's current tree.  Writes no evidence.
            run = common.Run(a.prop, payload.get("tier", a.tier), int(payload.get("seed", seed)))
            common.proof_stage(run)
            kernel_stage(run)
            mod.check(run)
            if payload.get("kind") == "broken-tie":
                names = {t.get("name") for t in payload.get("broken_ties", [])}
                again = [t for t in run.ties if t.get("name") in names]
                for t in again[:5]:
                    print("replay: broken %s recurs: %s %s" % (t["kind"], t["name"], t["detail"][:300]))
            else:
                again = [f for f in run.failures if f["key"] == payload.get("key")]
                for f in again[:5]:
                    print("replay: failure [%s] recurs: %s" % (f["key"], f["what"][:600]))
            if not again:
                print("replay: the recorded %s does not recur on the current tree (tier %s, seed %s)" % (payload.get("kind"), run.tier, run.seed))
            return 1 if again else 0
        common.proof_stage(run)
        kernel_stage(run)
        mod.check(run)
        return run.finish(level=getattr(mod, "LEVEL", "proof"))
    except common.InfraError as e:
        print("INFRASTRUCTURE FAILURE (not a verdict on the property): %s" % e)
        return 2
    except Exception as e:
        # An exception RAISED INSIDE THE LIBRARY (innermost frame in the repository's atsim package) on an input this check generated within the property's domain
        # and did not expect to fail: on the unchanged tree this never happens (it would be a harness bug and show up at once); on a changed tree it means the
        # library now refuses or crashes on a valid input of this property - a failing input, reported as such with what has been explored so far.
        tb = traceback.extract_tb(e.__traceback__)
        inner = tb[-1].filename if tb else ""
        if os.sep + "atsim" + os.sep in inner and not a.replay:
            where = "%s:%d in %s" % (os.path.relpath(inner, common.REPO) if inner.startswith(common.REPO) else inner, tb[-1].lineno, tb[-1].name)
            harness_frame = next((f for f in reversed(tb) if os.sep + "harness" + os.sep in f.filename), None)
            run.fail("unexpected-library-exception", "the library raised %s (%s) at %s on an input generated inside this property's domain (reached from %s)" % (
                type(e).__name__, str(e)[:200], where, "%s:%d" % (os.path.basename(harness_frame.filename), harness_frame.lineno) if harness_frame else "?"),
                dict(exception=type(e).__name__, message=str(e)[:500], traceback=traceback.format_exc()[-3000:]))
            try:
                return run.finish(level=getattr(mod, "LEVEL", "proof"))
            except Exception:
                pass
        traceback.print_exc()
        print("INFRASTRUCTURE FAILURE (harness exception; not a verdict on the property)")
        return 2


if __name__ == "__main__":
    sys.exit(main())
