"""Tracer potentials and output tokenisers (bytes -> canonical tokens with exact rationals).

A tracer is a callable whose printed values decode *exactly* to (function id, abscissa) on dyadic
grids, so that "which function, sampled where, landed in which slot" is read off the file without
comparing floats.
"""
import math
from fractions import Fraction as Fr

from common import fq, dec

LABELS = ["A", "B", "O", "Si", "Xe", "Gd3+", "U4", "Mg2+", "O2_", "Al"]


class ApiTracer(object):
    """E(r) = 16*fid + r  (r dyadic, 0 <= r < 8).

    mode 'lammps': deriv(r) = -(16*fid + r + 8)        so the force column   -dE/dr   prints 16*fid + r + 8
    mode 'dlpoly': deriv(r) = -(16*fid + r + 8)/r      so the force column -r dE/dr   prints 16*fid + r + 8
    Without `analytic` no deriv is offered and the code falls back on the central difference of E (slope 1)."""

    def __init__(self, fid, analytic, mode):
        self.fid = fid
        self.calls = 0
        if analytic:
            if mode == "lammps":
                self.deriv = lambda r: -(16 * self.fid + r + 8)
            else:
                self.deriv = lambda r: -(16 * self.fid + r + 8) / r

    def __call__(self, r):
        self.calls += 1
        return 16 * self.fid + r


def slot(fid, x):
    return [fid, fq(x)]


def decode16(v, force=False):
    v = Fr(v) - (8 if force else 0)
    if v == 0 and not force:
        return "0"
    fid = int(v // 16)
    return slot(fid, v - 16 * fid)


def dyadic_grid(rng, max_n, kmax=8, kmin=1, lo_n=3):
    k = rng.randint(kmin, kmax)
    n = rng.randint(lo_n, min(max_n, 7 * 2 ** k))
    return n, Fr(n - 1, 2 ** k), k


# ---------------------------------------------------------------------------------------------------
def lammps_blocks_raw(text):
    """Split a LAMMPS pair_style table file into blocks of raw strings."""
    lines = text.split("\n")
    i = 0
    blocks = []
    while i < len(lines):
        if lines[i] == "":
            i += 1
            continue
        title = lines[i]
        hdr = lines[i + 1].split()
        if not (len(hdr) == 5 and hdr[0] == "N" and hdr[2] == "R"):
            raise ValueError("bad header line %r after title %r" % (lines[i + 1], title))
        if lines[i + 2] != "":
            raise ValueError("no blank line after header of %r" % title)
        i += 3
        rows = []
        while i < len(lines) and lines[i] != "":
            f = lines[i].split()
            if len(f) != 4:
                raise ValueError("row with %d fields: %r" % (len(f), lines[i]))
            rows.append(f)
            i += 1
        blocks.append((title, int(hdr[1]), hdr[3], hdr[4], rows))
    return blocks


def lammps_tokens(text, mode, analytic):
    """mode 'api'  : ApiTracer('lammps') decoding
       mode 'poly' : potable tracers  as.polynomial 64*fid fid   (E = 64 fid + fid r, force = -fid)
       mode 'raw'  : rows kept as decimal strings"""
    out = []
    for bi, (title, N, lo, hi, rows) in enumerate(lammps_blocks_raw(text)):
        if mode == "raw":
            out.append(dict(title=title, N=N, lo=lo, hi=hi, rows=[(int(n), r, e, f) for n, r, e, f in rows]))
            continue
        trows = []
        for (n, r, e, f) in rows:
            rq, eq, fq_ = dec(r), dec(e), dec(f)
            if mode == "api":
                es = decode16(eq)
                if analytic[bi]:
                    fs = decode16(fq_, force=True)
                else:
                    # numerical fallback: E = 16 fid + r has slope 1; the force column must be -1 within the
                    # central-difference error bound 2*eps*|E|/h (h = 1e-6) + print resolution; the slot is then the energy's own
                    tol = Fr(2) * Fr(2) ** -52 * abs(eq) * 10 ** 6 + Fr(1, 10 ** 8)
                    fs = es if abs(fq_ + 1) <= tol else ["?", f]
            else:
                fid = int(eq // 64)
                es = slot(fid, (eq - 64 * fid) / fid) if fid > 0 else ["?", e]
                fs = slot(int(-fq_), rq) if (fq_.denominator == 1 and fq_ < 0) else ["?", f]
            trows.append([int(n), fq(rq), es, fs])
        out.append(dict(title=title, N=N, lo=fq(dec(lo)), hi=fq(dec(hi)), rows=trows))
    return out


# ---------------------------------------------------------------------------------------------------
ORACLE = dict(reference_converged=0, reference_not_converged=0)      # how often the numerical reference could be used (reported in the evidence)


def ridders(f, r, h0=None, room=None):
    """Derivative of f at r by Ridders' extrapolation of central differences (Numerical Recipes `dfridr`): a tableau over the stencils
    h0, h0/1.4, h0/1.4^2, ... returning (estimate, error estimate).  The error estimate is what makes the oracle self-validating: a
    comparison is only made where the reference has converged, and the tolerance includes the reference's own error.
    `room`: the stencil never reaches further than this from r (distance to a range / spline boundary)."""
    con, con2, ntab, safe = 1.4, 1.96, 12, 2.0
    h = h0 if h0 is not None else 2e-2 * max(abs(r), 0.05)
    if room is not None:
        h = min(h, 0.9 * room)
    if r > 0 and h >= r:
        h = 0.5 * r                      # forms with a pole at r = 0 are never sampled at or across it
    a = [[0.0] * ntab for _ in range(ntab)]
    a[0][0] = (f(r + h) - f(r - h)) / (2 * h)
    err, ans = float("inf"), a[0][0]
    for i in range(1, ntab):
        h /= con
        a[0][i] = (f(r + h) - f(r - h)) / (2 * h)
        fac = con2
        for j in range(1, i + 1):
            a[j][i] = (a[j - 1][i] * fac - a[j - 1][i - 1]) / (fac - 1.0)
            fac *= con2
            errt = max(abs(a[j][i] - a[j - 1][i]), abs(a[j][i] - a[j - 1][i - 1]))
            if errt <= err:
                err, ans = errt, a[j][i]
        if abs(a[i][i] - a[i - 1][i - 1]) >= safe * err:
            break
    return ans, err


def richardson(f, r, room=None):
    """independent derivative estimate of the energy callable; None where the reference itself has not converged to 1e-7 relative"""
    try:
        ans, err = ridders(f, r, room=room)
    except (OverflowError, ZeroDivisionError, ValueError):
        return None
    if not (err <= 1e-7 * abs(ans) + 1e-11):
        ORACLE["reference_not_converged"] += 1
        return None
    ORACLE["reference_converged"] += 1
    return ans


def eval_noise(f, r, k=4):
    """spread of f over the 2k doubles nearest to r: the writer computes its abscissa with its own rounding (a few ulps from the exact grid point),
    and an ill-conditioned callable (exp-spline: exponent = sum of large cancelling terms) changes by far more than slope*ulp between neighbouring doubles"""
    v0 = f(r)
    lo = hi = r
    m = 0.0
    for _ in range(k):
        lo, hi = math.nextafter(lo, -math.inf), math.nextafter(hi, math.inf)
        try:
            m = max(m, abs(f(lo) - v0), abs(f(hi) - v0))
        except (OverflowError, ZeroDivisionError, ValueError):
            pass
    return m


def real_potential(rng):
    """(description, callable, reference derivative) - built-in forms, compositions and derivative-less callables"""
    import atsim.potentials as ap
    from atsim.potentials import potentialforms as pf
    kind = rng.choice(["buck", "lj", "morse", "bornmayer", "coul", "plus", "product", "lambda", "poly", "multi", "buck4", "expspline", "expspline"])
    A = round(rng.uniform(100, 3000), 2)
    rho = round(rng.uniform(0.15, 0.5), 3)
    C = round(rng.uniform(0, 80), 2)
    if kind == "buck":
        f = pf.buck(A, rho, C)
    elif kind == "lj":
        f = pf.lj(round(rng.uniform(0.001, 0.5), 4), round(rng.uniform(1.5, 3.5), 2))
    elif kind == "morse":
        f = pf.morse(round(rng.uniform(0.5, 2.5), 2), round(rng.uniform(1.0, 3.0), 2), round(rng.uniform(0.1, 5), 2))
    elif kind == "bornmayer":
        f = pf.bornmayer(A, rho)
    elif kind == "coul":
        f = pf.coul(rng.choice([-2, -1, 1, 2, 4]), rng.choice([-2, 1, 3]))
    elif kind == "plus":
        f = ap.plus(pf.buck(A, rho, C), pf.coul(2, -2))
    elif kind == "product":
        f = ap.product(pf.bornmayer(A, rho), pf.polynomial(1.0, 0.5, -0.01))
    elif kind == "lambda":
        a, b = A, 1.0 / rho
        f = lambda r, a=a, b=b: a * math.exp(-b * r) + 0.25 * r * r  # noqa: E731  (offers no deriv)
    elif kind == "poly":
        f = pf.polynomial(round(rng.uniform(-5, 5), 2), round(rng.uniform(-5, 5), 2), round(rng.uniform(-1, 1), 2), round(rng.uniform(-0.1, 0.1), 3))
    elif kind == "multi":
        s = round(rng.uniform(0.5, 6.0), 3) + 0.00037  # boundary never on a grid point (C08 owns boundaries)
        f = ap.create_Multi_Range_Potential_Form(
            ap.Multi_Range_Defn(">", 0.0, pf.buck(A, rho, C)), ap.Multi_Range_Defn(">=", s, pf.polynomial(0.5, -0.02)))
    elif kind == "expspline":
        # repulsive core joined to an attractive tail: end value <= 0 forces the spline's upward shift (C != 0)
        rd = round(rng.uniform(0.8, 1.3), 2) + 0.00037
        ra = rd + round(rng.uniform(0.6, 1.2), 2)
        tail = pf.buck(0.0, 1.0, round(rng.uniform(5, 60), 1)) if rng.random() < 0.7 else pf.buck(A, rho, C)
        f = ap.SplinePotential(pf.bornmayer(A, rho), tail, rd, ra)
        rm = None
    else:
        rd = round(rng.uniform(1.0, 1.6), 2) + 0.00037
        rm = rd + round(rng.uniform(0.4, 0.8), 2)
        ra = rm + round(rng.uniform(0.4, 0.8), 2)
        f = pf.buck4(A, rho, C, rd, rm, ra)
    bounds = []
    if kind == "multi":
        bounds = [s]
    elif kind == "buck4":
        bounds = [rd, rm, ra]
    elif kind == "expspline":
        bounds = [rd, ra]

    def dref(r, f=f, bounds=bounds):
        """independent derivative of the energy callable; None within the stencil of a range/spline boundary"""
        if any(abs(r - b) < 3e-3 * max(abs(r), 0.05) for b in bounds):
            return None
        return richardson(f, r, room=min([abs(r - b) for b in bounds], default=None))
    return "%s#%d" % (kind, rng.randint(0, 10 ** 6)), f, dref


def potable_real_models(rng, n, target, nr_of):
    """n potable pair models whose [Pair] entries are random potential expressions (built-in forms, sum / product / pow / trans modifiers nested to
    depth 2, multi-range definitions, exp-spline and buck4) -> list of (config text, cutoff, nr, [(label A, label B, reference callable, boundaries, text)]).
    The reference callable is the SAME expression composed through the Python API with the documented meaning of each modifier."""
    from props.C07 import gen_expr
    out = []
    for _ in range(n):
        nr = nr_of(rng)
        cut = round(rng.uniform(3.0, 9.0), rng.choice([1, 2]))
        ents = []
        for j in range(rng.randint(1, 3)):
            for _try in range(30):
                f, txt, desc, bounds = gen_expr(rng, rng.choice([1, 2, 2]))
                if txt is not None:
                    break
            else:
                continue
            ents.append(("A%d" % j, "B", f, bounds, txt))
        if not ents:
            continue
        cfg = "[Tabulation]\ntarget : %s\ncutoff : %r\nnr : %d\n\n[Pair]\n" % (target, cut, nr) + "".join("%s-%s : %s\n" % (a, b, t) for a, b, f, bd, t in ents)
        out.append((cfg, cut, nr, ents))
    return out


def ref_values(f, r, bounds):
    """(energy, -dE/dr) of the reference callable at r with the numerical reference derivative; None where not usable
    (within a stencil of a range / spline boundary, not finite, or the reference derivative has not converged)"""
    if any(abs(r - b) < 3e-3 * max(abs(r), 0.05) for b in bounds):
        return None
    try:
        ev = float(f(r))
    except (OverflowError, ZeroDivisionError, ValueError):
        return None
    if not math.isfinite(ev) or abs(ev) > 1e30:
        return None
    slope = richardson(f, r, room=min([abs(r - b) for b in bounds], default=None))
    if slope is None or not math.isfinite(slope):
        return None
    return ev, slope


# ---------------------------------------------------------------------------------------------------
import re  # noqa: E402
_DL_DATA = re.compile(r"^( [ -]\d\.\d{7}e[+-]\d{2,3})+$")


class FormatError(Exception):
    pass


def dlpoly_raw(text):
    """DL_POLY TABLE -> (delpot, cutpot, ngrid, [(labelA, labelB, [record strings...])]) ; checks the fixed-width layout"""
    lines = text.split("\n")
    if lines[-1] != "":
        raise FormatError("file does not end with a newline")
    lines = lines[:-1]
    if len(lines) < 2 or lines[0].strip() != "":
        raise FormatError("first line is not the blank title record")
    h = lines[1]
    if len(h) != 40:
        raise FormatError("header record has length %d, expected 15+15+10" % len(h))
    delpot, cutpot, ngrid = h[0:15], h[15:30], h[30:40]
    blocks = []
    for l in lines[2:]:
        if _DL_DATA.match(l):
            if not blocks:
                raise FormatError("data record before any label record")
            fields = [l[i:i + 15] for i in range(0, len(l), 15)]
            if len(l) % 15 != 0:
                raise FormatError("data record not made of 15-character fields: %r" % l)
            blocks[-1][2].append(fields)
        else:
            if len(l) != 16:
                raise FormatError("label record %r is not two 8-character fields" % l)
            blocks.append((l[0:8].strip(), l[8:16].strip(), []))
    return delpot.strip(), cutpot.strip(), int(ngrid), blocks


def dlpoly_tokens(text, mode, analytic):
    delpot, cutpot, ngrid, blocks = dlpoly_raw(text)
    dq = dec(delpot)
    out = []
    for bi, (a, b, recs) in enumerate(blocks):
        if len(recs) % 2 != 0:
            raise FormatError("block %s %s has an odd number of records (%d): cannot be ngrid energies + ngrid forces" % (a, b, len(recs)))
        half = len(recs) // 2
        en, fo = [], []
        idx = 0
        evals = []
        for rec in recs[:half]:
            g = []
            for fld in rec:
                idx += 1
                v = dec(fld.strip())
                evals.append(v)
                if mode == "api":
                    g.append(decode16(v))
                else:
                    fid = int(v // 64)
                    g.append(slot(fid, (v - 64 * fid) / fid) if fid > 0 else ["?", fld.strip()])
            en.append(g)
        idx = 0
        for rec in recs[half:]:
            g = []
            for fld in rec:
                idx += 1
                v = dec(fld.strip())
                rk = idx * dq
                if mode == "api":
                    if analytic[bi]:
                        g.append(decode16(v, force=True))
                    else:
                        e = evals[idx - 1] if idx - 1 < len(evals) else Fr(0)
                        tol = Fr(2) * Fr(2) ** -52 * abs(e) * 10 ** 6 * rk + abs(v) * Fr(6, 10 ** 8) + Fr(1, 10 ** 12)
                        g.append(decode16(e) if abs(v + rk) <= tol else ["?", fld.strip()])
                else:
                    q = -v / rk if rk != 0 else Fr(0)
                    g.append(slot(int(q), rk) if (q.denominator == 1 and q > 0) else ["?", fld.strip()])
            fo.append(g)
        out.append(dict(a=a, b=b, energies=en, forces=fo))
    return dict(delpot=fq(dec(delpot)), cutpot=fq(dec(cutpot)), ngrid=ngrid, blocks=out)
