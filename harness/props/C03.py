"""C03 - setfl (eam/alloy).  Correspondence of `Atsim.setfl` / `setflTab` / `eamBuild` with the real code, all routes."""
import io

from common import Fr, fq, lean_query
import impl
import eamlib
from props.C01 import first_diff

from atsim.potentials import writeSetFL
from atsim.potentials.eam_tabulation import SetFL_EAMTabulation

ROUTES = ["writeSetFL", "class", "config-setfl", "config-lammps_eam_alloy", "cli"]


def gen_case(rng, nmax=4):
    route = rng.choice(ROUTES)
    potable = route not in ("writeSetFL", "class")
    m = eamlib.gen_model(rng, fs=False, potable=potable, nmax=nmax, fine=True)
    if potable:
        eamlib.make_potable_variants(rng, m)
        if rng.random() < 0.08 and any(e not in eamlib.BUILTIN for e in m["els"]):
            # an unknown element loses its atomic number or mass: the documented outcome is a configuration error
            e = [x for x in m["els"] if x not in eamlib.BUILTIN][0]
            m["species_extra"][e].pop(rng.choice(["atomic_number", "atomic_mass"]))
            if not m["species_extra"][e]:
                del m["species_extra"][e]
    # the rarely used `comments=` option of writeSetFL: any number of strings - the file always starts with exactly three comment lines (the first three given, blank
    # lines for the rest), so that line 4 is the element list whatever was handed in (round-7 seed C03_12)
    comments = None
    if route == "writeSetFL" and rng.random() < 0.5:
        comments = ["comment %d of a long preamble" % i_ for i_ in range(rng.choice([0, 1, 2, 3, 4, 4, 6]))]
    return dict(route=route, model=m, api_variant=None if potable else eamlib.api_variant(rng, m), comments=comments)


def run_impl(case):
    m, route = case["model"], case["route"]
    if route in ("writeSetFL", "class"):
        pots, eams = eamlib.build_objects(m, variant=case.get("api_variant"))
        s = io.StringIO()
        if route == "class":
            eamlib.write_second_time(SetFL_EAMTabulation(pots, eams, float(m["cut"]), m["nr"], float(m["cutrho"]), m["nrho"]), s)
        else:
            kw = {} if case.get("comments") is None else {"comments": list(case["comments"])}
            writeSetFL(m["nrho"], float(m["cutrho"] / (m["nrho"] - 1)), m["nr"], float(m["cut"] / (m["nr"] - 1)), eams, pots, s, **kw)
            if case.get("comments") is not None:
                want = (list(case["comments"]) + ["", "", ""])[:3]
                got = s.getvalue().split("\n")[:3]
                if got != want:
                    return "ok", "the first three lines are %r, the comments handed in were %r\n" % (got, case["comments"])
        return "ok", s.getvalue()
    target = "lammps_eam_alloy" if route == "config-lammps_eam_alloy" else "setfl"
    cfg = eamlib.cfg_text(m, target)
    if route == "cli":
        r = impl.potable_cli(cfg)
        if r["rc"] == 0:
            return "ok", r["output"]
        return ("config_error" if "configuration error" in r["stderr"] else "cli-failure rc=%s %s" % (r["rc"], r["stderr"][-200:])), None
    oc, v = impl.outcome_of(lambda: impl.config_tabulate(cfg))
    return oc, (v if oc == "ok" else None)


def model_request(case):
    m, route = case["model"], case["route"]
    if route == "writeSetFL":
        return eamlib.request(m, "setfl", False, **eamlib.direct_args(m))
    return eamlib.request(m, "setflTab", route != "class", **eamlib.tab_args(m))


def compare(case, model):
    oc, text = run_impl(case)
    if model == "config_error":
        return (None if oc == "config_error" else "species without atomic number/mass anywhere: expected a configuration error, outcome %r" % oc), oc
    if oc != "ok":
        return "valid model, outcome %r" % oc, oc
    try:
        toks = eamlib.setfl_tokens(text, fs=False)
    except eamlib.FormatError as e:
        return "layout: %s" % e, text[:600]
    return first_diff(toks, model), toks


def describe(case):
    m = case["model"]
    return dict(route=case["route"], els=m["els"], nr=m["nr"], nrho=m["nrho"], cut=fq(m["cut"]), cutrho=fq(m["cutrho"]),
                pairs=["%s-%s:%d" % p for p in m["pairs"]], embed=m["embed"], dens=m["dens"], species_extra={k: {a: str(b) for a, b in v.items()} for k, v in m["species_extra"].items()},
                embed_order=m.get("embed_order"), potable_file=(eamlib.cfg_text(m, "setfl") if "embed_order" in m else None))


def shrink(case, still_fails):
    best = case
    improved = True
    while improved:
        improved = False
        m = best["model"]
        cands = []
        for i in range(len(m["pairs"])):
            cands.append(dict(best, model=dict(m, pairs=m["pairs"][:i] + m["pairs"][i + 1:])))
        for c in cands:
            try:
                if still_fails(c):
                    best, improved = c, True
                    break
            except Exception:
                pass
    return best


def check(run):
    import genlib as _gl
    _gl.validate_reference_get(run, n=run.n(20, 200))
    import genlib
    genlib.validate_eam_builder(run, n=run.n(30, 300))
    genlib.validate_tabulation_objects(run, kinds=("setfl",), n=run.n(8, 60))
    genlib.validate_eam_writer(run, "setfl", n=run.n(10, 100))
    run.rule = ("tracer EAM models from one PRNG: 1..4 elements in random order (real and made-up labels), random subset of unordered pairs declared in random "
                "orientation and order (API: occasionally one key declared twice), grids nr 2..12 / nrho 2..9 on dyadic cutoffs; 5 routes: writeSetFL, "
                "SetFL_EAMTabulation, potable targets setfl and lammps_eam_alloy, potable entry point; potable models additionally vary [Species] overrides, "
                "species without an embedding or density entry, and species with no atomic number/mass anywhere (configuration error expected); "
                "distinct = (route, element order, declared pairs, grid)")
    run.assumptions += ["tokeniser setfl_tokens", "the header's 5th number (nr*dr) and the three comment lines are not constrained by the property and are not compared",
                        "potable tracers are written with an explicit '>=0' range so that f(0) is the function's value (the default '>0' range is C08's)"]
    decimal_grid_steps(run)
    n = run.n(250, 4000)
    cases = [gen_case(run.rng) for _ in range(n)]
    if not run.quick:
        import itertools, random
        # exhaustive small scope: n <= 3 elements, every declaration subset x orientation, every element order (class route)
        for n_el in (1, 2, 3):
            els0 = ["Al", "Cu", "Zr"][:n_el]
            upairs = [(a, b) for i, a in enumerate(els0) for b in els0[:i + 1]]
            for order in itertools.permutations(els0):
                for mask in itertools.product([0, 1, 2], repeat=len(upairs)):   # 0 undeclared, 1 as (a,b), 2 as (b,a)
                    rr = random.Random(hash((order, mask)) & 0xffff)
                    m = eamlib.gen_model(rr, fs=False, potable=False, nmax=1)
                    m["els"] = list(order)
                    m["embed"] = {e: 10 + i for i, e in enumerate(els0)}
                    m["dens"] = {e: 20 + i for i, e in enumerate(els0)}
                    m["meta"] = {e: dict(z=5 + i, mass=Fr(20 + i), a0=Fr(3), lat="fcc") for i, e in enumerate(els0)}
                    m["pairs"] = [((a, b) if mk == 1 else (b, a)) + (30 + j,) for j, ((a, b), mk) in enumerate(zip(upairs, mask)) if mk]
                    cases.append(dict(route="class", model=m))
    models = lean_query([model_request(c) for c in cases])
    bad = 0
    for c, mo in zip(cases, models):
        d, toks = compare(c, mo)
        run.traces += 1
        m = c["model"]
        key = (c["route"], tuple(m["els"]), tuple(m["pairs"]), m["nr"], m["nrho"], str(m["cut"]), str(sorted(m["species_extra"])))
        run.case(key=key, kind="%s/n=%d%s" % (c["route"], len(m["els"]), "/cfgerr" if mo == "config_error" else ""),
                 sample=describe(c) if run.evaluations < 2 else None)
        if d:
            bad += 1
            if bad <= 3:
                small = shrink(c, lambda cc: compare(cc, lean_query([model_request(cc)])[0])[0] is not None) if bad == 1 else c
                mm = lean_query([model_request(small)])[0]
                dd, tt = compare(small, mm)
                run.fail("setfl-mismatch", "setfl file differs from the model/property: %s" % dd,
                         dict(case=describe(small), first_difference=dd, impl_tokens=tt, model_tokens=mm))


def decimal_grid_steps(run):
    """potable models on DECIMAL grids (dr = 0.1, 0.05, 0.07 ...) whose density and embedding functions are step functions with the steps ON grid points: row i of a block is the
    function at i*step (the double product, step = cutoff/(n-1)), so a row at a step takes the value of the range that contains i*step - whatever way the writer walks the grid
    (round-10 seed C03_16: the density rows taken at an r accumulated by repeated addition, which drifts an ulp or two below the grid point)"""
    rng = run.rng
    bad = 0
    for _ in range(run.n(25, 300)):
        els = rng.sample(["Al", "Cu", "Ni", "Ag"], rng.randint(1, 2))
        nr, nrho = rng.randint(11, 90), rng.randint(11, 60)
        dr, drho = rng.choice(["0.1", "0.05", "0.07", "0.3", "0.01"]), rng.choice(["0.1", "0.05", "0.07", "0.3"])
        cut = impl.decimal_str(Fr(dr) * (nr - 1))
        cutrho = impl.decimal_str(Fr(drho) * (nrho - 1))

        def steps(n, d):
            ks = sorted(rng.sample(range(1, n - 1), min(n - 2, rng.randint(1, 4))))
            vals = [Fr(rng.randint(1, 999), 1000) for _k in range(len(ks) + 1)]
            text = ">=0 as.constant %s " % impl.decimal_str(vals[0]) + " ".join(">=%s as.constant %s" % (impl.decimal_str(Fr(d) * k), impl.decimal_str(v)) for k, v in zip(ks, vals[1:]))
            bounds = [float(impl.decimal_str(Fr(d) * k)) for k in ks]
            return text, bounds, [float(impl.decimal_str(v)) for v in vals]
        dens = {e: steps(nr, dr) for e in els}
        emb = {e: steps(nrho, drho) for e in els}
        cfg = "[Tabulation]\ntarget : setfl\ncutoff : %s\nnr : %d\ncutoff_rho : %s\nnrho : %d\n\n[EAM-Embed]\n" % (cut, nr, cutrho, nrho)
        cfg += "".join("%s : %s\n" % (e, emb[e][0]) for e in els) + "\n[EAM-Density]\n" + "".join("%s : %s\n" % (e, dens[e][0]) for e in els)
        cfg += "\n[Pair]\n%s-%s : as.zero\n" % (els[0], els[0])
        oc, out = impl.outcome_of(lambda: impl.config_tabulate(cfg))
        run.case(key=("decimal-grid", cfg), kind="decimal-grid-step-functions/n=%d" % len(els))
        run.traces += 1
        if oc != "ok":
            run.fail("setfl-mismatch", "a setfl model on a decimal grid with step functions is not tabulated: %s %s" % (oc, str(out)[:200]), dict(potable_file=cfg))
            continue
        lines = out.split("\n")
        order = lines[3].split()[1:]
        toks = " ".join(lines[5:]).split()
        pos, problem = 0, None
        step_r, step_rho = float(cut) / (nr - 1), float(cutrho) / (nrho - 1)

        def want(fn, x):
            _t, bounds, vals = fn
            i = 0
            while i < len(bounds) and x >= bounds[i]:
                i += 1
            return vals[i]
        for e in order:
            pos += 4
            for blk, n, st, fn in (("embedding", nrho, step_rho, emb[e]), ("density", nr, step_r, dens[e])):
                for i in range(n):
                    got = float(toks[pos + i])
                    w = want(fn, float(i) * st)
                    if got != w and problem is None:
                        problem = "%s block of %s, row %d (at %r = %d*%r): file has %r, the function there is %r" % (blk, e, i, float(i) * st, i, st, got, w)
                pos += n
        if problem and bad < 2:
            bad += 1
            run.fail("setfl-mismatch", "setfl on a decimal grid: " + problem, dict(potable_file=cfg))


def replay(run, payload):
    print("replay file holds the failing model (case.potable_file / case.*); re-run ./check C03 to search again")
    return 2
