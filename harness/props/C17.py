"""C17 - no partial table after a failed evaluation.  Exhaustive fault enumeration on small grids: for each target and model shape, EVERY position k of the
failing evaluation among all function evaluations of the write; a recording file object logs every write; the event skeleton of a fault-free run is compared with
the Lean trace model and the content after each failure must be empty.  Through potable: a formula that leaves its domain at a chosen grid point."""
import io
import os

from common import lean_query
import impl

from atsim.potentials import Potential, EAMPotential, writeFuncFL
from atsim.potentials.pair_tabulation import LAMMPS_PairTabulation, DLPoly_PairTabulation, GULP_PairTabulation, Excel_PairTabulation
from atsim.potentials.eam_tabulation import (SetFL_EAMTabulation, SetFL_FS_EAMTabulation, TABEAM_EAMTabulation, TABEAM_FinnisSinclair_EAMTabulation,
                                             Excel_EAMTabulation, Excel_FinnisSinclair_EAMTabulation, ADP_EAMTabulation)


class Boom(Exception):
    pass


class Faulty(object):
    """all callables of one model share a counter; the k-th evaluation overall raises"""

    def __init__(self, ctl, analytic):
        self.ctl = ctl
        if analytic:
            self.deriv = self._deriv

    def _tick(self):
        c = self.ctl
        c["n"] += 1
        c["events"].append("e")
        if c["n"] == c["fail_at"]:
            raise c.get("exc", Boom)("evaluation %d" % c["n"])

    def __call__(self, r):
        self._tick()
        return 1.0 + 0.25 * r

    def _deriv(self, r):
        self._tick()
        return 0.25


class Recorder(object):
    def __init__(self, ctl, binary=False):
        self.ctl = ctl
        self.chunks = []
        self.binary = binary

    def write(self, s):
        if len(s):
            self.chunks.append(s)
            self.ctl["events"].append("w")

    def content(self):
        return (b"" if self.binary else "").join(self.chunks)


def build(target, shape, ctl):
    """-> (tabulation-like object with write(fp), binary?)"""
    npots, nel, nr, nrho, analytic = shape
    f = lambda: Faulty(ctl, analytic)  # noqa: E731
    els = ["Al", "Cu", "Ni"][:nel]
    if target in ("LAMMPS", "DL_POLY", "GULP", "excel"):
        pots = [Potential("A%d" % i, "B", f()) for i in range(npots)]
        cls = dict(LAMMPS=LAMMPS_PairTabulation, DL_POLY=DLPoly_PairTabulation, GULP=GULP_PairTabulation, excel=Excel_PairTabulation)[target]
        return cls(pots, 2.0, nr), target == "excel"
    fs = target.endswith("_fs")
    eams = [EAMPotential(e, 10 + i, 20.0, f(), ({o: f() for o in els} if fs else f()), 3.5, "fcc") for i, e in enumerate(els)]
    pots = [Potential(a, b, f()) for i, a in enumerate(els) for b in els[:i + 1]][:npots]
    args = (pots, eams, 2.0, nr, 1.0, nrho)
    if target == "funcfl":
        class FF(object):
            def write(self, fp):
                writeFuncFL(nrho, 0.5, nr, 0.25, eams[:1], [Potential("Al", "Al", f())], fp)
        return FF(), False
    if target == "eam_adp":
        dip = [Potential(els[0], els[0], f())]
        quad = [Potential(els[-1], els[0], f())]
        return ADP_EAMTabulation(pots, eams, dip, quad, 2.0, nr, 1.0, nrho), False
    cls = dict(setfl=SetFL_EAMTabulation, setfl_fs=SetFL_FS_EAMTabulation, DL_POLY_EAM=TABEAM_EAMTabulation, DL_POLY_EAM_fs=TABEAM_FinnisSinclair_EAMTabulation,
               excel_eam=Excel_EAMTabulation, excel_eam_fs=Excel_FinnisSinclair_EAMTabulation)[target]
    return cls(*args), target.startswith("excel")


TARGETS = ["LAMMPS", "DL_POLY", "GULP", "setfl", "setfl_fs", "DL_POLY_EAM", "DL_POLY_EAM_fs", "funcfl", "eam_adp", "excel", "excel_eam", "excel_eam_fs"]


def check(run):
    # the regenerated writers and their destination-mode twins (`C17_code_*`: one chunk, the whole table, or nothing when the writer itself raises) against the real
    # writers: text byte for byte, and the number of `write` calls that reach a counting destination
    import genlib
    for w in ("lammps", "dlpoly", "gulp"):
        genlib.validate_writer(run, w, n=run.n(8, 60))
    for w in ("setfl", "setfl_fs", "tabeam", "tabeam_fs"):
        genlib.validate_eam_writer(run, w, n=run.n(6, 40))
    genlib.validate_tabulation_objects(run, n=run.n(4, 30))
    run.rule = ("for each of 12 targets and each model shape (quick: 1 shape, thorough: 3 shapes; 1-2 potentials, 1-2 elements, nr 4..8, with/without analytic derivatives): a fault-free run records the "
                "evaluation/write event sequence (compared with the Lean trace), then EVERY k in 1..(number of evaluations) is made to raise and the destination must be empty; "
                "potable: formula leaving its domain at the first / an interior / the last grid point for every text target; distinct = (target, shape, k)")
    run.assumptions += ["the recording file object stands for any destination with write(); action_tabulate opens (truncates) OUTPUT_FILE before write(), so an empty file is the 'nothing written' outcome",
                        "evaluation = one call of a model callable (__call__ or deriv)"]
    run.exhaustive = True
    shapes = [(2, 2, 4, 3, True)] if run.quick else [(2, 2, 4, 3, True), (1, 1, 8, 5, False), (3, 3, 5, 4, True)]
    reqs, plan = [], []
    for target in TARGETS:
        for shape in shapes:
            if target == "DL_POLY":
                shape = shape[:2] + (8,) + shape[3:]          # DL_POLY needs a multiple of four greater than four
            ctl = dict(n=0, fail_at=-1, events=[])
            tab, binary = build(target, shape, ctl)
            rec = Recorder(ctl, binary)
            try:
                tab.write(rec)
            except Exception as e:
                run.fail("fault-free-run-failed", "target %s shape %s: fault-free run raised %s" % (target, shape, e), dict(target=target, shape=shape))
                continue
            skeleton = "".join(ctl["events"])
            total = ctl["n"]
            plan.append((target, shape, skeleton, total, binary))
            reqs.append(dict(m="trace", op="buffered", n=total, ks=list(range(1, total + 1))))
    models = lean_query(reqs)
    for (target, shape, skeleton, total, binary), mo in zip(plan, models):
        if skeleton != mo["trace"]:
            # not the buffered shape: is the property violated? enumerate and see
            run.tie_broken("correspondence", "Atsim.traceBuffered vs %s writer" % target, "event sequence of a fault-free run is %s (evaluations e, writes w), the model says %s" % (compress(skeleton), compress(mo["trace"])))
        nbad = 0
        # every evaluation position x every kind of failure: an ordinary exception, and StopIteration - which a writer that drives its loop with an
        # iterator over the evaluations (map, generator expression, zip) would take for the END of the data and silently truncate the table
        for k, exc in [(k, exc) for k in range(1, total + 1) for exc in (Boom, StopIteration)]:
            ctl = dict(n=0, fail_at=k, events=[], exc=exc)
            tab, binary = build(target, shape, ctl)
            rec = Recorder(ctl, binary)
            raised = False
            try:
                tab.write(rec)
            except (Boom, StopIteration, RuntimeError):
                raised = True
            run.case(key=(target, shape, k, exc.__name__), kind="fault/" + target, sample=dict(target=target, shape=shape, k=k, of=total) if k == 2 and target in ("LAMMPS", "GULP") else None)
            run.traces += 1
            left = rec.content()
            if not raised:
                run.fail("fault-swallowed", "target %s: the failure (%s) of evaluation %d of %d did not propagate out of write(); %d characters were written" % (target, exc.__name__, k, total, len(left)),
                         dict(target=target, shape=shape, k=k, exception=exc.__name__))
                break
            if len(left) == 0 and raised:
                # the caller catches the error and calls write() again on the same object (the fault is gone): whole table or nothing
                ctl["fail_at"] = -1
                rec2 = Recorder(ctl, binary)
                try:
                    tab.write(rec2)
                    again = rec2.content()
                except Exception:
                    again = None
                if again is not None and len(again) > 0:
                    ctl3 = dict(n=0, fail_at=-1, events=[])
                    tab3, _ = build(target, shape, ctl3)
                    rec3 = Recorder(ctl3, binary)
                    tab3.write(rec3)
                    same = (xlsx_cells(again) == xlsx_cells(rec3.content())) if binary else (again == rec3.content())
                    if not same:
                        nbad += 1
                        if nbad == 1:
                            run.fail("partial-table-on-retry", "target %s: evaluation %d of %d fails; a second write() on the same object then emits a table that differs from the complete one "
                                     "(cached partial state)" % (target, k, total), dict(target=target, shape=dict(zip(("npots", "nelements", "nr", "nrho", "analytic"), shape)), failing_evaluation=k))
            if len(left) != 0:
                nbad += 1
                if nbad == 1:
                    key = {"GULP": "gulp-streams-rows", "eam_adp": "adp-three-writes"}.get(target, "partial-table-after-failure")
                    run.fail(key, "target %s: evaluation %d of %d fails and the destination already holds %d characters (%d writes): %r..." % (target, k, total, len(left), len(rec.chunks), left[:60]),
                             dict(target=target, shape=dict(zip(("npots", "nelements", "nr", "nrho", "analytic"), shape)), failing_evaluation=k, evaluations=total, bytes_left=len(left)))
    # ---- potable: a formula outside its domain at a chosen grid point ---------------------------------------------------------------
    for target in ["LAMMPS", "DL_POLY", "GULP", "setfl", "DL_POLY_EAM", "setfl_fs", "DL_POLY_EAM_fs", "eam_adp"]:
        for where, c in (("first", 0.1), ("interior", 1.05), ("last", 1.9)):
            bad = "pymath.sqrt(%r - r)" % c
            eam = target not in ("LAMMPS", "DL_POLY", "GULP")
            cfg = "[Tabulation]\ntarget : %s\ncutoff : 2.0\nnr : 8\n" % target + ("cutoff_rho : 2.0\nnrho : 8\n" if eam else "")
            cfg += "[Potential-Form]\nbad(r) = %s\n" % bad
            if not eam:
                cfg += "[Pair]\nA-A : as.buck 1000.0 0.3 1.0\nA-B : >=0 bad\n"
            else:
                fs = target.endswith("_fs")
                cfg += "[EAM-Embed]\nAl : >=0 as.sqrt 1.0\nCu : >=0 as.sqrt 2.0\n[EAM-Density]\n" + ("Al->Al : >=0 as.bornmayer 1.0 0.5\nCu->Al : >=0 bad\nAl->Cu : as.zero\nCu->Cu : as.zero\n" if fs else "Al : >=0 as.bornmayer 1.0 0.5\nCu : >=0 bad\n")
                cfg += "[Pair]\nAl-Al : as.buck 1000.0 0.3 1.0\n"
                if target == "eam_adp":
                    cfg = cfg.replace("Cu : >=0 bad", "Cu : >=0 as.bornmayer 2.0 0.5") + "[EAM-ADP-Dipole]\nAl-Al : as.buck 10.0 0.3 0.0\n[EAM-ADP-Quadrupole]\nCu-Al : >=0 bad\n"
            r = impl.potable_cli(cfg)
            run.case(key=("potable", target, where), kind="potable-fault/" + target)
            run.traces += 1
            if r["rc"] == 0:
                run.fail("fault-swallowed", "potable target %s: formula %s leaves its domain at the %s grid point but potable exits 0" % (target, bad, where), dict(potable_file=cfg))
            elif r["output"]:
                key = {"GULP": "gulp-streams-rows", "eam_adp": "adp-three-writes"}.get(target, "partial-table-after-failure")
                run.fail(key, "potable target %s: formula %s leaves its domain at the %s grid point; potable exits %s and OUTPUT_FILE holds a truncated table of %d characters" % (
                    target, bad, where, r["rc"], len(r["output"])), dict(potable_file=cfg, exit_status=r["rc"], bytes_left=len(r["output"])))


def xlsx_cells(data):
    import openpyxl
    wb = openpyxl.load_workbook(io.BytesIO(data))
    return [(ws.title, [tuple(r) for r in ws.iter_rows(values_only=True)]) for ws in wb.worksheets]


def compress(s):
    out, i = [], 0
    while i < len(s):
        j = i
        while j < len(s) and s[j] == s[i]:
            j += 1
        out.append("%s%d" % (s[i], j - i))
        i = j
    return " ".join(out)[:200]


def replay(run, payload):
    print("replay:", payload.get("case"))
    return 2
