"""C01 - LAMMPS pair table.  Correspondence of `Atsim.lammpsTable` with the real writer, all routes.

Tracer stream: potentials whose printed values decode exactly to (function id, abscissa).
Real stream: built-in / composed / derivative-less callables on decimal grids, printed numbers
compared with the callable's own doubles (numerical test of printed precision, labelled as such).
"""
import io
import math

from common import Fr, fq, dec, lean_query
import impl
from tracers import potable_real_models, ref_values, eval_noise, ApiTracer, LABELS, dyadic_grid, lammps_tokens, real_potential

from atsim.potentials import Potential, writePotentials
from atsim.potentials.pair_tabulation import LAMMPS_PairTabulation

ROUTES = ["class", "writePotentials", "config", "cli", "config-default-target"]


def gen_case(rng, small=False):
    k = rng.choice([1, 2, 3, 4, 5, 6, 7, 8])
    nr = rng.randint(3, min(12 if small else (400 if rng.random() < 0.05 else 60), 7 * 2 ** k))
    cut = Fr(nr - 1, 2 ** k)
    route = rng.choice(ROUTES)
    npots = rng.randint(1, 5)
    pots = []
    seen = set()
    for fid in range(1, npots + 1):
        for _ in range(20):
            a, b = rng.choice(LABELS), rng.choice(LABELS)
            if route in ("class", "writePotentials") or frozenset((a, b)) not in seen:
                break
        seen.add(frozenset((a, b)))
        pots.append(dict(a=a, b=b, fid=fid, analytic=(rng.random() < 0.5)))
    return dict(cut=fq(cut), nr=nr, pots=pots, route=route)


def cfg_text(case):
    t = "[Tabulation]\n"
    if case["route"] != "config-default-target":
        t += "target : LAMMPS\n"
    t += "cutoff : %s\nnr : %d\n\n[Pair]\n" % (impl.decimal_str(Fr(case["cut"])), case["nr"])
    for p in case["pots"]:
        t += "%s-%s : as.polynomial %d.0 %d.0\n" % (p["a"], p["b"], 64 * p["fid"], p["fid"])
    return t


def run_impl(case):
    cut = float(Fr(case["cut"]))
    nr = case["nr"]
    route = case["route"]
    if route in ("class", "writePotentials"):
        ps = [Potential(p["a"], p["b"], ApiTracer(p["fid"], p["analytic"], "lammps")) for p in case["pots"]]
        s = io.StringIO()
        if route == "class":
            LAMMPS_PairTabulation(ps, cut, nr).write(s)
        else:
            writePotentials("LAMMPS", ps, cut, nr, s)
        return s.getvalue()
    if route == "cli":
        r = impl.potable_cli(cfg_text(case))
        if r["rc"] != 0 or r["output"] is None:
            raise RuntimeError("potable failed rc=%s stderr=%s" % (r["rc"], r["stderr"][-300:]))
        return r["output"]
    return impl.config_tabulate(cfg_text(case))


def model_request(case):
    return dict(m="pair", op="lammps", cut=case["cut"], nr=case["nr"],
                pots=[dict(a=p["a"], b=p["b"], fid=p["fid"]) for p in case["pots"]])


def tokens_of(case, text):
    mode = "api" if case["route"] in ("class", "writePotentials") else "poly"
    return lammps_tokens(text, mode, [p["analytic"] for p in case["pots"]])


def first_diff(a, b, path=""):
    if type(a) != type(b):
        return "%s: impl=%r model=%r" % (path, a, b)
    if isinstance(a, dict):
        for k in sorted(set(a) | set(b)):
            if k not in a or k not in b:
                return "%s.%s: present in %s only" % (path, k, "impl" if k in a else "model")
            d = first_diff(a[k], b[k], path + "." + k)
            if d:
                return d
        return None
    if isinstance(a, list):
        if len(a) != len(b):
            return "%s: length impl=%d model=%d" % (path, len(a), len(b))
        for i, (x, y) in enumerate(zip(a, b)):
            d = first_diff(x, y, "%s[%d]" % (path, i))
            if d:
                return d
        return None
    return None if a == b else "%s: impl=%r model=%r" % (path, a, b)


def compare(case, model):
    try:
        text = run_impl(case)
    except Exception as e:  # the property's quantifier only contains accepted inputs
        return "implementation raised %s: %s" % (type(e).__name__, str(e)[:200]), None
    try:
        toks = tokens_of(case, text)
    except Exception as e:
        return "output does not tokenise as a LAMMPS table: %s" % str(e)[:200], text[:400]
    d = first_diff(toks, model)
    return d, toks


def shrink(case, still_fails):
    best = case
    improved = True
    while improved:
        improved = False
        cands = []
        if len(best["pots"]) > 1:
            for i in range(len(best["pots"])):
                cands.append(dict(best, pots=[best["pots"][i]]))
                cands.append(dict(best, pots=best["pots"][:i] + best["pots"][i + 1:]))
        cut = Fr(best["cut"])
        for nr in (3, 4, 5, best["nr"] // 2):
            if 3 <= nr < best["nr"]:
                cands.append(dict(best, nr=nr, cut=fq(cut / (best["nr"] - 1) * (nr - 1))))
        for c in cands:
            if still_fails(c):
                best = c
                improved = True
                break
    return best


def check(run):
    import genlib
    genlib.validate_tabulation_objects(run, kinds=("lammps",), n=run.n(8, 60))
    genlib.validate_writer(run, "lammps", n=run.n(12, 120))
    run.rule = ("tracer models generated from one PRNG (1-5 potentials, nr 3..400, dyadic cutoffs with 1..8 binary places, "
                "5 routes incl. potable files and the potable entry point); distinct = distinct (route, nr, cutoff, labels, analytic flags); "
                "non-trivial = at least 2 rows and every printed number decoded to (function id, abscissa); "
                "real stream = built-in/composed/derivative-less callables on decimal grids")
    run.assumptions += ["tokeniser lammps_tokens (bytes -> header/rows/slots)",
                        "writers are parametric in the callables (they only call energy/force)",
                        "binary64 rounding of the difference quotient and of the grid is not modelled; tested to printed precision by the real stream",
                        "potable route: linear tracers have a constant force, so the abscissa of the force slot is observable on the API routes only"]
    n = run.n(300, 6000)
    cases = [gen_case(run.rng) for _ in range(n)]
    if not run.quick:  # exhaustive small scope: every nr 3..64 x 4 cutoffs, one potential, class route
        for nr in range(3, 65):
            for k in (1, 3, 5, 8):
                if (nr) <= 7 * 2 ** k:
                    cases.append(dict(cut=fq(Fr(nr - 1, 2 ** k)), nr=nr, route="class",
                                      pots=[dict(a="A", b="B", fid=1, analytic=True), dict(a="O", b="O", fid=2, analytic=False)]))
    models = lean_query([model_request(c) for c in cases])
    bad = 0
    for c, m in zip(cases, models):
        d, toks = compare(c, m)
        run.traces += 1
        key = (c["route"], c["nr"], c["cut"], tuple((p["a"], p["b"], p["analytic"]) for p in c["pots"]))
        run.case(key=key, kind=c["route"], sample=dict(case=c, first_block_header=(m[0]["title"], m[0]["N"], m[0]["lo"], m[0]["hi"])) if run.evaluations < 3 else None)
        run.dist["rows"] += (c["nr"] - 1) * len(c["pots"])
        if d:
            bad += 1
            if bad <= 3:
                def still(cc):
                    mm = lean_query([model_request(cc)])[0]
                    return compare(cc, mm)[0] is not None
                small = shrink(c, still) if bad == 1 else c
                mm = lean_query([model_request(small)])[0]
                dd, tt = compare(small, mm)
                run.fail("lammps-table-mismatch", "LAMMPS table differs from the model (= from the property's predicate, theorem C01_determined): %s" % dd,
                         dict(case=small, route=small["route"], first_difference=dd, impl_tokens=tt, model_tokens=mm, original_case=c))
    real_stream(run)
    potable_real_stream(run)
    api_reuse(run)


def api_reuse(run):
    """the Python API as a program uses it: one tabulation object written, its model changed through the list it exposes, written again; potentials handed over as a
    one-shot iterable.  Every table written must be the table of the potentials the object holds at that moment."""
    rng = run.rng
    reqs, cases = [], []
    for _ in range(run.n(6, 40)):
        nr = rng.randint(3, 20)
        cut = Fr(nr - 1, 2 ** rng.randint(1, 3))
        pots = [dict(a="A%d" % i, b=rng.choice(["O", "A0"]), fid=i + 1, analytic=True) for i in range(rng.randint(2, 4))]
        k = rng.randint(1, len(pots) - 1)
        cases.append((cut, nr, pots, k))
        for sub in (pots[:k], pots):
            reqs.append(dict(m="pair", op="lammps", cut=fq(cut), nr=nr, pots=[dict(a=p["a"], b=p["b"], fid=p["fid"]) for p in sub]))
    models = lean_query(reqs)
    for i, (cut, nr, pots, k) in enumerate(cases):
        m_first, m_all = models[2 * i], models[2 * i + 1]
        mk = lambda sub: [Potential(p["a"], p["b"], ApiTracer(p["fid"], True, "lammps")) for p in sub]
        tab = LAMMPS_PairTabulation(mk(pots[:k]), float(cut), nr)
        s1, s2 = io.StringIO(), io.StringIO()
        tab.write(s1)
        tab.potentials.extend(mk(pots[k:]))
        tab.write(s2)
        run.case(key=("api-reuse", "rewrite", nr, str(cut), k, len(pots)), kind="api-reuse/rewrite-after-change")
        run.traces += 2
        for which, text, model, n in (("first", s1.getvalue(), m_first, k), ("second (after %d potential(s) were appended to .potentials)" % (len(pots) - k), s2.getvalue(), m_all, len(pots))):
            try:
                d = first_diff(lammps_tokens(text, "api", [True] * n), model)
            except Exception as e:
                d = "output does not tokenise as a LAMMPS table: %s" % str(e)[:150]
            if d:
                run.fail("table-not-of-current-model", "LAMMPS_PairTabulation written twice: the %s table differs from the table of the potentials the object then holds: %s" % (which, d),
                         dict(case=dict(cut=fq(cut), nr=nr, pots=pots, first_write=k), route="class, two writes"))
                break
        for kind, wrap in (("generator", lambda l: (x for x in l)), ("iterator", iter)):
            for route in ("writePotentials", "class"):
                s = io.StringIO()
                try:
                    if route == "class":
                        LAMMPS_PairTabulation(wrap(mk(pots)), float(cut), nr).write(s)
                    else:
                        writePotentials("LAMMPS", wrap(mk(pots)), float(cut), nr, s)
                    d = first_diff(lammps_tokens(s.getvalue(), "api", [True] * len(pots)), m_all)
                except Exception as e:
                    d = "raised %s: %s" % (type(e).__name__, str(e)[:100])
                run.case(key=("api-reuse", kind, route, nr, str(cut), len(pots)), kind="api-reuse/one-shot-iterable")
                run.traces += 1
                if d:
                    run.fail("table-not-of-current-model", "%s given the potentials as a %s: %s" % (route, kind, d), dict(case=dict(cut=fq(cut), nr=nr, pots=pots), route=route, iterable=kind))


def potable_real_stream(run):
    """Numerical leg through the configuration-file route: [Pair] entries that are random potential EXPRESSIONS (modifiers, ranges, splines); the energy
    column must be the expression's documented value and the force column minus its derivative (reference: the same expression composed through the
    Python API, differentiated numerically)."""
    nbad = 0
    # crafted models: a factor of a product that is EXACTLY zero on one tabulated row (and not around it) - the force there is a'(r) b(r) + a(r) b'(r) like anywhere else
    from atsim.potentials import potentialfunctions as pf
    crafted = []
    for txt, f, cut, nr in (
            ("product(as.buck 1000.0 0.3 32.0, as.polynomial 1.0 -0.5)", lambda r: pf.buck(r, 1000.0, 0.3, 32.0) * (1.0 - 0.5 * r), 4.0, 9),
            ("product(as.polynomial -3.0 1.0, as.lj 0.1 2.5)", lambda r: (-3.0 + r) * pf.lj(r, 0.1, 2.5), 6.0, 13),
            ("product(as.bornmayer 800.0 0.35, as.polynomial 2.0 -1.0, as.constant 1.5)", lambda r: pf.bornmayer(r, 800.0, 0.35) * (2.0 - r) * 1.5, 5.0, 11),
            ("sum(as.constant 1.0, product(as.polynomial 1.0 -0.25, as.morse 1.2 2.0 0.5))", lambda r: 1.0 + (1.0 - 0.25 * r) * pf.morse(r, 1.2, 2.0, 0.5), 8.0, 17)):
        cfg = "[Tabulation]\ntarget : LAMMPS\ncutoff : %r\nnr : %d\n\n[Pair]\nA0-B : %s\n" % (cut, nr, txt)
        crafted.append((cfg, cut, nr, [("A0", "B", f, [], txt)]))
    for cfg, cut, nr, ents in crafted + potable_real_models(run.rng, run.n(40, 500), "LAMMPS", lambda rng: rng.randint(3, 40)):
        run.case(key=("potable-real", cfg), kind="potable-real", sample=dict(potable_file=cfg) if run.dist.get("potable-real", 0) < 1 else None)
        run.traces += 1
        try:
            out = impl.config_tabulate(cfg)
        except Exception as e:
            # an expression that cannot be evaluated somewhere on the grid (overflow, negative base) is not this property's business
            if isinstance(e, (OverflowError, ZeroDivisionError, ValueError)) or "math" in str(e):
                continue
            raise
        blocks = lammps_tokens(out, "raw", None)
        problem = None
        if len(blocks) != len(ents):
            problem = "block count %d != %d" % (len(blocks), len(ents))
        for (a, b_, f, bounds, txt), blk in zip(ents, blocks):
            if problem:
                break
            for (nrow, r, e, fo) in blk["rows"]:
                rf = float(Fr(nrow) * Fr(repr(cut)) / (nr - 1))
                rv = ref_values(f, rf, bounds + [0.0])
                if rv is None:
                    continue
                ev, slope = rv
                tol_e = 0.51e-8 + 1e-9 * abs(ev) + abs(slope) * 4 * math.ulp(rf) + 2 * eval_noise(f, rf)
                if abs(float(Fr(e)) - ev) > tol_e:
                    problem = "%s-%s : %s, row %d r=%r: energy printed %s, the expression's value is %r" % (a, b_, txt, nrow, rf, e, ev)
                    break
                tol_f = 0.51e-8 + 1e-5 * max(1.0, abs(slope)) + 1e-9 * abs(ev)
                if abs(float(Fr(fo)) + slope) > tol_f:
                    problem = "%s-%s : %s, row %d r=%r: force printed %s, -dE/dr = %r" % (a, b_, txt, nrow, rf, fo, -slope)
                    break
        if problem:
            nbad += 1
            if nbad <= 2:
                run.fail("lammps-potable-real-numeric", "potable real-function stream: " + problem, dict(potable_file=cfg, problem=problem))


def real_stream(run):
    """Numerical leg: printed r, E, F of real potentials against the callable's own doubles."""
    n = run.n(100, 1500)
    rng = run.rng
    nbad = 0
    for i in range(n):
        nr = rng.randint(3, 40)
        cut = round(rng.uniform(2.0, 12.0), rng.choice([1, 2, 3]))
        pots = [real_potential(rng) for _ in range(rng.randint(1, 3))]
        hs = [None] * len(pots)
        if i % 4 == 0:
            # a derivative-less well on a large energy offset, tabulated with a user-chosen differentiation step (Potential(..., h=H)): the central
            # difference of a quadratic is exact for every H (theorem C01_numderiv_quadratic) and its round-off is ~ 1e6*eps/H, i.e. far below the printed
            # precision for the H asked for but visible (~1e-4) if the requested step is dropped in favour of the default 1e-6 (seed C01_5)
            k_, r0_, off_ = round(rng.uniform(0.5, 8.0), 2), round(rng.uniform(1.0, 4.0), 2), float(rng.choice([1e5, 1e6, 4e6]))
            pots.append(("well%g+%g(r-%g)^2,h" % (off_, k_, r0_), (lambda r, k_=k_, r0_=r0_, off_=off_: off_ + k_ * (r - r0_) ** 2), (lambda r, k_=k_, r0_=r0_: 2.0 * k_ * (r - r0_))))
            hs.append(rng.choice([0.05, 0.1, 0.25]))
        ps = [Potential("A%d" % j, "B", f) if h is None else Potential("A%d" % j, "B", f, h) for j, ((desc, f, fref), h) in enumerate(zip(pots, hs))]
        s = io.StringIO()
        if i % 8 == 1 and len(ps) >= 1:
            # a write that fails part-way (a function leaving its domain), after which the corrected model is written to the SAME stream: the stream must
            # then hold exactly one block per potential of that model (seed C01_6; the absence of partial output itself is property C17)
            def broken(r):
                raise ValueError("outside the domain")
            try:
                LAMMPS_PairTabulation(ps + [Potential("Zq", "B", broken)], cut, nr).write(s)
            except ValueError:
                pass
        LAMMPS_PairTabulation(ps, cut, nr).write(s)
        problem = None
        try:
            blocks = lammps_tokens(s.getvalue(), "raw", None)
        except ValueError as e_:
            # the stream does not have the table layout at all (e.g. a block cut short by an earlier failed write, followed by further blocks)
            blocks, problem = [], "layout: %s" % e_
        run.case(key=("real", nr, cut, tuple(d for d, _, _ in pots)), kind="real")
        run.traces += 1
        if not problem and len(blocks) != len(pots):
            problem = "block count %d != %d" % (len(blocks), len(pots))
        for (desc, f, dref), b in zip(pots, blocks):
            if problem:
                break
            if b["N"] != nr - 1 or len(b["rows"]) != nr - 1:
                problem = "N/rows %s/%s != nr-1=%d" % (b["N"], len(b["rows"]), nr - 1)
                break
            for (nrow, r, e, fo) in b["rows"]:
                rq = Fr(nrow) * Fr(cut) / (nr - 1)
                rf = float(rq)
                if abs(Fr(r) - rq) > Fr(1, 10 ** 8) * Fr(51, 100):
                    problem = "%s row %d: r printed %s, grid %s" % (desc, nrow, r, float(rq))
                    break
                ev = f(rf)
                slope = dref(rf)
                if slope is None:
                    continue
                tol_e = 0.51e-8 + 2.0 ** -40 * abs(ev) + abs(slope) * 4 * math.ulp(rf) + 2 * eval_noise(f, rf)
                if abs(float(Fr(e)) - ev) > tol_e:
                    problem = "%s row %d r=%r: energy printed %s, callable gives %r" % (desc, nrow, rf, e, ev)
                    break
                tol_f = 0.51e-8 + 1e-5 * max(1.0, abs(slope)) + 1e-9 * abs(ev)
                if desc.endswith(",h"):
                    tol_f = 0.51e-8 + 1e-6        # exact central difference of a quadratic with the requested step: round-off only
                if abs(float(Fr(fo)) + slope) > tol_f:
                    problem = "%s row %d r=%r: force printed %s, -dE/dr = %r" % (desc, nrow, rf, fo, -slope)
                    break
        if problem:
            nbad += 1
            if nbad <= 2:
                run.fail("lammps-real-numeric", "real-function stream: " + problem, dict(cutoff=cut, nr=nr, potentials=[d for d, _, _ in pots], problem=problem))


def replay(run, payload):
    case = payload.get("case", {}).get("case")
    if not case:
        print("nothing to replay")
        return 2
    m = lean_query([model_request(case)])[0]
    d, toks = compare(case, m)
    print("replay %s: %s" % (case, "property FAILS: " + d if d else "property holds on this input now"))
    return 1 if d else 0
