"""C18 - tabulated input.
(a) legacy TableReader: generated data files (comments, blank lines, indented lines, unsorted rows, with and without a final newline), queries on / between / outside the
    data points: real `TableReader(fileobj)(x)` vs `Atsim.tableReader` on exact rationals, and vs the property's own statement;
(b) [Table-Form] cubic spline: passes through every point, zero outside [x_min, x_max] (both ends inclusive), derivatives are those of the interpolant, x/y lists and xy
    pairs give the identical function - through tableforms.Cubic_Spline_Table_Form and through potable (SciPy contract: tested, not proved);
(c) plotToFile / plot: exactly `steps` rows at x_i = lowx + i*(highx-lowx)/steps with y_i = f(x_i)."""
import io
import os
import tempfile
from fractions import Fraction as Fr

from common import lean_query, fq
import impl
from formlib import close

import atsim.potentials as ap
from atsim.potentials.tableforms import Cubic_Spline_Table_Form


def gen_table(rng, n=None):
    n = n or rng.randint(2, 40)
    xs, x = [], Fr(rng.randint(-24, 8) if rng.random() < 0.4 else rng.randint(0, 8), 4)     # (tables may start at negative abscissae)
    for _ in range(n):
        xs.append(x)
        x += Fr(rng.choice([1, 2, 3, 5, 8, 13]), 8)
    ys = [Fr(rng.randint(-400, 400), 16) for _ in range(n)]
    return xs, ys


def spell(rng, q):
    """one of the spellings of a number that float() reads: plain decimal, without the leading zero (.5, -.25), with an explicit sign (+1.5), with an exponent (1.5e0, 15e-1)"""
    t = impl.decimal_str(q)
    r = rng.random()
    if r < 0.75:
        return t
    if r < 0.85 and abs(q) < 1 and q != 0:
        return t.replace("0.", ".", 1)
    if r < 0.92 and q >= 0:
        return "+" + t
    if r < 0.96:
        return t + "e0"
    return impl.decimal_str(q * 10) + "e-1"


def file_text(rng, xs, ys, final_newline=True, shuffle=True):
    rows = list(zip(xs, ys))
    if shuffle:
        rng.shuffle(rows)
    lines = []
    for (x, y) in rows:
        if rng.random() < 0.15:
            lines.append(rng.choice(["# a comment", "", "   ", "  # indented comment"]))
        sep = rng.choice([" ", "  ", "\t", " \t "])
        extra = rng.choice(["", "", " 99.5", "\t# trailing"]) if rng.random() < 0.2 else ""
        lines.append(("  " if rng.random() < 0.1 else "") + spell(rng, x) + sep + spell(rng, y) + extra)
    t = "\n".join(lines)
    return t + ("\n" if final_newline else "")


def spec_value(xs, ys, q):
    """the property: tabulated y at tabulated x, linear interpolant between neighbours, 0 outside"""
    if q < xs[0] or q > xs[-1]:
        return Fr(0)
    for i, x in enumerate(xs):
        if x == q:
            return ys[i]
    for i in range(len(xs) - 1):
        if xs[i] < q < xs[i + 1]:
            return ys[i] + (q - xs[i]) * (ys[i + 1] - ys[i]) / (xs[i + 1] - xs[i])
    return Fr(0)


def check(run):
    import genlib
    genlib.validate_table_reader(run, n=run.n(150, 1500))
    run.rule = ("(a) 2..40-row tables on uneven dyadic grids rendered as data files with comments / blank / indented lines, shuffled row order, extra columns, with and without a final newline; "
                "queries at every data point, between neighbours and outside; (b) 4..200-point table forms (uneven spacing), x/y vs xy, API and potable, on/in/out queries, Richardson check of "
                "deriv/deriv2; (c) plotToFile for random ranges and step counts; distinct = (file text | data, query)")
    run.assumptions += ["SciPy's InterpolatedUnivariateSpline(k=3, ext=1) and its derivative() are an external library: their contract is tested here, not proved",
                        "float arithmetic of the linear interpolation is compared with the exact rational model to 1e-12"]
    rng = run.rng
    # ---- (a) TableReader -------------------------------------------------------------------------------------------------------
    reqs, plan = [], []
    for i in range(run.n(150, 3000)):
        xs, ys = gen_table(rng)
        nl = rng.random() < 0.6
        txt = file_text(rng, xs, ys, final_newline=nl)
        qs = list(xs) + [(a + b) / 2 for a, b in zip(xs, xs[1:])] + [xs[0] - Fr(1, 3), xs[-1] + Fr(1, 7), xs[0] + Fr(1, 1024)]
        reqs.append(dict(m="table", op="reader", rows=[[fq(x), fq(y)] for x, y in zip(xs, ys)], xs=[fq(q) for q in qs]))
        plan.append((xs, ys, txt, nl, qs))
    # closely spaced rows far from the origin (a fine table of a steep wall, x in the hundreds, spacing 1e-3..1e-5) queried right next to the rows: the interpolated value
    # must still be the interpolant - between the two neighbouring y values - to the same 1e-12 (round-6 observation: m*x + c with c = ly - m*lx cancels there)
    for i in range(run.n(20, 300)):
        n = rng.randint(2, 6)
        x0 = Fr(rng.randint(100000, 999999), 1000)
        gap = Fr(1, rng.choice([1000, 10000, 100000]))
        xs = [x0 + k * gap for k in range(n)]
        ys = [Fr(rng.randint(-1000, 1000), 100) for _ in range(n)]
        nl = True
        txt = "".join("%s %s\n" % (repr(float(x)), repr(float(y))) for x, y in zip(xs, ys))
        xs = [Fr(float(x)) for x in xs]
        ys = [Fr(float(y)) for y in ys]
        if any(a >= b for a, b in zip(xs, xs[1:])):
            continue
        qs = list(xs)
        for a, b in zip(xs, xs[1:]):
            qs += [a + (b - a) / 2, Fr(float(b) - 1e-13 * float(b)), Fr(float(a) + 1e-13 * float(a)), a + (b - a) * Fr(rng.randint(1, 999), 1000)]
        qs = [Fr(float(q)) for q in qs]                      # the query points are doubles: the specification is evaluated at exactly the point the reader is given
        qs = [q for q in qs if xs[0] <= q <= xs[-1]]
        reqs.append(dict(m="table", op="reader", rows=[[fq(x), fq(y)] for x, y in zip(xs, ys)], xs=[fq(q) for q in qs]))
        plan.append((xs, ys, txt, nl, qs))
    ans = lean_query(reqs)
    nb = 0
    for (xs, ys, txt, nl, qs), a in zip(plan, ans):
        run.case(key=("reader", txt), kind="tablereader/" + ("final-newline" if nl else "no-final-newline"), sample=dict(file=txt[:300]) if run.evaluations < 2 else None)
        run.traces += 1
        try:
            tr = ap.TableReader(io.StringIO(txt))
            got = [tr(float(q)) for q in qs]
        except Exception as e:
            nb += 1
            if nb <= 3:
                run.fail("tablereader-last-row-without-newline" if not nl else "tablereader-value", "TableReader on a %d-row file (%s final newline) raised %s: %s" % (len(xs), "with" if nl else "WITHOUT", type(e).__name__, e),
                         dict(file_text=txt))
            continue
        want = [spec_value(xs, ys, q) for q in qs]
        bad = [(float(q), g, float(w)) for q, g, w in zip(qs, got, want) if not close(g, float(w), 1e-12, 1e-12)]
        if bad:
            nb += 1
            if nb <= 3:
                run.fail("tablereader-last-row-without-newline" if not nl else "tablereader-value",
                         "TableReader(x=%r) = %r, the file tabulates / interpolates to %r (%s final newline)" % (bad[0] + ("with" if nl else "WITHOUT",)), dict(file_text=txt, mismatches=bad[:5]))
            continue
        model = [float(Fr(x)) for x in a]
        if any(not close(g, m, 1e-12, 1e-12) for g, m in zip(got, model)):
            run.tie_broken("correspondence", "Atsim.tableReader vs TableReader", "file %r: impl %s model %s" % (txt[:200], got[:6], model[:6]))
    # a data file that holds comments and blank lines only (no rows): every x lies outside the (empty) range, so the reader returns 0 everywhere
    for txt in ("", "# nothing yet\n\n   \n# x y\n", "\n"):
        run.case(key=("reader-empty", txt), kind="tablereader/no-rows")
        try:
            tr = ap.TableReader(io.StringIO(txt))
            got = [tr(q) for q in (-1.0, 0.0, 2.5)]
        except Exception as e:
            run.fail("tablereader-value", "TableReader on a file without data rows (%r): %s: %s; every x is outside the data range, so the value is 0" % (txt, type(e).__name__, e), dict(file_text=txt))
            break
        if got != [0.0, 0.0, 0.0]:
            run.fail("tablereader-value", "TableReader on a file without data rows returns %s, expected 0 everywhere" % (got,), dict(file_text=txt))
            break
    # ---- (b) table forms ----------------------------------------------------------------------------------------------------------
    nb = 0
    for i in range(run.n(60, 1200)):
        n = rng.choice([4, 5, 6, 9, 17, 40, 200]) if i % 4 else rng.randint(4, 30)
        xs, ys = gen_table(rng, n)
        xf, yf = [float(x) for x in xs], [float(y) for y in ys]
        f_api = Cubic_Spline_Table_Form(xf, yf)
        run.case(key=("tableform", tuple(xf), tuple(yf)), kind="table-form")
        run.traces += 1
        problems = []
        for x, y in zip(xf, yf):
            if not close(f_api(x), y, 1e-9, 1e-9):
                problems.append("f(%r) = %r, tabulated %r" % (x, f_api(x), y))
                break
        for x in (xf[0] - 0.25, xf[0] - 1e-9, xf[-1] + 1e-9, xf[-1] + 3.0):
            if f_api(x) != 0.0 or f_api.deriv(x) != 0.0:
                problems.append("f(%r) = %r outside [%r, %r]" % (x, f_api(x), xf[0], xf[-1]))
                break
        # derivatives of the interpolant
        for _ in range(3):
            i0 = rng.randrange(len(xf) - 1)
            gap = xf[i0 + 1] - xf[i0]
            x = xf[i0] + 0.5 * gap               # mid-way between two knots: the interpolant is one cubic on the whole stencil
            h = 1e-3 * gap
            h = 1e-2 * gap

            def rich(g):                         # exact for polynomials up to degree 4
                dd = lambda hh: (g(x + hh) - g(x - hh)) / (2 * hh)  # noqa: E731
                return (4 * dd(h / 2) - dd(h)) / 3
            d, d2 = rich(f_api), rich(f_api.deriv)
            amp = max(abs(v) for v in yf) + 1.0
            if abs(f_api.deriv(x) - d) > 1e-5 * abs(d) + 1e-6 * amp / gap or abs(f_api.deriv2(x) - d2) > 1e-5 * abs(d2) + 1e-6 * amp / gap ** 2:
                problems.append("deriv(%r) = %r / deriv2 = %r, differences of the interpolant give %r / %r" % (x, f_api.deriv(x), f_api.deriv2(x), d, d2))
                break
        # potable: x / y lists vs xy pairs
        xtxt = " ".join(repr(v) for v in xf)
        ytxt = " ".join(repr(v) for v in yf)
        # `xy` is a whitespace-separated list of values taken pairwise: one pair per row, several pairs per row or everything on one row are the same data (seed C18_6)
        per_row = rng.choice([1, 1, 2, 3, 6, len(xf)])
        flat = ["%r %r" % p for p in zip(xf, yf)]
        xytxt = "\n   ".join("  ".join(flat[i:i + per_row]) for i in range(0, len(flat), per_row))
        cfg = ("[Tabulation]\ntarget : LAMMPS\ncutoff : 10.0\nnr : 11\n[Pair]\nA-A : >=0 tab_a\nB-B : >=0 tab_b\n[Table-Form:tab_a]\ninterpolation : cubic_spline\nx : %s\ny : %s\n"
               "[Table-Form:tab_b]\nxy : %s\n") % (xtxt, ytxt, xytxt)
        try:
            from atsim.potentials.config import Configuration
            pots = Configuration().read(io.StringIO(cfg)).potentials
            for t in range(12):
                x = xf[0] - 0.1 + (xf[-1] - xf[0] + 0.2) * t / 11.0
                if x < 0:
                    continue
                va, vb, vc = pots[0].energy(x), pots[1].energy(x), f_api(x)
                if not (va == vb == vc):
                    problems.append("at x=%r: x/y lists give %r, xy pairs give %r, the Python class gives %r" % (x, va, vb, vc))
                    break
            if xf[-1] > 0 and pots[0].energy(xf[-1]) != f_api(xf[-1]):
                problems.append("potable table form at x_max differs from the class")
        except Exception as e:
            problems.append("potable [Table-Form] refused: %s: %s" % (type(e).__name__, str(e)[:150]))
        if problems:
            nb += 1
            if nb <= 3:
                run.fail("table-form", "table form with %d points: %s" % (n, problems[0]), dict(x=xf, y=yf, problems=problems))
    # ---- (c) plotToFile -------------------------------------------------------------------------------------------------------------
    reqs, plan = [], []
    for i in range(run.n(40, 600)):
        lowx = Fr(rng.randint(0, 40), 8)
        highx = lowx + Fr(rng.randint(1, 80), 8)
        steps = rng.choice([1, 2, 3, 7, 10, 64, 100, rng.randint(1, 300)])
        reqs.append(dict(m="table", op="plot", lowx=fq(lowx), highx=fq(highx), steps=steps))
        plan.append((lowx, highx, steps))
    ans = lean_query(reqs)
    # decimal (non-dyadic) ranges x every step count 1..N: the row count must be exactly `steps` however (highx-lowx)/steps rounds
    # (expected abscissae computed here in exact rational arithmetic of the decimal values)
    for (lo_s, hi_s) in (("0.0", "1.0"), ("1.0", "6.5"), ("0.1", "10.0"), ("0.5", "12.0"), ("0.3", "0.9")):
        for steps in range(1, run.n(130, 600) + 1):
            lo_q, hi_q = Fr(lo_s), Fr(hi_s)
            plan.append((lo_q, hi_q, steps))
            ans.append([fq(lo_q + Fr(i) * (hi_q - lo_q) / steps) for i in range(steps)])
    nb = 0
    for (lowx, highx, steps), a in zip(plan, ans):
        f = lambda x: 3.0 * x * x - x + 0.5  # noqa: E731
        route = "plotToFile" if steps % 2 else "plot"
        run.case(key=("plot", lowx, highx, steps), kind="plot")
        run.traces += 1
        try:
            text = plot_text(route, lowx, highx, f, steps)
        except Exception as e:
            nb += 1
            if nb <= 2:
                run.fail("plot-rows", "%s(lowx=%r, highx=%r, steps=%d) raised %s: %s" % (route, float(lowx), float(highx), steps, type(e).__name__, e), dict(lowx=float(lowx), highx=float(highx), steps=steps))
            continue
        rows = [l.split() for l in text.split("\n") if l.strip()]
        want = [float(Fr(x)) for x in a]
        problem = None
        if len(rows) != steps:
            problem = "%d rows written, steps = %d" % (len(rows), steps)
        else:
            for i, (r, w) in enumerate(zip(rows, want)):
                if len(r) != 2 or not close(float(r[0]), w, 1e-12, 1e-12):
                    problem = "row %d has x = %s, expected lowx + i*(highx-lowx)/steps = %r" % (i, r[:1], w)
                    break
                if not close(float(r[1]), f(float(r[0])), 1e-12, 1e-12):
                    problem = "row %d has y = %s, f(x) = %r" % (i, r[1], f(float(r[0])))
                    break
        if problem:
            nb += 1
            if nb <= 2:
                run.fail("plot-rows", "%s(lowx=%r, highx=%r, steps=%d): %s" % (route, float(lowx), float(highx), steps, problem), dict(lowx=float(lowx), highx=float(highx), steps=steps))


def plot_text(route, lowx, highx, f, steps):
    if route == "plotToFile":
        s = io.StringIO()
        ap.plotToFile(s, float(lowx), float(highx), f, steps)
        return s.getvalue()
    d = tempfile.mkdtemp(prefix="verif_plot_")
    try:
        p = os.path.join(d, "plot.dat")
        ap.plot(p, float(lowx), float(highx), f, steps)
        return open(p).read()
    finally:
        import shutil
        shutil.rmtree(d, ignore_errors=True)


def replay(run, payload):
    print("replay:", payload.get("case"))
    return 2
