"""C06 - built-in forms evaluate their documented formula in documented argument order, identically through all access routes."""
import inspect
import io
import math

from common import lean_query
import impl
import formlib
from formlib import pfn, pfo, DOMAIN, DOC, DOC_SIGNATURE, close, me, ans_float


def potable_energy(defn_lines, form_lines=()):
    cfg = "[Tabulation]\ntarget : LAMMPS\ncutoff : 10.0\nnr : 11\n[Pair]\n" + "\n".join(defn_lines) + "\n"
    if form_lines:
        cfg += "[Potential-Form]\n" + "\n".join(form_lines) + "\n"
    from atsim.potentials.config import Configuration
    tab = Configuration().read(io.StringIO(cfg))
    return tab.potentials


def f_direct(n, r, ps):
    return getattr(pfn, n)(r, *ps)


def num(x):
    return repr(float(x))


def check(run):
    run.rule = ("for each registered built-in form: (a) the generated Lean term of __call__ evaluated at Float vs the Python method on random (r, params) - translator validation; "
                "(b) four access routes (potential function f(r,p..), factory f(p..)(r), potable 'as.NAME p..', custom formula as.NAME(r,p..)) must return the identical double; "
                "(c) the documented formula (hand transcription of the reference manual) vs the real function at random points incl. zero/negative parameters, relative 1e-9; "
                "(d) polynomial orders 0..8 against the hand model; distinct = (form, route, point)")
    run.assumptions += ["statements over R: binary64 rounding and libm exp/log/pow are not modelled", "documented formulas in Props/C06.lean and formlib.DOC are hand transcriptions of docs/reference/potential_forms.rst",
                        "Tang-Toennies: the Lean side proves only auxiliary facts; code vs documented formula (with the 27.211 eV / 0.5292 A unit conversion) is compared numerically"]
    rng = run.rng
    formlib.validate_literals(run)
    formlib.validate_translator(run, whiches=("call",), npts=run.n(150, 3000))
    names = formlib.form_names()
    # registry really is what we think it is (a new or renamed form is noticed)
    live = sorted(n for n, o in inspect.getmembers(pfn) if getattr(o, "is_potential", False) and not inspect.isclass(o))
    unknown = [n for n in live if n not in DOMAIN and n != "polynomial"]
    if unknown:
        run.tie_broken("correspondence", "registered forms", "forms without a model/documented formula: %s" % unknown)
    # ---- signatures --------------------------------------------------------------------------------------------------
    for n in names:
        sig = [p for p in inspect.signature(getattr(pfn, n).__call__).parameters][1:]
        run.case(key=("sig", n), kind="signature")
        if sig != DOC_SIGNATURE[n]:
            run.fail("form-signature", "as.%s takes parameters %s, documented signature is %s" % (n, sig, DOC_SIGNATURE[n]), dict(form=n, signature=sig))
    # ---- documented formula + routes ---------------------------------------------------------------------------------
    npts = run.n(120, 4000)
    nroute = run.n(6, 40)
    zbl_manual_dev = 0.0
    for n in names:
        f = getattr(pfn, n)
        nb = 0
        for i in range(npts):
            ps = DOMAIN[n](rng)
            r = formlib.r_value(rng, n)
            try:
                v = f(r, *ps)
                d = DOC[n](r, *ps)
            except (OverflowError, ZeroDivisionError, ValueError):
                continue
            run.case(key=(n, r, tuple(ps)), kind="doc/" + n, sample=dict(form=n, r=r, params=ps, value=v, documented=d) if i == 0 and n in ("buck", "zbl") else None)
            tol = 1e-9
            scale = abs(d) + (sum(abs(x) for x in ps) * 1e-6 if n in ("tang_toennies",) else 0.0)
            if not close(v, d, tol, 1e-12 * (1.0 + scale)):
                nb += 1
                if nb <= 1:
                    run.fail("form-value", "as.%s(r=%r, %s) = %r, documented formula gives %r" % (n, r, ", ".join("%s=%r" % kv for kv in zip(DOC_SIGNATURE[n], ps)), v, d),
                             dict(form=n, r=r, params=dict(zip(DOC_SIGNATURE[n], ps)), value=v, documented=d))
            if n == "zbl":
                m = formlib.doc_zbl_manual(r, *ps)
                if m != 0 and abs(v) > 1e-30:
                    zbl_manual_dev = max(zbl_manual_dev, abs(v - m) / abs(m))
            if i < nroute:
                routes = {"function": v}
                try:
                    routes["factory"] = getattr(pfo, n)(*ps)(r)
                    args = " ".join(num(x) for x in ps)
                    # the formula language does not distinguish upper and lower case: AS.Buck(r, ..) is the same call (round-6 seed C06_7)
                    cased = "".join(ch.upper() if rng.random() < 0.5 else ch for ch in "as." + n)
                    pots = potable_energy(["A-B : >=0 as.%s %s" % (n, args), "C-D : >=0 viaformula", "E-F : >=0 viacase"],
                                          ["viaformula(r) = as.%s(%s)" % (n, ", ".join(["r"] + [num(x) for x in ps])),
                                           "viacase(r) = %s(%s)" % (cased, ", ".join(["r"] + [num(x) for x in ps]))])
                    routes["potable"] = pots[0].energy(r)
                    routes["formula"] = pots[1].energy(r)
                    routes["formula, name written %s" % cased] = pots[2].energy(r)
                except Exception as e:
                    run.fail("form-route", "as.%s: access route raised %s: %s" % (n, type(e).__name__, str(e)[:200]), dict(form=n, r=r, params=ps))
                    continue
                run.traces += 1
                # function / factory / potable share one code path and must agree exactly; in the formula route the parameters are
                # re-parsed from text by exprtk's own number parser (not correctly rounded), so 1e-12 relative is allowed there
                vals = set(repr(routes[k]) for k in ("function", "factory", "potable"))
                if len(vals) != 1 or any(not close(routes[k], routes["function"], 1e-12, 1e-300) for k in routes if k.startswith("formula")):
                    run.fail("form-route", "as.%s at r=%r params %s: access routes disagree: %s" % (n, r, ps, routes), dict(form=n, r=r, params=ps, routes=routes))
    # ---- many entries of the SAME form in one model: each entry keeps its own parameters ---------------------------------------
    # (parameter lists that differ in one position only, small integers of both signs and equal-looking values included: anything shared between
    # entries - a cache, a re-used object, a closure over a loop variable - shows up as one entry evaluating another entry's parameters)
    for n in names:
        nparam = len(DOC_SIGNATURE[n])
        if nparam == 0:
            continue
        for rep in range(run.n(2, 12)):
            base = DOMAIN[n](rng)
            variants = [list(base)]
            for pos in range(nparam):
                for alt in (-2.0, -1.0, 1.0, 2.0, base[pos] + 0.5):
                    if n == "zbl" and alt <= 0:
                        continue
                    v = list(base)
                    v[pos] = alt
                    if v not in variants:
                        variants.append(v)
            rng.shuffle(variants)
            variants = variants[:8]
            # entries whose parameters agree with the first one to six, nine or twelve significant digits and differ beyond (round-9 seed C06_10: parametrisations
            # re-used under a key that prints the parameters with `{:g}`): each entry evaluates with ITS OWN parameters
            for pos in range(nparam):
                for rel in (3e-8, -7e-11, 2e-14):
                    v = list(base)
                    v[pos] = base[pos] * (1 + rel) if base[pos] != 0 else rel
                    if v not in variants and not (n == "zbl" and v[pos] <= 0) and rng.random() < 0.5:
                        variants.append(v)
            lines = ["X%d-Y : >=0 as.%s %s" % (i, n, " ".join((str(int(x)) if float(x).is_integer() and rng.random() < 0.5 else num(x)) for x in v)) for i, v in enumerate(variants)]
            try:
                pots = potable_energy(lines)
            except Exception as e:
                run.fail("form-route", "as.%s: a model with %d entries of the form raised %s: %s" % (n, len(lines), type(e).__name__, str(e)[:200]), dict(form=n, lines=lines))
                continue
            bylabel = dict((p.speciesA, p) for p in pots)
            r = formlib.r_value(rng, n)
            run.case(key=("multi-entry", n, tuple(map(tuple, variants))), kind="multi-entry/" + n)
            run.traces += 1
            for i, v in enumerate(variants):
                try:
                    want = f_direct(n, r, v)
                    got = bylabel["X%d" % i].energy(r)
                except (OverflowError, ZeroDivisionError, ValueError):
                    continue
                if not (got == want or (got != got and want != want)):
                    run.fail("form-route", "model with %d entries of as.%s: entry %r evaluates to %r at r=%r, as.%s with its own parameters %s gives %r" % (
                        len(lines), n, lines[i], got, r, n, v, want), dict(form=n, potable_pair_section=lines, r=r, entry=i))
                    break
    run.extra["zbl_max_relative_deviation_from_reference_manual_constants"] = zbl_manual_dev
    if zbl_manual_dev > 1e-9:
        run.fail("zbl-manual-constants", "as.zbl evaluates the ZBL-1985 constant set (0.8854*0.529; 0.1818/3.2 ...); the reference manual prints the universal set "
                 "(0.46850; 0.18175/3.19980 ...): relative deviation up to %.3g" % zbl_manual_dev, dict(form="zbl", max_relative_deviation=zbl_manual_dev))
    # ---- polynomials of different orders evaluated one after the other AT THE SAME r (the module holds one polynomial object for all of them: anything it keeps
    #      from the previous evaluation - powers of r, a coefficient list - must not leak into the next; round-6 seed C06_8) --------------------------------------
    for rep in range(run.n(12, 120)):
        r0 = formlib.rnd(rng, 0.1, 5.0, 3)
        orders = [rng.randint(0, 8) for _ in range(6)]
        seq = [[formlib.rnd(rng, -5, 5, 3) for _ in range(o + 1)] for o in orders]
        run.case(key=("poly-sequence", r0, tuple(orders)), kind="doc/polynomial-sequence")
        run.traces += 1
        for cs in seq:
            v = pfn.polynomial(r0, *cs)
            d = sum(c * r0 ** i for i, c in enumerate(cs))
            if not close(v, d, 1e-12, 1e-12):
                run.fail("form-value", "polynomials of orders %s evaluated one after the other at r=%r: as.polynomial(r, %s) = %r, sum c_i r^i = %r" % (orders, r0, cs, v, d),
                         dict(form="polynomial", r=r0, sequence=seq, coefs=cs))
                break
        else:
            if rep < run.n(3, 20):
                # the same through a potable sum of two polynomials of different order (both evaluated at each r)
                a, b = seq[0], seq[1]
                try:
                    pot = potable_energy(["A-B : >=0 sum(as.polynomial %s, as.polynomial %s)" % (" ".join(num(x) for x in a), " ".join(num(x) for x in b))])[0]
                    v = pot.energy(r0)
                except Exception as e:
                    run.fail("form-route", "sum of two polynomials raised %s: %s" % (type(e).__name__, str(e)[:200]), dict(form="polynomial", a=a, b=b))
                    continue
                d = sum(c * r0 ** i for i, c in enumerate(a)) + sum(c * r0 ** i for i, c in enumerate(b))
                if not close(v, d, 1e-12, 1e-12):
                    run.fail("form-value", "sum(as.polynomial %s, as.polynomial %s) at r=%r = %r, the two polynomials add up to %r" % (a, b, r0, v, d), dict(form="polynomial", r=r0, a=a, b=b))
    # ---- polynomial, orders 0..8 ----------------------------------------------------------------------------------------
    pts = []
    for order in range(0, 9):
        for _ in range(run.n(15, 300)):
            cs = [rng.choice([0.0, formlib.rnd(rng, -5, 5, 3)]) for _ in range(order + 1)]
            pts.append([formlib.rnd(rng, 0.0, 6.0, 4) if rng.random() < 0.9 else 0.0] + cs)
    ans = lean_query([dict(m="expr", op="poly", which="call", points=[[me(float(x)) for x in p] for p in pts])])[0]
    for p, a in zip(pts, ans):
        r, cs = p[0], p[1:]
        v = pfn.polynomial(r, *cs)
        d = sum(c * r ** i for i, c in enumerate(cs))
        run.case(key=("poly", tuple(p)), kind="doc/polynomial")
        run.traces += 1
        if not close(v, d, 1e-12, 1e-12):
            run.fail("form-value", "as.polynomial(r=%r, %s) = %r, sum c_i r^i = %r" % (r, cs, v, d), dict(form="polynomial", r=r, coefs=cs))
            break
        if not close(ans_float(a), v, 1e-13, 1e-300):
            run.tie_broken("correspondence", "Atsim.polyCall vs potentialfunctions.polynomial", "r=%r coefs=%s impl=%r model=%r" % (r, cs, v, ans_float(a)))
            break


def replay(run, payload):
    c = payload.get("case", {})
    print("replay:", c)
    return 2
