"""C15 - [Variables] substitution equals textual substitution and changes nothing else.
Generated pair / EAM / Finnis-Sinclair / table-form models; random literal values are lifted into [Variables] (`${NAME}`) or replaced by cross references (`${SECTION:KEY}`),
unused variables are added (including names that resemble keys of other sections: 'A-B', 'nr', 'Al', 'f(r,a)');
(1) resolved values of every option: real parser vs `Atsim.resolveVal`; (2) tabulated bytes of the templated file vs the hand-substituted file, all text targets;
(3) adding unused variables changes neither the outcome nor a byte."""
import io
import re

from common import lean_query
import impl

from atsim.potentials.config import ConfigParser, Configuration


def gen_model(rng):
    kind = rng.choice(["pair", "pair", "eam", "fs", "table"])
    secs = []
    target = {"pair": rng.choice(["LAMMPS", "GULP", "DL_POLY"]), "table": "LAMMPS", "eam": rng.choice(["setfl", "DL_POLY_EAM"]), "fs": rng.choice(["setfl_fs", "DL_POLY_EAM_fs"])}[kind]
    # any two of nr / dr / cutoff (and of nrho / drho / cutoff_rho); the target may be left to its default for pair models:
    # a section that does NOT give a key is where an unrelated variable of that name could leak in
    tab = [] if (kind == "pair" and target == "LAMMPS" and rng.random() < 0.5) else [["target", target]]
    tab += rng.choice([[["cutoff", "4.0"], ["nr", "8"]], [["cutoff", "3.5"], ["dr", "0.5"]], [["nr", "8"], ["dr", "0.5"]]])
    if kind in ("eam", "fs"):
        tab += rng.choice([[["cutoff_rho", "2.5"], ["nrho", "6"]], [["cutoff_rho", "2.5"], ["drho", "0.5"]], [["nrho", "6"], ["drho", "0.5"]]])
    secs.append(["Tabulation", tab])
    if kind in ("pair", "table"):
        pair = [["A-B", "as.buck 1000.0 0.3 32.0"], ["B-B", "sum(as.bornmayer 500.0 0.25, as.constant 1.5)"], ["A-A", "myform 2.5 0.75"]]
        if kind == "table":
            pair.append(["O-O", ">=0 tab1"])
            secs.append(["Table-Form:tab1", rng.choice([[["x", "0.0 1.0 2.0 3.0 4.0"], ["y", "8.0 4.0 2.0 1.0 0.5"]], [["xy", "0.0 8.0 1.0 4.0 2.0 2.0 3.0 1.0 4.0 0.5"]]])])
        secs.append(["Pair", pair])
        secs.append(["Potential-Form", [["myform(r, a, b)", "a*exp(-r/b) + 0.125"]]])
        # a section header with no entries of its own: it has NO options, whatever [Variables] holds (C15_code_options)
        if rng.random() < 0.3:
            secs.append(["Species", []])
    else:
        secs.append(["Pair", [["Al-Al", "as.buck 1000.0 0.3 32.0"], ["Xx-Al", "as.bornmayer 200.0 0.35"]]])
        secs.append(["EAM-Embed", [["Al", "as.sqrt 1.5"], ["Xx", "as.sqrt 0.75"]]])
        if kind == "eam":
            secs.append(["EAM-Density", [["Al", "as.bornmayer 10.0 0.5"], ["Xx", "as.bornmayer 4.0 0.25"]]])
        else:
            secs.append(["EAM-Density", [["Al->Al", "as.bornmayer 10.0 0.5"], ["Al->Xx", "as.bornmayer 3.0 0.5"], ["Xx->Al", "as.bornmayer 5.0 0.25"]]])
        secs.append(["Species", [["Xx.atomic_number", "120"], ["Xx.atomic_mass", "300.5"], ["Al.lattice_constant", "4.05"]]])
        if rng.random() < 0.3:
            secs.append(["Potential-Form", []])
    return kind, secs


NUM = re.compile(r"(?<![\w.])(\d+\.\d+|\d+)(?![\w.])")


def templatise(rng, secs):
    """-> (templated sections with values as part lists, variables list, unused variable list)"""
    vars_ = []
    out = []
    cross_sources = [("Tabulation", "cutoff")]
    for name, kvs in secs:
        nkvs = []
        for k, v in kvs:
            parts, pos = [], 0
            for m in NUM.finditer(v):
                if rng.random() < 0.35 and not (name == "Tabulation" and k in ("target",)):
                    parts.append(["lit", v[pos:m.start()]])
                    choice = rng.random()
                    if choice < 0.75 or name == "Tabulation":
                        vn = "v%d" % len(vars_)
                        if rng.random() < 0.3:
                            vn = rng.choice(["rho_Al", "A_param", "my var", "nr2", "cut off"]) + str(len(vars_))
                        if rng.random() < 0.3:
                            # chained: the variable is defined through another variable (one or two levels; by name or as ${Variables:NAME})
                            inner = "w%d" % len(vars_)
                            vars_.append([inner, [["lit", m.group(0)]]])
                            if rng.random() < 0.3:
                                mid = "u%d" % len(vars_)
                                vars_.append([mid, [["ref", inner]]])
                                inner = mid
                            vars_.append([vn, [["ref", inner]] if rng.random() < 0.6 else [["xref", "Variables", inner]]])
                        else:
                            vars_.append([vn, [["lit", m.group(0)]]])
                        parts.append(["ref", vn])
                    else:
                        # a cross reference to another option whose text is exactly a number is used only when it equals the literal: otherwise lift into a variable
                        vn = "x%d" % len(vars_)
                        vars_.append([vn, [["lit", m.group(0)]]])
                        parts.append(["xref", "Variables", vn])
                    pos = m.end()
            parts.append(["lit", v[pos:]])
            nkvs.append([k, [p for p in parts if p[1] != "" or p[0] != "lit"] or [["lit", ""]]])
        out.append([name, nkvs])
    unused = [[n, [["lit", val]]] for n, val in [("A-B", "as.zero"), ("nr", "3"), ("Al", "as.zero"), ("f(r,a)", "a*r"), ("unused", "1.0"), ("Al->Al", "x"), ("target", "GULP"), ("x", "1 2 3"),
                                                         ("dr", "0.25"), ("cutoff", "7.0"), ("nrho", "9"), ("drho", "0.1"), ("cutoff_rho", "9.0"), ("y", "1 1 1"), ("xy", "0 1 1 2"), ("interpolation", "cubic_spline")] if rng.random() < 0.3]
    return out, vars_, unused


def part_text(p):
    return p[1] if p[0] == "lit" else ("${%s}" % p[1] if p[0] == "ref" else "${%s:%s}" % (p[1], p[2]))


def render(tsecs, variables):
    t = ""
    if variables:
        t += "[Variables]\n" + "".join("%s : %s\n" % (k, "".join(part_text(p) for p in v)) for k, v in variables) + "\n"
    for name, kvs in tsecs:
        t += "[%s]\n" % name
        for k, parts in kvs:
            t += "%s : %s\n" % (k, "".join(part_text(p) for p in parts) if isinstance(parts, list) else parts)
        t += "\n"
    return t


def tabulate(cfg):
    oc, v = impl.outcome_of(lambda: impl.config_tabulate(cfg))
    return oc, (v if oc == "ok" else None)


def check(run):
    run.rule = ("pair / EAM / Finnis-Sinclair / table-form models; ~35% of the numeric literals of every section are lifted into [Variables] (${NAME}) or referenced as ${Variables:NAME}; "
                "0..8 unused variables whose names resemble keys of other sections; compared: resolved option values (real parser vs Lean model), tabulated bytes templated vs substituted, "
                "and with vs without the unused variables; distinct = templated file text")
    run.assumptions += ["configparser.ExtendedInterpolation is the standard library's; modelled by Atsim.resolveVal and compared on every option value",
                        "a variable that shadows nothing and is referenced nowhere is 'unused'"]
    rng = run.rng
    # the regenerated `_RawConfigParser.has_option` / `_own_option` / `optionxform` (`C15_code_has_option`: a section's options are its own entries) against the real parser
    import genlib
    from props.C14 import gen_file as _gen14, render as _render14, lines_of as _lines14
    _files = []
    for _ in range(run.n(30, 300)):
        _secs = _gen14(rng)[0]
        _files.append((_render14(_secs), _lines14(_secs), _secs))
    genlib.validate_raw_parser(run, _files, n=len(_files))
    cases = []
    for _ in range(run.n(150, 3000)):
        kind, secs = gen_model(rng)
        tsecs, variables, unused = templatise(rng, secs)
        cases.append((kind, secs, tsecs, variables, unused))
    reqs = [dict(m="interp", op="resolve", sections=[[n, [[k.replace(" ", ""), parts] for k, parts in kvs]] for n, kvs in tsecs], vars=[[k.replace(" ", ""), v] for k, v in variables + unused])
            for (kind, secs, tsecs, variables, unused) in cases]
    models = lean_query(reqs)
    nb = 0
    for (kind, secs, tsecs, variables, unused), mo in zip(cases, models):
        templated = render(tsecs, variables)
        templated_unused = render(tsecs, variables + unused)
        substituted = render([[n, [[k, [["lit", v]]] for k, v in kvs]] for n, kvs in secs], [])
        run.case(key=templated_unused, kind="%s%s/%d-vars/%d-unused" % (kind, "+empty-section" if any(not kvs for _, kvs in secs) else "", len(variables), len(unused)), sample=dict(templated_file=templated_unused) if run.evaluations < 2 else None)
        run.traces += 1
        desc = dict(templated_file=templated_unused, substituted_file=substituted)
        # (1) resolved values
        try:
            rp = ConfigParser(io.StringIO(templated_unused)).raw_config_parser
            got = [[n, [[k.replace(" ", ""), rp[n][k]] for k, _ in kvs]] for n, kvs in tsecs]
        except Exception as e:
            got = "raised %s: %s" % (type(e).__name__, str(e)[:160])
        want = [[n, [[k.replace(" ", ""), v] for k, v in kvs]] for n, kvs in secs]
        if got != want:
            nb += 1
            if nb <= 3:
                run.fail("variables-leak-into-sections" if isinstance(got, str) and "ValueError" in got else "placeholder-resolution", "option values of the templated file: %s; the substituted file holds %s" % (
                    got if isinstance(got, str) else [x for x, y in zip(sum([kv for _, kv in got], []), sum([kv for _, kv in want], [])) if x != y][:3], "the literal values"), dict(case=desc))
            continue
        mgot = [[n, [[k.replace(" ", ""), v] for k, v in kvs]] for n, kvs in mo]
        if mgot != want:
            run.tie_broken("correspondence", "Atsim.resolveVal vs ExtendedInterpolation", "file %r: model %s" % (templated_unused[:300], mgot))
        # (2) + (3) bytes
        o_sub = tabulate(substituted)
        o_tpl = tabulate(templated)
        o_unu = tabulate(templated_unused)
        if o_tpl != o_sub:
            nb += 1
            if nb <= 3:
                run.fail("variables-leak-into-sections" if (o_tpl[0].startswith("internal") and variables) else "templated-output-differs", "tabulating the templated file gives %s, the hand-substituted file gives %s" % (
                    o_tpl[0] if o_tpl[0] != "ok" else "%d bytes" % len(o_tpl[1]), o_sub[0] if o_sub[0] != "ok" else "%d bytes" % len(o_sub[1])), dict(case=desc))
        elif o_unu != o_tpl:
            nb += 1
            if nb <= 3:
                run.fail("variables-leak-into-sections" if o_unu[0].startswith("internal") else "unused-variable-changes-meaning", "defining the unreferenced variables %s changes the result from %s to %s" % (
                    [u[0] for u in unused], o_tpl[0] if o_tpl[0] != "ok" else "%d bytes" % len(o_tpl[1]), o_unu[0] if o_unu[0] != "ok" else "%d bytes" % len(o_unu[1])), dict(case=desc))


def replay(run, payload):
    print("replay:", payload.get("case"))
    return 2
