"""C10 - splined potentials.  (a) the coefficient vector of the real Exp_Spline / Buck4_Spline objects solves the GENERATED linear
system (residual of the theorem's hypothesis, and validation of the extracted matrices); (b) region selection, shape and C2 join
conditions measured on the real callables; (c) upward-shift model; (d) the three construction routes give identical doubles."""
import io
import math

from common import lean_query
import formlib
from formlib import pfo, close, me, ans_float, rnd

import atsim.potentials as ap
from atsim.potentials.spline import Exp_Spline, Buck4_Spline, Spline_Point, Custom_SplinePotential, Buck4_SplinePotential


def start_pot(rng):
    k = rng.choice(["zbl", "bornmayer", "buck", "bornmayer"])
    if k == "zbl":
        ps = [float(rng.randint(2, 92)), float(rng.randint(2, 92))]
    elif k == "bornmayer":
        ps = [rnd(rng, 200, 5000, 1), rnd(rng, 0.15, 0.45, 3)]
    else:
        ps = [rnd(rng, 500, 5000, 1), rnd(rng, 0.2, 0.4, 3), rnd(rng, 0, 20, 1)]
    return k, ps


def end_pot(rng):
    k = rng.choice(["buck", "buck-disp", "lj", "morse", "buck", "zero", "zero-constant"])
    if k == "zero":
        return "zero", []                      # an end potential that is EXACTLY zero at the attach point (value, slope and curvature): the exponential spline shifts it upwards
    if k == "zero-constant":
        return "constant", [0.0]
    if k == "buck":
        return "buck", [rnd(rng, 500, 3000, 1), rnd(rng, 0.2, 0.4, 3), rnd(rng, 5, 80, 1)]
    if k == "buck-disp":
        return "buck", [0.0, 1.0, rnd(rng, 5, 80, 1)]
    if k == "lj":
        return "lj", [rnd(rng, 0.005, 0.3, 4), rnd(rng, 2.0, 3.2, 2)]
    return "morse", [rnd(rng, 0.8, 2.0, 2), rnd(rng, 1.8, 3.0, 2), rnd(rng, 0.1, 3.0, 2)]


def text(k, ps):
    return "as.%s %s" % (k, " ".join(repr(float(x)) for x in ps))


def potable_callable(defn):
    cfg = "[Tabulation]\ntarget : LAMMPS\ncutoff : 10.0\nnr : 11\n[Pair]\nA-B : %s\n" % defn
    from atsim.potentials.config import Configuration
    return Configuration().read(io.StringIO(cfg)).potentials[0].potentialFunction


def potable_wrapped_callable(c):
    """the same spline through potable with start and end potentials given as custom formulas that merely call the built-in forms
    (`ws(r, p..) = as.NAME(r, p..)`): such potentials offer no analytic derivatives, so the joins are built from numerical ones"""
    (sk, sp), (ek, ep) = c["start"], c["end"]
    sargs = ["p%d" % i for i in range(len(sp))]
    eargs = ["q%d" % i for i in range(len(ep))]
    forms = "ws(%s) = as.%s(%s)\nwe(%s) = as.%s(%s)\n" % (", ".join(["r"] + sargs), sk, ", ".join(["r"] + sargs), ", ".join(["r"] + eargs), ek, ", ".join(["r"] + eargs))
    mid = "exp_spline" if c["kind"] == "exp" else "buck4_spline %r" % c["rm"]
    defn = "spline(ws %s >%r %s >=%r we %s)" % (" ".join(repr(float(x)) for x in sp), c["rd"], mid, c["ra"], " ".join(repr(float(x)) for x in ep))
    cfg = "[Tabulation]\ntarget : LAMMPS\ncutoff : 10.0\nnr : 11\n[Potential-Form]\n%s[Pair]\nA-B : %s\n" % (forms, defn)
    from atsim.potentials.config import Configuration
    return Configuration().read(io.StringIO(cfg)).potentials[0].potentialFunction, cfg


def rel(a, b, scale=0.0):
    return abs(a - b) <= 2e-6 * max(abs(a), abs(b), scale) + 1e-9


def check(run):
    import genlib
    genlib.validate_spline_modifier(run, n=run.n(80, 800))
    run.rule = ("random start/end potentials from the built-in forms (zbl, bornmayer, buck -> buck, dispersion-only buck, lj, morse), detach in [0.6,1.5], attach = detach + [0.4,1.5], "
                "r_min strictly between; for each: coefficients of the real spline object inserted into the generated system (relative residual <= 1e-7), regions, shape, one-sided join "
                "conditions for value/deriv/deriv2 at detach, attach (and r_min), upward-shift constant, and identical doubles from the Python classes, the spline() modifier and as.buck4")
    run.assumptions += ["numpy.linalg.solve is a hypothesis of the theorems (M c = V); its residual is measured here", "conditioning of the linear solve is not modelled: join conditions are "
                        "compared to 2e-6 relative"]
    rng = run.rng
    cases = []
    for i in range(run.n(120, 3000)):
        sk, sp = start_pot(rng)
        ek, ep = end_pot(rng)
        rd = round(rng.uniform(0.6, 1.5), 3)
        ra = round(rd + rng.uniform(0.4, 1.5), 3)
        rm = round(rd + (ra - rd) * rng.uniform(0.25, 0.75), 3)
        cases.append(dict(kind=("exp" if i % 2 == 0 else "buck4"), start=(sk, sp), end=(ek, ep), rd=rd, ra=ra, rm=rm))
    reqs = []
    built = []
    for c in cases:
        s = getattr(pfo, c["start"][0])(*c["start"][1])
        e = getattr(pfo, c["end"][0])(*c["end"][1])
        dp, apt = Spline_Point(s, c["rd"]), Spline_Point(e, c["ra"])
        try:
            if c["kind"] == "exp":
                sp = Exp_Spline(dp, apt)
                coefs = list(sp.spline_coefficients)
                shift = -coefs[6]
                params = [c["rd"], c["ra"], dp.v + shift, apt.v + shift, dp.deriv, apt.deriv, dp.deriv2, apt.deriv2]
            else:
                sp = Buck4_Spline(dp, apt, c["rm"])
                coefs = list(sp.spline_coefficients)
                params = [c["rd"], c["rm"], c["ra"], dp.v, dp.deriv, dp.deriv2, apt.v, apt.deriv, apt.deriv2]
        except Exception as ex:
            run.fail("spline-construction", "%s spline of %s -> %s (detach %s, attach %s) raised %s: %s" % (c["kind"], c["start"], c["end"], c["rd"], c["ra"], type(ex).__name__, ex), dict(case=c))
            built.append(None)
            reqs.append(dict(m="expr", op="system", name="exp", params=[me(0.0)] * 8))
            continue
        built.append((s, e, dp, apt, sp, coefs, params))
        reqs.append(dict(m="expr", op="system", name=c["kind"], params=[me(float(x)) for x in params]))
    systems = lean_query(reqs)
    nbad = 0
    for c, b, sysm in zip(cases, built, systems):
        if b is None:
            continue
        s, e, dp, apt, sp, coefs, params = b
        run.case(key=(c["kind"], str(c["start"]), str(c["end"]), c["rd"], c["ra"], c["rm"]), kind=c["kind"], sample=dict(case=c, coefficients=coefs) if run.evaluations < 2 else None)
        run.traces += 1
        desc = dict(kind=c["kind"], start=text(*c["start"]), end=text(*c["end"]), detach=c["rd"], attach=c["ra"], r_min=c["rm"])
        problems = []
        # (a) hypothesis residual against the generated system
        if sysm == "untranslatable":
            run.tie_broken("translator", "spline system %s" % c["kind"], "matrix literal outside the translated fragment")
        else:
            M = [[ans_float(x) for x in row] for row in sysm["M"]]
            V = [ans_float(x) for x in sysm["V"]]
            cvec = coefs[:6] if c["kind"] == "exp" else coefs
            for i, (row, v) in enumerate(zip(M, V)):
                lhs = sum(a * x for a, x in zip(row, cvec))
                sc = sum(abs(a * x) for a, x in zip(row, cvec)) + abs(v)
                if abs(lhs - v) > 1e-7 * sc + 1e-9:
                    run.tie_broken("correspondence", "generated %s system vs coefficients of the real spline object" % c["kind"],
                                   "row %d: M.c = %r, V = %r for %s" % (i, lhs, v, desc))
                    break
        f = Custom_SplinePotential(sp)
        # (b) regions
        for r in (0.3 * c["rd"], c["rd"] - 1e-9, c["rd"]):
            if f(r) != s(r):
                problems.append("f(%r) = %r differs from the start potential %r (r <= detach)" % (r, f(r), s(r)))
        for r in (c["ra"], c["ra"] + 1e-9, 2.5 * c["ra"]):
            if f(r) != e(r):
                problems.append("f(%r) = %r differs from the end potential %r (r >= attach)" % (r, f(r), e(r)))
        # shape
        mid = [c["rd"] + (c["ra"] - c["rd"]) * t for t in (0.1, 0.37, 0.5, 0.81)]
        for r in mid:
            if c["kind"] == "exp":
                want = math.exp(sum(coefs[i] * r ** i for i in range(6))) + coefs[6]
            else:
                cc = coefs[:6] if r < c["rm"] else coefs[6:]
                want = sum(x * r ** i for i, x in enumerate(cc))
            if not close(f(r), want, 1e-9, 1e-9):
                problems.append("inside the splined region f(%r) = %r, advertised shape gives %r" % (r, f(r), want))
        # (c) shift
        if c["kind"] == "exp":
            sy, ey = dp.v, apt.v
            want_c = -(1.0 - min(sy, ey)) if (sy <= 0.0 or ey <= 0.0) else 0.0
            if coefs[6] != want_c:
                problems.append("constant term C = %r, upward-shift rule gives %r (end values %r, %r)" % (coefs[6], want_c, sy, ey))
        # C2 joins: one-sided limits of the spline part against the end potentials
        eps = 1e-9
        # the floor of each comparison is the size of that quantity over the spline as a whole (the larger of its two end values / slopes /
        # curvatures): the six coefficients come out of ONE linear solve, so its rounding error at either end is relative to the larger end - an end potential that is
        # exactly zero at its join (as.constant 0, as.zero) has slope 0 there and the spline's slope is 6e-6 when the other end has slope 2800 (found by the thorough
        # tier on the clean tree; section 6.1).  With the 2e-6 of `rel` the joins are held to 2e-6 of the spline's own scale (the linear solve loses up to eight digits when an end value is large and negative: conditioning, which the property excludes).
        whole = max(abs(dp.v), abs(apt.v)) + 1.0
        whole1 = max(abs(p_.deriv) + abs(p_.v) / x_ for p_, x_ in ((dp, c["rd"]), (apt, c["ra"])))
        whole2 = max(abs(p_.deriv2) + abs(p_.deriv) / x_ + abs(p_.v) / x_ ** 2 for p_, x_ in ((dp, c["rd"]), (apt, c["ra"])))
        for (x, pt, nm) in ((c["rd"], dp, "detach"), (c["ra"], apt, "attach")):
            scale_v = abs(pt.v) + 1.0
            if not rel(sp(x), pt.v, max(scale_v, whole)):
                problems.append("value jump at %s: spline %r, potential %r" % (nm, sp(x), pt.v))
            if not rel(sp.deriv(x), pt.deriv, max(abs(pt.v) / x, whole1)):
                problems.append("slope jump at %s: spline %r, potential %r" % (nm, sp.deriv(x), pt.deriv))
            if not rel(sp.deriv2(x), pt.deriv2, max(abs(pt.deriv) / x + abs(pt.v) / x ** 2, whole2)):
                problems.append("curvature jump at %s: spline %r, potential %r" % (nm, sp.deriv2(x), pt.deriv2))
        if c["kind"] == "buck4":
            rm = c["rm"]
            s5, s3 = sp.spline5, sp.spline3
            sc = abs(s5(rm)) + 1.0
            if abs(s5.deriv(rm)) > 2e-6 * (abs(dp.deriv) + abs(apt.deriv) + 1):
                problems.append("slope at r_min is %r, not 0" % s5.deriv(rm))
            if not rel(s5(rm), s3(rm), sc) or not rel(s5.deriv(rm), s3.deriv(rm), abs(dp.deriv) + 1) or not rel(s5.deriv2(rm), s3.deriv2(rm), abs(dp.deriv2) + 1):
                problems.append("quintic and cubic do not meet smoothly at r_min: %r/%r, %r/%r, %r/%r" % (s5(rm), s3(rm), s5.deriv(rm), s3.deriv(rm), s5.deriv2(rm), s3.deriv2(rm)))
        # deriv / deriv2 of the splined potential come from the same region as the value
        for r, part, nm in [(0.5 * c["rd"], s, "start"), (c["rd"], s, "start"), (mid[1], sp, "spline"), (mid[3], sp, "spline"), (c["ra"], e, "end"), (1.7 * c["ra"], e, "end")]:
            if f.deriv(r) != part.deriv(r):
                problems.append("deriv(%r) = %r is not the %s part's derivative %r" % (r, f.deriv(r), nm, part.deriv(r)))
            if f.deriv2(r) != part.deriv2(r):
                problems.append("deriv2(%r) = %r is not the %s part's second derivative %r" % (r, f.deriv2(r), nm, part.deriv2(r)))
        # (d) routes
        try:
            if c["kind"] == "exp":
                g = potable_callable("spline(%s >%r exp_spline >=%r %s)" % (text(*c["start"]), c["rd"], c["ra"], text(*c["end"])))
                h = ap.SplinePotential(s, e, c["rd"], c["ra"])
                others = [("spline() modifier", g), ("SplinePotential", h)]
            else:
                g = potable_callable("spline(%s >%r buck4_spline %r >=%r %s)" % (text(*c["start"]), c["rd"], c["rm"], c["ra"], text(*c["end"])))
                h = Buck4_SplinePotential(s, e, c["rd"], c["ra"], c["rm"])
                others = [("spline() modifier", g), ("Buck4_SplinePotential", h)]
            for nm, g in others:
                for t in range(25):
                    r = 0.05 + t * (2.2 * c["ra"] / 25.0)
                    a, bb = f(r), g(r)
                    if not close(a, bb, 1e-12, 1e-12):
                        problems.append("%s gives %r at r=%r, the spline classes give %r" % (nm, bb, r, a))
                        break
        except Exception as ex:
            problems.append("potable spline() route raised %s: %s" % (type(ex).__name__, str(ex)[:150]))
        # (e) start / end potentials without analytic derivatives (custom formulas wrapping the same built-in forms): same function up to the error
        #     of the numerical end-point derivatives (h = 1e-6 central differences: relative 1e-8..1e-6 on the coefficients)
        if len(problems) == 0 and (run.evaluations % 3 == 0):
            try:
                gw, wcfg = potable_wrapped_callable(c)
                scale = abs(dp.v) + abs(apt.v) + 1e-3
                for t in range(41):
                    r = 0.6 * c["rd"] + t * ((1.3 * c["ra"] - 0.6 * c["rd"]) / 40.0)
                    a, bb = f(r), gw(r)
                    if abs(a - bb) > 2e-4 * max(abs(a), scale):
                        problems.append("spline() of custom-formula wrappers of the same forms gives %r at r=%r, the spline classes give %r (potable file: %r)" % (bb, r, a, wcfg))
                        break
            except Exception as ex:
                problems.append("potable spline() of custom-formula wrappers raised %s: %s" % (type(ex).__name__, str(ex)[:150]))
        if problems:
            nbad += 1
            if nbad <= 3:
                run.fail("spline-join", "%s spline %s -> %s: %s" % (c["kind"], desc["start"], desc["end"], problems[0]), dict(case=desc, problems=problems[:6]))
    # definitions that differ in ONE datum only, built one after the other in this process (a scan of the attach point, of the detach point, of r_min, of one parameter of
    # an end potential; several [Pair] entries of one file that differ there): each must be the spline of ITS OWN data - nothing remembered from a definition built
    # before may be handed out (round-6 seed C10_12: a memo of solved splines whose key lacked the attach point)
    for i in range(run.n(8, 80)):
        sk, sp = start_pot(rng)
        ek, ep = end_pot(rng)
        kind = "exp" if i % 2 == 0 else "buck4"
        rd = round(rng.uniform(0.6, 1.5), 3)
        ra = round(rd + rng.uniform(0.6, 1.5), 3)
        rm = round(rd + (ra - rd) * 0.5, 3)
        base = dict(start=(sk, list(sp)), end=(ek, list(ep)), rd=rd, ra=ra, rm=rm)
        variants = [dict(base)]
        for what in ("ra", "rd", "rm", "ra", "end", "start"):
            v = dict(variants[-1] if rng.random() < 0.5 else base)
            if what == "ra":
                v["ra"] = round(v["ra"] + rng.choice([-0.15, 0.2, 0.35]), 3)
            elif what == "rd":
                v["rd"] = round(v["rd"] + rng.choice([-0.1, 0.1]), 3)
            elif what == "rm":
                v["rm"] = round(v["rm"] + rng.choice([-0.05, 0.07]), 3)
            elif what == "end":
                q = list(v["end"][1])
                if not q:
                    continue
                q[-1] = q[-1] * 1.25 + 0.5
                v["end"] = (v["end"][0], q)
            else:
                q = list(v["start"][1])
                if not q:
                    continue
                q[0] = q[0] * 1.1 + 1.0
                v["start"] = (v["start"][0], q)
            if v["rd"] < v["rm"] < v["ra"] and v["ra"] - v["rd"] > 0.3:
                variants.append(v)
        defs = []
        for v in variants:
            mid = "exp_spline" if kind == "exp" else "buck4_spline %r" % v["rm"]
            defs.append("spline(%s >%r %s >=%r %s)" % (text(*v["start"]), v["rd"], mid, v["ra"], text(*v["end"])))
        cfg = "[Tabulation]\ntarget : LAMMPS\ncutoff : 10.0\nnr : 11\n[Pair]\n" + "".join("S%d-X : %s\n" % (j, d) for j, d in enumerate(defs))
        run.case(key=("one-datum-apart", kind, cfg), kind="one-datum-apart/" + kind)
        run.traces += 1
        try:
            from atsim.potentials.config import Configuration
            pots = dict((p.speciesA, p.potentialFunction) for p in Configuration().read(io.StringIO(cfg)).potentials)
            singles = [potable_callable(d) for d in defs]
        except Exception as ex:
            run.fail("spline-construction", "a file with %d spline() definitions that differ in one datum each raised %s: %s" % (len(defs), type(ex).__name__, str(ex)[:200]), dict(potable_file=cfg))
            continue
        done = False
        for j, v in enumerate(variants):
            s0, e0 = getattr(pfo, v["start"][0])(*v["start"][1]), getattr(pfo, v["end"][0])(*v["end"][1])
            try:
                ref = ap.SplinePotential(s0, e0, v["rd"], v["ra"]) if kind == "exp" else Buck4_SplinePotential(s0, e0, v["rd"], v["ra"], v["rm"])
            except Exception:
                continue
            for route, g in (("entry %d of the file" % j, pots["S%d" % j]), ("definition %d read on its own, after the others" % j, singles[j])):
                for t in range(30):
                    r = 0.05 + t * (1.6 * v["ra"] / 30.0)
                    a, bb = ref(r), g(r)
                    if not close(a, bb, 1e-12, 1e-12):
                        run.fail("spline-history", "%s: %s gives %r at r=%r, the spline of its own data (detach %r, attach %r%s) gives %r; the definitions built before it differ from it in one datum"
                                 % (route, defs[j], bb, r, v["rd"], v["ra"], "" if kind == "exp" else ", r_min %r" % v["rm"], a), dict(potable_file=cfg, entry=j, r=r))
                        done = True
                        break
                if done:
                    break
            if done:
                break
    # as.buck4 shorthand: three routes
    for i in range(run.n(25, 400)):
        A, rho, C = rnd(rng, 300, 3000, 1), rnd(rng, 0.2, 0.4, 3), rnd(rng, 5, 60, 1)
        if rng.random() < 0.2:
            C = 0.0               # no dispersion term: the spline must still take the Born-Mayer part down to ZERO at r_attach (seed C10_7)
        rd = round(rng.uniform(0.9, 1.6), 3)
        rm = round(rd + rng.uniform(0.3, 0.8), 3)
        ra = round(rm + rng.uniform(0.3, 0.8), 3)
        f1 = pfo.buck4(A, rho, C, rd, rm, ra)
        f2 = potable_callable("as.buck4 %r %r %r %r %r %r" % (A, rho, C, rd, rm, ra))
        f3 = potable_callable("spline(as.buck %r %r 0.0 >%r buck4_spline %r >%r as.buck 0.0 1.0 %r)" % (A, rho, rd, rm, ra, C))
        run.case(key=("buck4-routes", A, rho, C, rd, rm, ra), kind="buck4-routes")
        run.traces += 1
        for t in range(50):
            r = 0.05 + t * (2.0 * ra / 50.0)
            v1, v2, v3 = f1(r), f2(r), f3(r)
            if not (close(v1, v2, 1e-12, 1e-12) and close(v1, v3, 1e-9, 1e-9)):
                run.fail("buck4-routes", "as.buck4 %s: at r=%r potentialforms.buck4 %r, potable as.buck4 %r, documented spline() shorthand %r" % ((A, rho, C, rd, rm, ra), r, v1, v2, v3),
                         dict(A=A, rho=rho, C=C, r_detach=rd, r_min=rm, r_attach=ra, r=r))
                break


def replay(run, payload):
    print("replay:", payload.get("case"))
    return 2
