"""C16 - malformed models give configuration errors; valid models are never rejected.
Well-formed base models (pair with modifiers / splines / custom and table forms, EAM, Finnis-Sinclair, ADP) x a catalogue of single structural mutations covering every
section of the input format (each operator knows the outcome the reference manual requires: configuration error, or still valid).  Observable: class of the exception leaving
Configuration().read()+write(); for the potable entry point: exit status, the 'configuration error - ' prefix on stderr, and no table in OUTPUT_FILE after a refusal."""
import io
import re

from common import lean_query
import impl

from atsim.potentials.config import Configuration
from atsim.potentials.config._common import ConfigurationException

TAB_PAIR = "[Tabulation]\ntarget : LAMMPS\ncutoff : 4.0\nnr : 8\n\n"
TAB_EAM = "[Tabulation]\ntarget : setfl\ncutoff : 4.0\nnr : 8\ncutoff_rho : 2.0\nnrho : 4\n\n"

BASE = {
    "pair": TAB_PAIR + "[Pair]\nSi-O : as.buck 1000.0 0.3 32.0\nO-O : sum(as.bornmayer 500.0 0.25, as.constant 1.0) >=2.0 as.zero\nAl-O : myform 2.5\nMg-O : >=0 tab1\n"
            "Xe-Xe : spline(>0 as.zbl 54 54 >=0.8 exp_spline >=1.4 as.buck 1000.0 0.3 32.0)\nU-O : spline(as.bornmayer 900.0 0.3 >1.0 buck4_spline 1.5 >2.0 as.buck 0.0 1.0 30.0)\n"
            "Kr-Kr : trans(as.lj 0.01 3.0, as.constant 0.5)\n\n[Potential-Form]\nmyform(r,a) = a*exp(-r)\n\n[Table-Form:tab1]\ninterpolation : cubic_spline\nx : 0 1 2 3 4\ny : 4 3 2 1 0\n",
    "eam": TAB_EAM + "[Pair]\nAl-Cu : as.buck 1000.0 0.3 32.0\n\n[EAM-Embed]\nAl : as.sqrt 1.0\nCu : as.sqrt 2.0\n\n[EAM-Density]\nAl : as.bornmayer 10.0 0.5\nCu : as.bornmayer 5.0 0.5\n\n"
           "[Species]\nCu.lattice_constant : 3.61\nCu.lattice_type : fcc\n",
    "fs": TAB_EAM.replace("setfl", "setfl_fs") + "[Pair]\nAl-Cu : as.buck 1000.0 0.3 32.0\n\n[EAM-Embed]\nAl : as.sqrt 1.0\nCu : as.sqrt 2.0\n\n"
          "[EAM-Density]\nAl->Al : as.bornmayer 10.0 0.5\nAl->Cu : as.bornmayer 7.0 0.5\nCu->Al : as.bornmayer 5.0 0.5\nCu->Cu : as.bornmayer 3.0 0.5\n",
    "adp": TAB_EAM.replace("setfl", "eam_adp") + "[Pair]\nAl-Al : as.buck 1000.0 0.3 32.0\n\n[EAM-Embed]\nAl : as.sqrt 1.0\n\n[EAM-Density]\nAl : as.bornmayer 10.0 0.5\n\n"
           "[EAM-ADP-Dipole]\nAl-Al : as.bornmayer 1.0 0.5\n\n[EAM-ADP-Quadrupole]\nAl-Al : as.bornmayer 2.0 0.5\n",
}


def sub(text, old, new, count=1):
    assert old in text, (old, text[:200])
    return text.replace(old, new, count)


def catalogue():
    """(operator id, base, mutated text, required outcome 'cfg' | 'ok', description)"""
    P, E, F, A = BASE["pair"], BASE["eam"], BASE["fs"], BASE["adp"]
    ops = []

    def add(i, base, text, req, what):
        ops.append((i, base, text, req, what))
    # ---- Tabulation
    add("target-unknown", "pair", sub(P, "target : LAMMPS", "target : FOO"), "cfg", "unknown target")
    add("target-lowercase", "pair", sub(P, "target : LAMMPS", "target : lammps"), "cfg", "target in the wrong case")
    for t in ["DL_POLY", "DLPOLY", "GULP", "excel", "LAMMPS"]:
        add("target-valid-" + t, "pair", sub(P, "target : LAMMPS", "target : " + t), "ok", "documented target %s" % t)
    for t in ["LAMMPS_eam_alloy", "setfl", "DL_POLY_EAM", "excel_eam"]:
        add("target-valid-" + t, "eam", sub(E, "target : setfl", "target : " + t), "ok", "documented target %s" % t)
    add("target-omitted", "pair", sub(P, "target : LAMMPS\n", ""), "ok", "target omitted (LAMMPS default)")
    add("tab-all-three", "pair", sub(P, "nr : 8", "nr : 8\ndr : 0.5"), "cfg", "nr, dr and cutoff all given")
    add("tab-dr-alone", "pair", sub(P, "cutoff : 4.0\nnr : 8", "dr : 0.5"), "cfg", "dr alone")
    add("tab-drho-alone", "eam", sub(E, "cutoff_rho : 2.0\nnrho : 4", "drho : 0.5"), "cfg", "drho alone")
    add("tab-nr-text", "pair", sub(P, "nr : 8", "nr : eight"), "cfg", "non-numeric nr")
    add("tab-nr-float", "pair", sub(P, "nr : 8", "nr : 8.0"), "cfg", "non-integer nr")
    add("tab-cutoff-text", "pair", sub(P, "cutoff : 4.0", "cutoff : four"), "cfg", "non-numeric cutoff")
    add("tab-nr-zero", "pair", sub(P, "nr : 8", "nr : 0"), "cfg", "nr zero")
    add("tab-nr-negative", "pair", sub(P, "nr : 8", "nr : -8"), "cfg", "nr negative")
    add("tab-cutoff-negative", "pair", sub(P, "cutoff : 4.0", "cutoff : -4.0"), "cfg", "cutoff negative")
    add("tab-nr-one", "pair", sub(P, "nr : 8", "nr : 1"), "cfg", "a one-row table")
    add("tab-nrho-one", "eam", sub(E, "nrho : 4", "nrho : 1"), "cfg", "a one-row density grid")
    add("tab-dlpoly-not-mult-4", "pair", sub(sub(P, "target : LAMMPS", "target : DL_POLY"), "nr : 8", "nr : 10"), "cfg", "DL_POLY row count not divisible by four")
    # a step larger than the extent: the DERIVED row count is 1 (validated only after the values have been combined)
    add("tab-dr-exceeds-cutoff", "pair", sub(P, "cutoff : 4.0\nnr : 8", "cutoff : 1.0\ndr : 2.5"), "cfg", "dr larger than cutoff (one-row grid derived from cutoff/dr)")
    add("tab-drho-exceeds-cutoff-rho", "eam", sub(E, "cutoff_rho : 2.0\nnrho : 4", "cutoff_rho : 1.0\ndrho : 2.5"), "cfg", "drho larger than cutoff_rho (one-row density grid)")
    add("tab-dr-exceeds-cutoff-gulp", "pair", sub(sub(P, "target : LAMMPS", "target : GULP"), "cutoff : 4.0\nnr : 8", "cutoff : 1.0\ndr : 2.5"), "cfg", "dr larger than cutoff, target GULP")
    add("tab-lammps-two-rows", "pair", sub(P, "nr : 8", "nr : 2"), "not-internal", "LAMMPS table of two grid points (one row): accepted or refused, but not an internal error")
    # placeholders in sections the parser does not list among its 'known' sections but the tabulation reads: [Species], ADP sections
    add("species-unresolved-placeholder", "eam", sub(E, "Cu.lattice_constant : 3.61", "Cu.lattice_constant : ${nosuch}"), "cfg", "unresolvable ${...} in [Species]")
    add("species-unresolved-section-placeholder", "eam", sub(E, "Cu.lattice_constant : 3.61", "Cu.lattice_constant : ${Missing:a0}"), "cfg", "${SECTION:KEY} naming a missing section in [Species]")
    add("species-unterminated-placeholder", "eam", sub(E, "Cu.lattice_constant : 3.61", "Cu.lattice_constant : ${a0"), "cfg", "unterminated ${ in [Species]")
    add("adp-dipole-unresolved-placeholder", "adp", sub(A, "[EAM-ADP-Dipole]\nAl-Al : as.bornmayer 1.0 0.5", "[EAM-ADP-Dipole]\nAl-Al : as.bornmayer ${nosuch} 0.5"), "cfg", "unresolvable ${...} in [EAM-ADP-Dipole]")
    add("adp-quadrupole-unresolved-placeholder", "adp", sub(A, "[EAM-ADP-Quadrupole]\nAl-Al : as.bornmayer 2.0 0.5", "[EAM-ADP-Quadrupole]\nAl-Al : as.bornmayer ${nosuch} 0.5"), "cfg", "unresolvable ${...} in [EAM-ADP-Quadrupole]")
    add("orphan-section-unresolved-placeholder", "pair", P + "\n[Notes]\nremark : ${nosuch}\n", "not-internal", "unresolvable ${...} in a section potable does not interpret")
    add("table-form-with-parameters", "pair", sub(P, "Mg-O : >=0 tab1", "Mg-O : >=0 tab1 1.0 2.0"), "cfg", "parameters given to a table form")
    add("tab-dlpoly-four-rows", "pair", sub(sub(P, "target : LAMMPS", "target : DL_POLY"), "nr : 8", "nr : 4"), "cfg", "DL_POLY table with four rows (grid increment cutoff/(rows-4) undefined)")
    add("tab-dlpoly-four-rows-by-step", "pair", sub(sub(P, "target : LAMMPS", "target : DL_POLY"), "cutoff : 4.0\nnr : 8", "dr : 0.005\ncutoff : 0.015"), "cfg", "DL_POLY table with four rows given as dr and cutoff")
    # ---- found through round-5 side remarks
    F2 = "[Potential-Form]\nmyform(r,a) = a*exp(-r)\ninner(r,b) = b*r\nouter(r,c) = %s\n"
    for tag, call, req in (("valid", "inner(r, c)", "ok"), ("too-few", "inner(r)", "cfg"), ("too-many", "inner(r, c, 2.0)", "cfg")):
        add("custom-form-calls-custom-form-" + tag, "pair", sub(sub(P, "[Potential-Form]\nmyform(r,a) = a*exp(-r)\n", F2 % call), "Al-O : myform 2.5", "Al-O : outer 2.5"), req,
            "a custom form calling another custom form with %s arguments" % {"valid": "the right number of", "too-few": "too few", "too-many": "too many"}[tag])
    add("custom-form-signature-trailing-text", "pair", sub(P, "myform(r,a) = a*exp(-r)", "myform(r,a)x = a*exp(-r)"), "cfg", "text after the closing bracket of a [Potential-Form] signature")
    add("custom-form-signature-two-brackets", "pair", sub(P, "myform(r,a) = a*exp(-r)", "myform(r,a) junk(b)c = a*exp(-r)"), "cfg", "a second bracketed list in a [Potential-Form] signature")
    add("variables-unresolved-placeholder", "pair", "[Variables]\nunused : ${no_such_variable}\n\n" + P, "cfg", "unresolvable ${...} in a [Variables] entry")
    add("variables-braceless-placeholder", "pair", "[Variables]\nunused : $rho\n\n" + P, "cfg", "'$name' without braces in a [Variables] entry")
    add("species-mass-nan", "eam", sub(E, "Cu.lattice_constant : 3.61", "Cu.lattice_constant : 3.61\nCu.atomic_mass : nan"), "cfg", "atomic_mass nan in [Species]")
    add("species-mass-inf", "eam", sub(E, "Cu.lattice_constant : 3.61", "Cu.lattice_constant : 3.61\nCu.atomic_mass : 1e999"), "cfg", "atomic_mass 1e999 (infinite) in [Species]")
    # atomic_number is an integer: a fraction is not silently cut down to one, an infinite value is not an internal OverflowError (round-8 seed C16_14)
    for bad_ in ("1.5", "7.9", "inf", "-inf", "1e999", "29.0000001"):
        add("species-atomic-number-%s" % bad_, "eam", sub(E, "Cu.lattice_constant : 3.61", "Cu.lattice_constant : 3.61\nCu.atomic_number : %s" % bad_), "cfg", "atomic_number %s in [Species]" % bad_)
    add("species-atomic-number-valid", "eam", sub(E, "Cu.lattice_constant : 3.61", "Cu.lattice_constant : 3.61\nCu.atomic_number : 30"), "ok", "atomic_number given as an integer")
    add("species-lattice-constant-nan", "eam", sub(E, "Cu.lattice_constant : 3.61", "Cu.lattice_constant : nan"), "cfg", "lattice_constant nan in [Species]")
    add("form-parameter-infinite", "pair", sub(P, "Si-O : as.buck 1000.0 0.3 32.0", "Si-O : as.buck 1e400 0.3 32.0"), "cfg", "a potential-form parameter that is not a finite number (1e400)")
    # ---- file level
    add("file-not-ini", "pair", "this is not an ini file\njust text\n", "cfg", "text that is not an INI file")
    add("file-line-without-delimiter", "pair", sub(P, "Si-O : as.buck 1000.0 0.3 32.0", "Si-O as.buck 1000.0 0.3 32.0"), "cfg", "line without ':' or '='")
    add("file-duplicate-option", "pair", sub(P, "Al-O : myform 2.5", "Al-O : myform 2.5\nAl-O : myform 3.5"), "cfg", "duplicate option")
    add("file-duplicate-section", "pair", P + "\n[Pair]\nNe-Ne : as.zero\n", "cfg", "duplicate section")
    add("file-unresolved-placeholder", "pair", sub(P, "as.buck 1000.0 0.3 32.0", "as.buck ${nosuchvariable} 0.3 32.0"), "cfg", "unresolvable ${placeholder}")
    add("file-unresolved-section-placeholder", "pair", sub(P, "as.buck 1000.0 0.3 32.0", "as.buck ${Nowhere:A} 0.3 32.0"), "cfg", "unresolvable ${SECTION:KEY}")
    # a '$' that does not open a ${...} reference (braces forgotten, stray trailing '$'), in every kind of section that is read (seed C16_6)
    add("file-braceless-placeholder-pair", "pair", sub(P, "as.buck 1000.0 0.3 32.0", "as.buck 1000.0 $rho 32.0"), "cfg", "'$name' without braces in [Pair]")
    add("file-trailing-dollar-pair", "pair", sub(P, "as.buck 1000.0 0.3 32.0", "as.buck 1000.0 0.3 32.0 $"), "cfg", "stray trailing '$' in [Pair]")
    add("file-braceless-placeholder-tabulation", "pair", sub(P, "nr : 8", "nr : $npoints"), "cfg", "'$name' without braces in [Tabulation]")
    add("file-braceless-placeholder-form", "pair", sub(P, "myform(r,a) = a*exp(-r)", "myform(r,a) = a*exp(-r)*$k"), "cfg", "'$name' without braces in [Potential-Form]")
    add("file-braceless-placeholder-table", "pair", sub(P, "x : 0 1 2 3 4", "x : $xs"), "cfg", "'$name' without braces in [Table-Form]")
    add("file-braceless-placeholder-embed", "eam", sub(E, "Cu : as.sqrt 2.0", "Cu : as.sqrt $one"), "cfg", "'$name' without braces in [EAM-Embed]")
    add("file-bad-placeholder-syntax", "pair", sub(P, "as.buck 1000.0 0.3 32.0", "as.buck ${unclosed 0.3 32.0"), "cfg", "malformed placeholder")
    # ---- sections
    add("pair-section-missing", "pair", TAB_PAIR + "[Potential-Form]\nmyform(r,a) = a*exp(-r)\n", "cfg", "[Pair] missing for a pair target")
    add("pair-section-empty", "pair", TAB_PAIR + "[Pair]\n", "ok", "empty [Pair] section")
    add("adp-dipole-section-missing", "adp", sub(A, "[EAM-ADP-Dipole]\nAl-Al : as.bornmayer 1.0 0.5\n\n", ""), "cfg", "[EAM-ADP-Dipole] missing")
    add("eam-embed-section-missing", "eam", sub(E, "[EAM-Embed]\nAl : as.sqrt 1.0\nCu : as.sqrt 2.0\n\n", ""), "cfg", "[EAM-Embed] missing")
    add("eam-density-section-missing", "eam", sub(E, "[EAM-Density]\nAl : as.bornmayer 10.0 0.5\nCu : as.bornmayer 5.0 0.5\n\n", ""), "cfg", "[EAM-Density] missing")
    add("unused-section", "pair", P + "\n[Notes]\nauthor : someone\n", "ok", "an unrelated section")
    # ---- species keys
    add("pair-key-no-dash", "pair", sub(P, "Si-O :", "SiO :"), "cfg", "pair key without '-'")
    add("pair-key-two-dashes", "pair", sub(P, "Si-O :", "Si-O-O :"), "cfg", "pair key with two '-'")
    add("adp-key-no-dash", "adp", sub(A, "[EAM-ADP-Dipole]\nAl-Al :", "[EAM-ADP-Dipole]\nAlAl :"), "cfg", "dipole key without '-'")
    add("fs-key-no-arrow", "fs", sub(F, "Al->Cu :", "AlCu :"), "cfg", "Finnis-Sinclair density key without '->'")
    add("fs-key-two-arrows", "fs", sub(F, "Al->Cu :", "Al->Cu->Cu :"), "cfg", "Finnis-Sinclair density key with two '->'")
    add("eam-unknown-species", "eam", sub(sub(E, "Cu : as.sqrt 2.0", "Qq : as.sqrt 2.0"), "Cu : as.bornmayer 5.0 0.5", "Qq : as.bornmayer 5.0 0.5"), "cfg", "species with no atomic number/mass anywhere")
    # species labels that are not chemical elements, described only through [Species] (the documented way to use labels such as A and B): the optional lattice constant
    # and lattice type may be left out (defaults 0.0 and fcc); a missing atomic number or mass is a configuration error (round-7 seed C16_11: a bare KeyError from the
    # reference-data look-up)
    custom = lambda extra: E.replace("Cu", "Xq").replace("Xq.lattice_constant : 3.61\nXq.lattice_type : fcc\n", extra)
    add("species-custom-valid-minimal", "eam", custom("Xq.atomic_number : 29\nXq.atomic_mass : 63.5\n"), "ok", "a non-element label with atomic number and mass only")
    add("species-custom-valid-lattice-constant-only", "eam", custom("Xq.atomic_number : 29\nXq.atomic_mass : 63.5\nXq.lattice_constant : 3.6\n"), "ok", "a non-element label without lattice_type")
    add("species-custom-valid-lattice-type-only", "eam", custom("Xq.atomic_number : 29\nXq.atomic_mass : 63.5\nXq.lattice_type : bcc\n"), "ok", "a non-element label without lattice_constant")
    add("species-custom-no-mass", "eam", custom("Xq.atomic_number : 29\n"), "cfg", "a non-element label without atomic_mass")
    add("species-custom-no-number", "eam", custom("Xq.atomic_mass : 63.5\nXq.lattice_type : bcc\n"), "cfg", "a non-element label without atomic_number")
    for t_ in ("DL_POLY_EAM", "lammps_eam_alloy"):
        add("species-custom-valid-minimal-" + t_, "eam", sub(custom("Xq.atomic_number : 29\nXq.atomic_mass : 63.5\n"), "target : setfl", "target : " + t_), "ok",
            "a non-element label with atomic number and mass only, target %s" % t_)
    add("species-key-no-dot", "eam", sub(E, "Cu.lattice_type : fcc", "Culattice_type : fcc"), "cfg", "[Species] key without '.'")
    add("species-number-text", "eam", sub(E, "Cu.lattice_constant : 3.61", "Cu.lattice_constant : big"), "cfg", "non-numeric lattice_constant")
    add("species-atomic-number-text", "eam", sub(E, "Cu.lattice_type : fcc", "Cu.atomic_number : twenty-nine"), "cfg", "non-numeric atomic_number")
    # ---- potential definitions
    add("form-unknown", "pair", sub(P, "as.buck 1000.0 0.3 32.0\nO-O", "as.nosuchform 1.0\nO-O"), "cfg", "unknown potential form")
    add("modifier-unknown", "pair", sub(P, "sum(as.bornmayer", "nosuchmod(as.bornmayer"), "cfg", "unknown modifier")
    add("form-too-few-params", "pair", sub(P, "Si-O : as.buck 1000.0 0.3 32.0", "Si-O : as.buck 1000.0 0.3"), "cfg", "too few parameters")
    add("form-too-many-params", "pair", sub(P, "Si-O : as.buck 1000.0 0.3 32.0", "Si-O : as.buck 1000.0 0.3 32.0 1.0"), "cfg", "too many parameters")
    add("form-params-to-zero-ary", "pair", sub(P, ">=2.0 as.zero", ">=2.0 as.zero 1.0"), "cfg", "parameters given to as.zero")
    add("custom-form-wrong-arity", "pair", sub(P, "Al-O : myform 2.5", "Al-O : myform 2.5 3.5"), "cfg", "wrong number of parameters for a custom form")
    add("definition-empty", "pair", sub(P, "Si-O : as.buck 1000.0 0.3 32.0", "Si-O :"), "cfg", "empty definition")
    add("definition-range-without-number", "pair", sub(P, ">=2.0 as.zero", ">= as.zero"), "cfg", "range marker without a number")
    add("definition-empty-modifier", "pair", sub(P, "sum(as.bornmayer 500.0 0.25, as.constant 1.0)", "sum()"), "cfg", "modifier without arguments")
    add("definition-trailing-garbage", "pair", sub(P, "Si-O : as.buck 1000.0 0.3 32.0", "Si-O : as.buck 1000.0 0.3 32.0 )"), "cfg", "trailing garbage")
    add("definition-nonnumeric-param", "pair", sub(P, "Si-O : as.buck 1000.0 0.3 32.0", "Si-O : as.buck 1000.0 rho 32.0"), "cfg", "non-numeric parameter")
    # legal spellings of the same numbers (everything float() and the reference manual's grammar read): without the leading zero, with an explicit sign, with exponents,
    # with a trailing point (round-10 seed C16_15: a number pattern that wants a digit before the point)
    for tag, spelt in (("no-leading-zero", "as.buck 1000.0 .3 32.0"), ("explicit-sign", "as.buck +1000.0 +0.3 +32.0"), ("exponent", "as.buck 1e3 3e-1 3.2E+1"),
                       ("trailing-point", "as.buck 1000. 0.3 32."), ("integer", "as.buck 1000 0.3 32")):
        add("number-spelling-" + tag, "pair", sub(P, "Si-O : as.buck 1000.0 0.3 32.0", "Si-O : " + spelt), "ok", "parameters spelt as %r" % spelt)
    for tag, spelt in (("no-leading-zero", ">=.5"), ("explicit-sign", ">=+2.0"), ("exponent", ">=2e0"), ("trailing-point", ">=2.")):
        add("range-start-spelling-" + tag, "pair", sub(P, ">=2.0 as.zero", spelt + " as.zero"), "ok", "a range start spelt as %r" % spelt)
    add("polynomial-no-coefficients", "pair", sub(P, "Si-O : as.buck 1000.0 0.3 32.0", "Si-O : as.polynomial"), "ok", "as.polynomial without coefficients")
    add("pow-one-argument", "pair", sub(P, "Si-O : as.buck 1000.0 0.3 32.0", "Si-O : pow(as.constant 2.0)"), "ok", "pow() with a single argument")
    # ---- spline
    X = "spline(>0 as.zbl 54 54 >=0.8 exp_spline >=1.4 as.buck 1000.0 0.3 32.0)"
    B = "spline(as.bornmayer 900.0 0.3 >1.0 buck4_spline 1.5 >2.0 as.buck 0.0 1.0 30.0)"
    add("spline-one-part", "pair", sub(P, X, "spline(>0 as.zbl 54 54)"), "cfg", "spline with one part")
    add("spline-two-parts", "pair", sub(P, X, "spline(>0 as.zbl 54 54 >=0.8 exp_spline)"), "cfg", "spline with two parts")
    add("spline-four-parts", "pair", sub(P, X, "spline(>0 as.zbl 54 54 >=0.8 exp_spline >=1.4 as.buck 1000.0 0.3 32.0 >3.0 as.zero)"), "cfg", "spline with four parts")
    add("spline-two-arguments", "pair", sub(P, X, "spline(>0 as.zbl 54 54 >=0.8 exp_spline >=1.4 as.buck 1000.0 0.3 32.0, as.zero)"), "cfg", "spline with two arguments")
    add("spline-unknown-type", "pair", sub(P, X, X.replace("exp_spline", "cubic_spline")), "cfg", "unknown spline type")
    add("spline-detach-after-attach", "pair", sub(P, X, X.replace(">=0.8", ">=1.8")), "cfg", "detach >= attach")
    add("spline-exp-with-params", "pair", sub(P, X, X.replace("exp_spline", "exp_spline 1.0")), "cfg", "parameters given to exp_spline")
    add("spline-buck4-without-rmin", "pair", sub(P, B, B.replace("buck4_spline 1.5", "buck4_spline")), "cfg", "buck4_spline without r_min")
    add("spline-buck4-rmin-below", "pair", sub(P, B, B.replace("buck4_spline 1.5", "buck4_spline 0.5")), "cfg", "r_min below detach")
    add("spline-buck4-rmin-above", "pair", sub(P, B, B.replace("buck4_spline 1.5", "buck4_spline 2.5")), "cfg", "r_min above attach")
    add("spline-modifier-as-middle", "pair", sub(P, X, X.replace("exp_spline", "sum(as.zero, as.zero)")), "cfg", "modifier where the spline type is expected")
    add("spline-modifier-as-first", "pair", sub(P, X, X.replace(">0 as.zbl 54 54", ">0 sum(as.zbl 54 54, as.constant 1.0)")), "ok", "a modifier as the first part of a spline")
    add("spline-modifier-as-last", "pair", sub(P, X, X.replace(">=1.4 as.buck 1000.0 0.3 32.0", ">=1.4 sum(as.buck 1000.0 0.3 32.0, as.constant 0.5)")), "ok", "a modifier as the last part of a spline")
    # ---- trans
    T = "trans(as.lj 0.01 3.0, as.constant 0.5)"
    add("trans-one-argument", "pair", sub(P, T, "trans(as.lj 0.01 3.0)"), "cfg", "trans with one argument")
    add("trans-second-not-constant", "pair", sub(P, T, "trans(as.lj 0.01 3.0, as.zero)"), "cfg", "second argument of trans not as.constant")
    add("trans-constant-two-params", "pair", sub(P, T, "trans(as.lj 0.01 3.0, as.constant 0.5 0.5)"), "cfg", "as.constant with two parameters in trans")
    # ---- Table-Form
    TF = "interpolation : cubic_spline\nx : 0 1 2 3 4\ny : 4 3 2 1 0\n"
    add("table-nonnumeric", "pair", sub(P, TF, "x : 0 1 b 3 4\ny : 4 3 2 1 0\n"), "cfg", "non-numeric datum")
    add("table-length-mismatch", "pair", sub(P, TF, "x : 0 1 2 3\ny : 4 3 2 1 0\n"), "cfg", "x and y of different length")
    add("table-odd-xy", "pair", sub(P, TF, "xy : 0 4 1 3 2 2 3 1 4\n"), "cfg", "odd number of xy data")
    add("table-xy-and-x", "pair", sub(P, TF, "x : 0 1 2 3 4\nxy : 0 4 1 3 2 2 3 1 4 0\n"), "cfg", "both xy and x")
    add("table-no-data", "pair", sub(P, TF, "interpolation : cubic_spline\n"), "cfg", "neither xy nor x/y")
    add("table-only-x", "pair", sub(P, TF, "x : 0 1 2 3 4\n"), "cfg", "only x")
    add("table-only-y", "pair", sub(P, TF, "y : 4 3 2 1 0\n"), "cfg", "only y")
    add("table-too-few-points", "pair", sub(P, TF, "x : 0 1 2\ny : 4 3 2\n"), "cfg", "fewer than four points")
    add("table-x-not-increasing", "pair", sub(P, TF, "x : 0 2 1 3 4\ny : 4 3 2 1 0\n"), "cfg", "x not increasing")
    add("table-unknown-interpolation", "pair", sub(P, TF, "interpolation : quintic\nx : 0 1 2 3 4\ny : 4 3 2 1 0\n"), "cfg", "unknown interpolation")
    add("table-xy-valid", "pair", sub(P, TF, "xy : 0 4 1 3 2 2 3 1 4 0\n"), "ok", "xy data")
    add("table-empty-name", "pair", P + "\n[Table-Form:]\nx : 0 1 2 3 4\ny : 4 3 2 1 0\n", "ok", "[Table-Form:] with an empty name")
    add("table-named-like-builtin", "pair", P + "\n[Table-Form:as.zero]\nx : 0 1 2 3 4\ny : 4 3 2 1 0\n", "cfg", "table form named like a built-in form")
    # ---- Potential-Form
    add("formula-bad-signature", "pair", sub(P, "myform(r,a) = a*exp(-r)", "myform r a = a*exp(-r)"), "cfg", "malformed signature")
    add("formula-unparsable", "pair", sub(P, "myform(r,a) = a*exp(-r)", "myform(r,a) = a*exp(-r"), "cfg", "unparsable formula")
    add("formula-unknown-variable", "pair", sub(P, "myform(r,a) = a*exp(-r)", "myform(r,a) = b*exp(-r)"), "cfg", "unknown variable in a formula")
    add("formula-unknown-function", "pair", sub(P, "myform(r,a) = a*exp(-r)", "myform(r,a) = a*nosuch(r)"), "cfg", "unknown function in a formula")
    # the formula language (exprtk) has reserved words, built-in constants and functions, is case-insensitive, and keeps variables and functions in ONE name
    # space: a signature that cannot be bound as written is a malformed definition - a configuration error, not a KeyError and not a silent mis-binding
    F0 = "myform(r,a) = a*exp(-r)"
    add("formula-parameter-named-like-constant", "pair", sub(P, F0, "myform(r,epsilon) = epsilon*exp(-r)"), "cfg", "parameter named like a built-in constant of the formula language (epsilon)")
    add("formula-parameter-named-pi", "pair", sub(P, F0, "myform(r,pi) = pi*exp(-r)"), "cfg", "parameter named pi")
    add("formula-parameter-named-inf", "pair", sub(P, F0, "myform(r,inf) = inf*exp(-r)"), "cfg", "parameter named inf")
    add("formula-parameter-named-like-function", "pair", sub(P, F0, "myform(r,exp) = exp*r"), "cfg", "parameter named like a built-in function (exp)")
    add("formula-parameter-reserved-word", "pair", sub(P, F0, "myform(r,if) = if*r"), "cfg", "parameter that is a reserved word (if)")
    add("formula-parameter-not-an-identifier", "pair", sub(P, F0, "myform(r,2x) = 2x*r"), "cfg", "parameter that is not an identifier (2x)")
    add("formula-parameter-repeated", "pair", sub(sub(P, F0, "myform(r,a,a) = a*exp(-r)"), "Al-O : myform 2.5", "Al-O : myform 2.5 3.5"), "cfg", "the same parameter name twice in a signature")
    add("formula-parameters-differ-by-case-only", "pair", sub(sub(P, F0, "myform(r,A,a) = A + 10*a"), "Al-O : myform 2.5", "Al-O : myform 2.5 3.5"), "cfg", "two parameters that differ by case only (the formula language is case-insensitive)")
    add("formula-parameter-R", "pair", sub(P, F0, "myform(r,R) = R*exp(-r)"), "cfg", "a parameter that differs from the separation variable by case only")
    add("formula-parameter-named-like-other-form", "pair", sub(P, F0, "myform(r,a) = a*exp(-r)\nother(r,myform) = myform*r"), "cfg", "a parameter named like another custom form")
    add("formula-parameter-named-like-table-form", "pair", sub(P, F0, "myform(r,tab1) = tab1*exp(-r)"), "cfg", "a parameter named like a table form")
    add("formula-labels-differ-by-case-only", "pair", sub(P, F0, "myform(r,a) = a*exp(-r)\nMYFORM(r,a) = 10*a"), "cfg", "two custom forms whose labels differ by case only")
    add("trans-second-is-modifier", "pair", sub(P, T, "trans(as.lj 0.01 3.0, sum(as.constant 0.25, as.constant 0.25))"), "cfg", "a modifier as the second argument of trans")
    # ---- found through the round-4 seeding agents' side remarks (all were accepted silently or escaped as internal errors on the pinned tree)
    B4 = "U-O : spline(as.bornmayer 900.0 0.3 >1.0 buck4_spline 1.5 >2.0 as.buck 0.0 1.0 30.0)"
    add("buck4-form-rmin-beyond-attach", "pair", sub(P, B4, "U-O : as.buck4 900.0 0.3 30.0 1.0 3.0 2.0"), "cfg", "as.buck4 with r_min beyond r_attach (the shorthand of an ill-formed spline definition)")
    add("buck4-form-rmin-equals-detach", "pair", sub(P, B4, "U-O : as.buck4 900.0 0.3 30.0 1.0 1.0 2.0"), "cfg", "as.buck4 with r_min equal to r_detach")
    add("buck4-form-detach-after-attach", "pair", sub(P, B4, "U-O : as.buck4 900.0 0.3 30.0 3.0 2.5 2.0"), "cfg", "as.buck4 with r_detach beyond r_attach")
    add("buck4-form-valid", "pair", sub(P, B4, "U-O : as.buck4 900.0 0.3 30.0 1.0 1.5 2.0"), "ok", "as.buck4 with r_detach < r_min < r_attach")
    add("pair-key-empty-first-label", "pair", sub(P, "Si-O : as.buck", "-O : as.buck"), "cfg", "species key with an empty first label")
    add("pair-key-empty-second-label", "pair", sub(P, "Si-O : as.buck", "Si- : as.buck"), "cfg", "species key with an empty second label")
    add("pair-key-only-separator", "pair", sub(P, "Si-O : as.buck", "- : as.buck"), "cfg", "species key that is only the separator")
    add("table-empty-x-y", "pair", sub(P, TF, "x :\ny :\n"), "cfg", "empty x and y entries")
    add("table-empty-xy", "pair", sub(P, TF, "xy :\n"), "cfg", "empty xy entry")
    add("table-nan-datum", "pair", sub(P, TF, "x : 0 1 2 3 4\ny : 4 nan 2 1 0\n"), "cfg", "nan among the tabulated values")
    add("table-inf-x", "pair", sub(P, TF, "x : 0 1 2 3 inf\ny : 4 3 2 1 0\n"), "cfg", "inf among the tabulated x")
    add("tab-dr-nan", "pair", sub(P, "nr : 8", "dr : nan"), "cfg", "dr that is not a number (nan)")
    add("tab-cutoff-inf-with-dr", "pair", sub(sub(P, "cutoff : 4.0", "cutoff : inf"), "nr : 8", "dr : 0.5"), "cfg", "infinite cutoff with a step")
    add("tab-cutoff-nan", "pair", sub(P, "cutoff : 4.0", "cutoff : nan"), "cfg", "cutoff that is not a number (nan)")
    add("tab-cutoff-inf", "pair", sub(P, "cutoff : 4.0", "cutoff : inf"), "cfg", "infinite cutoff")
    add("spline-end-potential-singular-at-detach", "pair", sub(P, X, "spline(>=-1 as.buck 1000.0 0.3 32.0 >=0 exp_spline >=1.4 as.buck 1000.0 0.3 32.0)"), "cfg",
        "spline whose start potential cannot be evaluated at the detach point (division by zero)")
    add("formula-unparsable-unused", "pair", sub(P, "myform(r,a) = a*exp(-r)", "myform(r,a) = a*exp(-r)\nunused(r,a) = a*(r"), "cfg", "unparsable formula in a form no entry uses")
    add("formula-call-wrong-arity", "pair", sub(P, "myform(r,a) = a*exp(-r)", "myform(r,a) = as.buck(r, a)"), "cfg", "wrong arity in a call")
    return ops


def api_outcome(cfg):
    try:
        tab = Configuration().read(io.StringIO(cfg))
        buf = io.BytesIO() if tab.target.startswith("excel") else io.StringIO()
        tab.write(buf)
        return "ok", len(buf.getvalue())
    except ConfigurationException as e:
        return "cfg", type(e).__name__
    except Exception as e:
        return "internal:" + type(e).__name__, str(e)[:160]


def check(run):
    import genlib as _gl
    _gl.validate_reference_get(run, n=run.n(20, 200))
    from props.C14 import gen_file as _gen14, render as _render14, lines_of as _lines14
    _files = []
    for _ in range(run.n(25, 250)):
        _secs = _gen14(run.rng)[0]
        _files.append((_render14(_secs), _lines14(_secs), _secs))
    _gl.validate_parse_params_section(run, _files, n=len(_files))
    import genlib
    genlib.validate_spline_modifier(run, n=run.n(40, 400))
    import genlib
    genlib.validate_cfg_logic(run, "pair_species", n=run.n(300, 4000))
    genlib.validate_read_from_parser(run, n=run.n(40, 400))
    genlib.validate_pair_builder(run, n=run.n(30, 300))
    ops = catalogue()
    run.rule = ("%d malformation / validity operators over 4 well-formed base models (pair with sum/trans/two spline kinds/custom form/table form, EAM with [Species], Finnis-Sinclair, ADP), "
                "each through Configuration().read()+write() and through the potable entry point; required outcome per operator from the reference manual; "
                "thorough: additionally every operator on reformatted variants of the bases; distinct = (operator, route)" % len(ops))
    run.assumptions += ["errors raised inside exprtk formula parsing are classified by the real library only", "command-line option syntax is outside this property"]
    for name, cfg in BASE.items():
        oc = api_outcome(cfg)
        run.case(key=("base", name), kind="base-valid")
        if oc[0] != "ok":
            run.fail("valid-model-refused", "well-formed base model '%s' is refused: %s %s" % (name, oc[0], oc[1]), dict(potable_file=cfg))
    variants = [lambda t: t] if run.quick else [lambda t: t, lambda t: t.replace(" : ", " = "), lambda t: t.replace(" : ", ":")]
    seen_fail = set()
    for (oid, base, text, req, what) in ops:
        for vi, var in enumerate(variants):
            cfg = var(text)
            oc = api_outcome(cfg)
            r = impl.potable_cli(cfg)
            if r["rc"] == 0:
                cli = "ok"
            elif "configuration error - " in r["stderr"]:
                cli = "cfg"
            else:
                m = re.search(r"uncaught (\w+)", r["stderr"])
                cli = "internal:" + (m.group(1) if m else "rc%s" % r["rc"])
            leftover = bool(r["output"]) and r["rc"] != 0
            run.case(key=(oid, vi), kind="required-%s" % req, sample=dict(operator=oid, what=what, potable_file=cfg) if run.evaluations in (8, 40) else None)
            run.traces += 2
            problems = []
            if (oc[0] != req) if req != "not-internal" else oc[0].startswith("internal"):
                problems.append("Configuration().read()/write(): %s%s" % (oc[0], "" if oc[0] in ("ok", "cfg") else " (%s)" % oc[1]))
            if (cli != req) if req != "not-internal" else cli.startswith("internal"):
                problems.append("potable: %s" % cli)
            if leftover:
                problems.append("potable refused the model but left %d characters in OUTPUT_FILE" % len(r["output"]))
            if problems and oid not in seen_fail:
                seen_fail.add(oid)
                want = "a configuration error" if req == "cfg" else ("acceptance (the reference manual lists it as valid)" if req == "ok" else "anything but an internal exception")
                run.fail("c16:" + oid, "%s: required %s; observed %s" % (what, want, "; ".join(problems)), dict(operator=oid, potable_file=cfg, required=req, api=oc, cli=cli))
    validation_models(run)


def validation_models(run):
    """decisions of Atsim.validateSpline / validateTable / validateTarget / splitKey vs the real code's outcome class on generated inputs"""
    from props.C09 import tokens as def_tokens, lean_toks, render as render_tokens
    rng = run.rng
    reqs, plan = [], []
    # ---- splines: random well-formed and ill-formed definitions -------------------------------------------------------------
    for _ in range(run.n(120, 2000)):
        starts = sorted(rng.sample([0.0, 0.5, 0.8, 1.0, 1.4, 2.0, 3.0], 4))
        if rng.random() < 0.2:
            i, j = rng.sample(range(3), 2)
            starts[i], starts[j] = starts[j], starts[i]
        middle = rng.choice(["exp_spline", "exp_spline", "buck4_spline", "buck4_spline", "cubic_spline", "as.zero"])
        mparams = []
        if middle == "buck4_spline":
            mparams = rng.choice([[], [repr(round(rng.uniform(0.0, 3.5), 2))], [repr((starts[1] + starts[2]) / 2)], ["1.0", "2.0"]])
        elif rng.random() < 0.15:
            mparams = ["1.0"]
        nparts = rng.choice([1, 2, 3, 3, 3, 3, 4])
        pieces = [dict(form="as.bornmayer", params=["900.0", "0.3"], start=((">", repr(starts[0])) if rng.random() < 0.6 else None)),
                  dict(form=middle, params=mparams, start=(rng.choice([">", ">="]), repr(starts[1]))),
                  dict(form="as.buck", params=["0.0", "1.0", "30.0"], start=(rng.choice([">", ">="]), repr(starts[2]))),
                  dict(form="as.zero", params=[], start=(">", repr(starts[3])))][:nparts]
        if rng.random() < 0.08 and nparts >= 2:
            pieces[1] = dict(modifier="sum", args=[[dict(form="as.zero", params=[], start=None)]], start=pieces[1]["start"])
        args = [pieces] + ([[dict(form="as.zero", params=[], start=None)]] if rng.random() < 0.06 else [])
        text = "spline(" + ", ".join(render_tokens(def_tokens(a), rng, 0) for a in args) + ")"
        # a piece without a leading marker has the default range ('>', 0)
        reqs.append(dict(m="validate", op="spline", args=[lean_toks(def_tokens(a)) for a in args]))
        plan.append(("spline", text))
    # ---- table forms ----------------------------------------------------------------------------------------------------------------
    for _ in range(run.n(80, 1500)):
        n = rng.choice([2, 3, 4, 5, 8])
        xs = sorted(rng.sample(range(0, 40), n))
        if rng.random() < 0.2 and n > 2:
            xs[1], xs[2] = xs[2], xs[1]
        ys = [rng.randint(-9, 9) for _ in range(n)]
        mode = rng.choice(["xy", "x+y", "x+y", "x", "y", "xy+x", "none", "x+y-mismatch", "xy-odd"])
        interp = rng.choice(["cubic_spline", "cubic_spline", "cubic_spline", None, "quintic"])
        body = ""
        hasX = hasY = hasXY = False
        nx = ny = nxy = 0
        if mode in ("x+y", "x", "xy+x", "x+y-mismatch"):
            body += "x : %s\n" % " ".join(map(str, xs))
            hasX, nx = True, len(xs)
        if mode in ("x+y", "y"):
            body += "y : %s\n" % " ".join(map(str, ys))
            hasY, ny = True, len(ys)
        if mode == "x+y-mismatch":
            body += "y : %s\n" % " ".join(map(str, ys[:-1]))
            hasY, ny = True, len(ys) - 1
        if mode in ("xy", "xy+x", "xy-odd"):
            flat = [v for p in zip(xs, ys) for v in p]
            if mode == "xy-odd":
                flat = flat[:-1]
            body += "xy : %s\n" % " ".join(map(str, flat))
            hasXY, nxy = True, len(flat)
        if interp:
            body = "interpolation : %s\n" % interp + body
        mxs = xs if (hasX and hasY) or hasXY else []
        reqs.append(dict(m="validate", op="table", hasX=hasX, hasY=hasY, hasXY=hasXY, nx=nx, ny=ny, nxy=nxy, interpolation=interp or "cubic_spline", xs=[str(v) for v in mxs]))
        plan.append(("table", body))
    # ---- targets and keys ---------------------------------------------------------------------------------------------------------------
    for t in ["DL_POLY", "DLPOLY", "DL_POLY_EAM_fs", "DL_POLY_EAM", "eam_adp", "excel", "excel_eam", "excel_eam_fs", "GULP", "LAMMPS_eam_alloy", "setfl", "LAMMPS", "setfl_fs",
              "lammps_eam_alloy", "lammps", "FOO", "Setfl", "DL-POLY", None]:
        reqs.append(dict(m="validate", op="target", **({"target": t} if t else {})))
        plan.append(("target", t))
    for k in ["A-B", "AB", "A-B-C", "A - B", "-B", "A-", "Gd3+-O2-"]:
        reqs.append(dict(m="validate", op="key", parts=k.split("-")))
        plan.append(("key", k))
    # signatures of custom forms: parameter names drawn from a pool with case variants and repeats (reserved words of the formula language are exprtk's own and
    # are covered by the catalogue); an accepted signature must ALSO bind positionally - the formula is a weighted sum that identifies each argument
    pool = ["a", "A", "b", "B", "rho", "Rho", "RHO", "c", "x1", "X1", "sigma", "r", "R", "q"]
    for _ in range(run.n(60, 1500)):
        names = [run.rng.choice(["r", "r", "r", "x", "R", "sep"])] + [run.rng.choice(pool) for _ in range(run.rng.randint(1, 4))]
        reqs.append(dict(m="validate", op="signature", names=names))
        plan.append(("signature", names))
    ans = lean_query(reqs)
    nb = 0
    for (kind, x), a in zip(plan, ans):
        if kind == "signature":
            weights = [3 ** i for i in range(len(x))]
            cfg = TAB_PAIR + "[Potential-Form]\nf(%s) = %s\n[Pair]\nA-B : f %s\n" % (", ".join(x), " + ".join("%d*%s" % (w, n) for w, n in zip(weights, x)),
                                                                               " ".join("%d.0" % (i + 2) for i in range(1, len(x))))
            want = "ok" if a == "ok" else "cfg"
            run.case(key=("validation-model", kind, str(x)), kind="validation-model/" + kind + ("/accepted" if want == "ok" else "/refused"))
            run.traces += 1
            try:
                tab = Configuration().read(io.StringIO(cfg))
                v = tab.potentials[0].energy(0.5)
                oc = ("ok", v)
            except ConfigurationException as e:
                oc = ("cfg", type(e).__name__)
            except Exception as e:
                oc = ("internal:" + type(e).__name__, str(e)[:160])
            if oc[0].startswith("internal"):
                run.fail("c16:validation-signature", "signature f(%s): escapes as %s (%s)" % (", ".join(x), oc[0], oc[1]), dict(potable_file=cfg))
            elif oc[0] != want:
                run.tie_broken("correspondence", "Atsim.validSignature vs the real signature check", "%r: implementation %s, model %s" % (x, oc[0], want))
            elif oc[0] == "ok":
                exp = weights[0] * 0.5 + sum(w * (i + 2.0) for i, w in enumerate(weights[1:], start=1))
                if abs(oc[1] - exp) > 1e-9:
                    run.fail("c16:signature-binding", "signature f(%s) is accepted but the arguments are not bound positionally: f evaluates to %r, positional binding gives %r" % (", ".join(x), oc[1], exp), dict(potable_file=cfg))
            continue
        if kind == "spline":
            cfg = TAB_PAIR + "[Pair]\nA-B : %s\n" % x
            want = "ok" if a == "ok" else "cfg"
        elif kind == "table":
            cfg = TAB_PAIR + "[Pair]\nA-B : >=0 tt\n[Table-Form:tt]\n" + x
            want = "ok" if a == "ok" else "cfg"
        elif kind == "target":
            eam = a in ("setfl", "setfl_fs", "DL_POLY_EAM", "DL_POLY_EAM_fs", "excel_eam", "excel_eam_fs", "eam_adp")
            base = BASE["adp"] if a == "eam_adp" else (BASE["fs"] if a and a.endswith("_fs") else (BASE["eam"] if eam else BASE["pair"]))
            cfg = re.sub(r"target : \S+\n", ("target : %s\n" % x) if x else "", base, count=1)
            want = "ok" if a is not None else "cfg"
        else:
            cfg = TAB_PAIR + "[Pair]\n%s : as.zero\n" % x
            want = "ok" if a is not None else "cfg"
        oc = api_outcome(cfg)
        run.case(key=("validation-model", kind, str(x)), kind="validation-model/" + kind)
        run.traces += 1
        if oc[0] != want:
            nb += 1
            if nb <= 3:
                if oc[0].startswith("internal"):
                    run.fail("c16:validation-%s" % kind, "%s %r: escapes as %s (%s)" % (kind, x, oc[0], oc[1]), dict(potable_file=cfg))
                else:
                    run.tie_broken("correspondence", "Atsim.validate%s vs the real validation" % kind.capitalize(), "%r: implementation %s, model %s (%s)" % (x, oc[0], want, a))


def replay(run, payload):
    print("replay:", payload.get("case"))
    return 2
