"""C02 - DL_POLY TABLE.  Correspondence of `Atsim.dlpolyTable` with the real writer, all routes."""
import io
import math

from common import Fr, fq, dec, lean_query
import impl
from tracers import potable_real_models, ref_values, eval_noise, ApiTracer, LABELS, dlpoly_tokens, dlpoly_raw, FormatError, real_potential
from props.C01 import first_diff

from atsim.potentials import Potential, writePotentials
from atsim.potentials.pair_tabulation import DLPoly_PairTabulation

ROUTES = ["class", "writePotentials", "config-DL_POLY", "config-DLPOLY", "cli"]
LAB = [l for l in LABELS if len(l) <= 8]


def gen_case(rng, nr=None):
    k = rng.choice([1, 2, 3, 4, 5])
    hi = min(60, 8 * 2 ** k - 1)
    if nr is None:
        nr = rng.randint(5, hi)
        if rng.random() < 0.6:
            nr = max(8, nr - nr % 4)      # accepted cases a bit more frequent than 1 in 4
    cut = Fr(nr - 4, 2 ** k)
    route = rng.choice(ROUTES)
    pots, seen = [], set()
    for fid in range(1, rng.randint(1, 4) + 1):
        for _ in range(20):
            a, b = rng.choice(LAB), rng.choice(LAB)
            if route in ("class", "writePotentials") or frozenset((a, b)) not in seen:
                break
        seen.add(frozenset((a, b)))
        pots.append(dict(a=a, b=b, fid=fid, analytic=(rng.random() < 0.5)))
    return dict(cut=fq(cut), nr=nr, pots=pots, route=route)


def cfg_text(case):
    target = "DLPOLY" if case["route"] == "config-DLPOLY" else "DL_POLY"
    t = "[Tabulation]\ntarget : %s\ncutoff : %s\nnr : %d\n\n[Pair]\n" % (target, impl.decimal_str(Fr(case["cut"])), case["nr"])
    for p in case["pots"]:
        t += "%s-%s : as.polynomial %d.0 %d.0\n" % (p["a"], p["b"], 64 * p["fid"], p["fid"])
    return t


def run_impl(case):
    """-> ('ok', text) | ('rejected', None) | ('internal:..', None)"""
    cut, nr, route = float(Fr(case["cut"])), case["nr"], case["route"]
    if route in ("class", "writePotentials"):
        ps = [Potential(p["a"], p["b"], ApiTracer(p["fid"], p["analytic"], "dlpoly")) for p in case["pots"]]
        s = io.StringIO()

        def go():
            if route == "class":
                DLPoly_PairTabulation(ps, cut, nr).write(s)
            else:
                writePotentials("DL_POLY", ps, cut, nr, s)
        oc, v = impl.outcome_of(go)
        if oc == "ok":
            return "ok", s.getvalue()
        if s.getvalue() != "":
            return "partial-output-after-" + oc, s.getvalue()
        return ("rejected" if oc in ("rejected", "config_error") else oc), None
    if route == "cli":
        r = impl.potable_cli(cfg_text(case))
        if r["rc"] == 0:
            return "ok", r["output"]
        if "configuration error" in r["stderr"]:
            return ("rejected" if not r["output"] else "partial-output-after-config_error"), None
        return "cli-failure rc=%s %s" % (r["rc"], r["stderr"][-200:]), None
    oc, v = impl.outcome_of(lambda: impl.config_tabulate(cfg_text(case)))
    if oc == "ok":
        return "ok", v
    return ("rejected" if oc in ("rejected", "config_error") else oc), None


def model_request(case):
    return dict(m="pair", op="dlpoly", cut=case["cut"], nr=case["nr"],
                pots=[dict(a=p["a"], b=p["b"], fid=p["fid"]) for p in case["pots"]])


def compare(case, model):
    oc, text = run_impl(case)
    if model == "rejected":
        return (None if oc == "rejected" else "row count %d is not a multiple of 4 but the outcome is %r (expected: rejected, nothing written)" % (case["nr"], oc)), oc
    if oc != "ok":
        return "row count %d is a multiple of 4 but the outcome is %r" % (case["nr"], oc), oc
    mode = "api" if case["route"] in ("class", "writePotentials") else "poly"
    try:
        toks = dlpoly_tokens(text, mode, [p["analytic"] for p in case["pots"]])
    except FormatError as e:
        return "record layout: %s" % e, text[:500]
    return first_diff(toks, model), toks


def shrink(case, still_fails):
    best = case
    improved = True
    while improved:
        improved = False
        cands = []
        if len(best["pots"]) > 1:
            for i in range(len(best["pots"])):
                cands.append(dict(best, pots=[best["pots"][i]]))
        cut = Fr(best["cut"])
        for nr in (8, 12, 16):
            if nr < best["nr"] and best["nr"] % 4 == 0:
                cands.append(dict(best, nr=nr, cut=fq(cut / (best["nr"] - 4) * (nr - 4))))
        for c in cands:
            if still_fails(c):
                best, improved = c, True
                break
    return best


def check(run):
    import genlib
    genlib.validate_tabulation_objects(run, kinds=("dlpoly",), n=run.n(8, 60))
    genlib.validate_writer(run, "dlpoly", n=run.n(12, 120))
    run.rule = ("tracer models from one PRNG (1-4 potentials, nr 5..60 with nr mod 4 in {0,1,2,3}, dyadic delpot 2^-1..2^-5, labels <= 8 characters, "
                "5 routes: DLPoly_PairTabulation, writePotentials('DL_POLY'), potable targets DL_POLY and DLPOLY, potable entry point); "
                "distinct = (route, nr, cutoff, labels, analytic flags); non-trivial = all printed numbers decode; real stream = built-in forms on decimal grids")
    run.assumptions += ["tokeniser dlpoly_tokens incl. fixed-width layout checks (8+8 label fields, 15-character numeric fields, 15+15+10 header)",
                        "nr = 4 (delpot = cutoff/0) and nr < 5 are outside the property's domain and not generated",
                        "floating-point accumulation r += delpot is tested to printed precision (real stream), the theorem C02_accum is over exact rationals"]
    n = run.n(300, 6000)
    cases = [gen_case(run.rng) for _ in range(n)]
    if not run.quick:
        for nr in range(5, 129):
            c = gen_case(run.rng, nr=nr)
            if Fr(c["cut"]) / (nr - 4) * nr < 8:
                cases.append(c)
    models = lean_query([model_request(c) for c in cases])
    bad = 0
    for c, m in zip(cases, models):
        d, toks = compare(c, m)
        run.traces += 1
        key = (c["route"], c["nr"], c["cut"], tuple((p["a"], p["b"], p["analytic"]) for p in c["pots"]))
        run.case(key=key, kind="%s/%s" % (c["route"], "reject" if m == "rejected" else "accept"),
                 sample=dict(case=c, model_header=(m if m == "rejected" else [m["delpot"], m["cutpot"], m["ngrid"]])) if run.evaluations < 3 else None)
        if d:
            bad += 1
            if bad <= 3:
                def still(cc):
                    return compare(cc, lean_query([model_request(cc)])[0])[0] is not None
                small = shrink(c, still) if bad == 1 else c
                mm = lean_query([model_request(small)])[0]
                dd, tt = compare(small, mm)
                run.fail("dlpoly-table-mismatch", "DL_POLY TABLE differs from the model/property: %s" % dd,
                         dict(case=small, route=small["route"], first_difference=dd, impl_tokens=tt, model_tokens=mm, original_case=c))
    real_stream(run)
    potable_real_stream(run)
    api_reuse(run)


def api_reuse(run):
    """the Python API as a program uses it: one tabulation object written, its model changed through the list it exposes, written again; potentials handed over as a
    one-shot iterable (the documented type is `Iterable`).  Every table written must be the table of the potentials the object holds at that moment."""
    rng = run.rng
    reqs, cases = [], []
    for _ in range(run.n(6, 40)):
        nr = rng.choice([8, 12, 16, 24])
        cut = Fr(nr - 4, 2 ** rng.randint(1, 3))
        pots = [dict(a="A%d" % i, b=rng.choice(["O", "A0"]), fid=i + 1, analytic=True) for i in range(rng.randint(2, 4))]
        k = rng.randint(1, len(pots) - 1)
        cases.append((cut, nr, pots, k))
        for sub in (pots[:k], pots):
            reqs.append(dict(m="pair", op="dlpoly", cut=fq(cut), nr=nr, pots=[dict(a=p["a"], b=p["b"], fid=p["fid"]) for p in sub]))
    models = lean_query(reqs)
    for i, (cut, nr, pots, k) in enumerate(cases):
        m_first, m_all = models[2 * i], models[2 * i + 1]
        mk = lambda sub: [Potential(p["a"], p["b"], ApiTracer(p["fid"], True, "dlpoly")) for p in sub]
        flags = [True] * len(pots)
        # (1) write, extend the model through .potentials, write again
        tab = DLPoly_PairTabulation(mk(pots[:k]), float(cut), nr)
        s1, s2 = io.StringIO(), io.StringIO()
        tab.write(s1)
        tab.potentials.extend(mk(pots[k:]))
        tab.write(s2)
        run.case(key=("api-reuse", "rewrite", nr, str(cut), k, len(pots)), kind="api-reuse/rewrite-after-change")
        run.traces += 2
        for which, text, model, n in (("first", s1.getvalue(), m_first, k), ("second (after %d potential(s) were appended to .potentials)" % (len(pots) - k), s2.getvalue(), m_all, len(pots))):
            try:
                d = first_diff(dlpoly_tokens(text, "api", flags[:n]), model)
            except FormatError as e:
                d = "record layout: %s" % e
            if d:
                run.fail("table-not-of-current-model", "DLPoly_PairTabulation written twice: the %s table differs from the table of the potentials the object then holds: %s" % (which, d),
                         dict(case=dict(cut=fq(cut), nr=nr, pots=pots, first_write=k), route="class, two writes"))
                break
        # (2) one-shot iterables
        for kind, wrap in (("generator", lambda l: (x for x in l)), ("iterator", iter), ("map", lambda l: map(lambda x: x, l))):
            for route in ("writePotentials", "class"):
                s = io.StringIO()
                try:
                    if route == "class":
                        DLPoly_PairTabulation(wrap(mk(pots)), float(cut), nr).write(s)
                    else:
                        writePotentials("DL_POLY", wrap(mk(pots)), float(cut), nr, s)
                    d = first_diff(dlpoly_tokens(s.getvalue(), "api", flags), m_all)
                except FormatError as e:
                    d = "record layout: %s" % e
                except Exception as e:
                    d = "raised %s: %s" % (type(e).__name__, str(e)[:100])
                run.case(key=("api-reuse", kind, route, nr, str(cut), len(pots)), kind="api-reuse/one-shot-iterable")
                run.traces += 1
                if d:
                    run.fail("table-not-of-current-model", "%s given the potentials as a %s: %s" % (route, kind, d), dict(case=dict(cut=fq(cut), nr=nr, pots=pots), route=route, iterable=kind))


def potable_real_stream(run):
    """Numerical leg through the configuration-file route: [Pair] entries that are random potential EXPRESSIONS (modifiers, ranges, splines); the k-th
    energy must be the expression's documented value at k*delpot and the k-th force value -r dV/dr there (reference: the same expression composed
    through the Python API, differentiated numerically)."""
    nbad = 0
    for cfg, cut, nr, ents in potable_real_models(run.rng, run.n(30, 400), "DL_POLY", lambda rng: 4 * rng.randint(2, 12)):
        run.case(key=("potable-real", cfg), kind="potable-real", sample=dict(potable_file=cfg) if run.dist.get("potable-real", 0) < 1 else None)
        run.traces += 1
        try:
            out = impl.config_tabulate(cfg)
        except Exception as e:
            if isinstance(e, (OverflowError, ZeroDivisionError, ValueError)) or "math" in str(e):
                continue
            raise
        problem = None
        try:
            delpot, cutpot, ngrid, blocks = dlpoly_raw(out)
        except FormatError:
            continue        # values too wide for the fixed-width layout (huge energies at small r): C02's layout claim is checked on the tracer stream
        dq = Fr(repr(cut)) / (nr - 4)
        for (a, b_, f, bounds, txt), (la, lb, recs) in zip(ents, blocks):
            vals = [x.strip() for rec in recs for x in rec]
            if len(vals) != 2 * nr:
                problem = "%s-%s: %d values, expected 2*%d" % (a, b_, len(vals), nr)
                break
            for k in range(1, nr + 1):
                r = float(Fr(k) * dq)
                rv = ref_values(f, r, bounds + [0.0])
                if rv is None:
                    continue
                ev, slope = rv
                if abs(float(Fr(vals[k - 1])) - ev) > 0.6e-7 * abs(ev) + abs(slope) * 8 * math.ulp(r) * nr + 2 * eval_noise(f, r) + 1e-99:
                    problem = "%s-%s : %s, energy %d (r=%r) printed %s, the expression's value is %r" % (a, b_, txt, k, r, vals[k - 1], ev)
                    break
                ref = -r * slope
                if abs(float(Fr(vals[nr + k - 1])) - ref) > 1e-5 * max(1.0, abs(ref)) + 1e-9 * abs(ev) * r + 1e-99:
                    problem = "%s-%s : %s, force value %d (r=%r) printed %s, -r dV/dr = %r" % (a, b_, txt, k, r, vals[nr + k - 1], ref)
                    break
            if problem:
                break
        if problem:
            nbad += 1
            if nbad <= 2:
                run.fail("dlpoly-potable-real-numeric", "potable real-function stream: " + problem, dict(potable_file=cfg, problem=problem))


def real_stream(run):
    """Numerical leg: header and printed values of real potentials to 8 significant digits; accumulated grid vs k*delpot."""
    rng = run.rng
    nbad = 0
    for i in range(run.n(60, 800)):
        nr = 4 * rng.randint(2, 60 if run.quick else 400)
        cut = round(rng.uniform(2.0, 12.0), rng.choice([1, 2, 3]))
        pots = [real_potential(rng) for _ in range(rng.randint(1, 2))]
        if i % 5 == 0:
            # a short-ranged repulsion tabulated far beyond its range: energies and forces fall below 1e-99 (three-digit exponents) - the fields must stay 15 wide
            from atsim.potentials import potentialforms as _pf
            tiny = _pf.bornmayer(1000.0, round(rng.uniform(0.03, 0.05), 3))
            pots.append(("tiny#%d" % i, tiny, lambda r, f=tiny: f.deriv(r)))
            cut = round(rng.uniform(10.0, 14.0), 1)
        elif i % 5 == 1:
            # the same inside r < 1, on a fine grid: there dV/dr and r*dV/dr cross 1e-99 at DIFFERENT rows, so the value that must fit the field is the
            # one that is written (-r dV/dr), not an intermediate one (seed C02_6)
            from atsim.potentials import potentialforms as _pf
            tiny = _pf.bornmayer(1000.0, round(rng.uniform(0.001, 0.002), 5))
            pots.append(("tiny-near#%d" % i, tiny, lambda r, f=tiny: f.deriv(r)))
            cut = round(rng.uniform(0.4, 0.6), 2)
            nr = 4 * rng.randint(250, 320)
        hs = [None] * len(pots)
        if i % 5 == 2:
            # a derivative-less well on a large energy offset, tabulated with a user-chosen differentiation step (Potential(..., h=H)): the central difference of a
            # quadratic is exact for every H and its round-off is far below the tolerance for the H asked for, but visible if the requested step is dropped in favour
            # of the default 1e-6 (round-7 seed C02_9; the same scenario as in C01, whose tie C01_code_gradient states the step)
            k_, r0_, off_ = round(rng.uniform(0.5, 8.0), 2), round(rng.uniform(1.0, 4.0), 2), float(rng.choice([1e6, 4e6, 1e7]))
            pots.append(("well%g+%g(r-%g)^2,h" % (off_, k_, r0_), (lambda r, k_=k_, r0_=r0_, off_=off_: off_ + k_ * (r - r0_) ** 2), (lambda r, k_=k_, r0_=r0_: 2.0 * k_ * (r - r0_))))
            hs.append(rng.choice([0.05, 0.1, 0.25]))
        ps = [Potential("A%d" % j, "B", f) if h is None else Potential("A%d" % j, "B", f, h) for j, ((desc, f, fref), h) in enumerate(zip(pots, hs))]
        s = io.StringIO()
        DLPoly_PairTabulation(ps, cut, nr).write(s)
        run.case(key=("real", nr, cut, tuple(d for d, _, _ in pots)), kind="real")
        run.traces += 1
        problem = None
        try:
            delpot, cutpot, ngrid, blocks = dlpoly_raw(s.getvalue())
        except FormatError as e:
            problem = "layout: %s" % e
            blocks = []
        if not problem:
            dq = Fr(cut) / (nr - 4)

            def close(printed, exact, extra=0.0):
                return abs(float(Fr(printed)) - exact) <= 0.6e-7 * abs(exact) + extra + 1e-99      # (magnitudes below 1e-99 do not fit the 15-character field and are written as zero)
            if ngrid != nr or not close(cutpot, cut) or abs(Fr(delpot) - dq) > Fr(6, 10 ** 9) * dq:
                problem = "header %s %s %s vs delpot=%s cutpot=%s ngrid=%d" % (delpot, cutpot, ngrid, float(dq), cut, nr)
        for (desc, f, dref), (a, b, recs) in zip(pots, blocks):
            if problem:
                break
            vals = [x.strip() for rec in recs for x in rec]
            if len(vals) != 2 * nr or any(len(rec) != 4 for rec in recs):
                problem = "%s: %d values in %d records, expected 2*%d in records of four" % (desc, len(vals), len(recs), nr)
                break
            r = 0.0
            mesh = cut / (nr - 4.0)
            for k in range(1, nr + 1):
                r += mesh
                rex = float(Fr(k) * dq)
                if abs(r - rex) > 1e-9 * rex:
                    problem = "accumulated r_%d = %r departs from k*delpot = %r by more than 1e-9 relative" % (k, r, rex)
                    break
                ev, slope = f(r), dref(r)
                if slope is None:
                    continue
                if not close(vals[k - 1], ev, extra=abs(slope) * 4 * math.ulp(r) + 2 * eval_noise(f, r)):
                    problem = "%s: energy %d printed %s, V(k*delpot)=%r" % (desc, k, vals[k - 1], ev)
                    break
                ref = -r * slope
                tolf = (0.6e-7 * abs(ref) + 1e-6 * r) if desc.endswith(",h") else (1e-5 * max(1.0, abs(ref)) + 1e-9 * abs(ev) * r + 1e-99)
                if abs(float(Fr(vals[nr + k - 1])) - ref) > tolf:
                    problem = "%s: force value %d printed %s, -r dV/dr = %r" % (desc, k, vals[nr + k - 1], ref)
                    break
        if problem:
            nbad += 1
            if nbad <= 2:
                run.fail("dlpoly-real-numeric", "real-function stream: " + problem, dict(cutoff=cut, nr=nr, potentials=[d for d, _, _ in pots], problem=problem))


def replay(run, payload):
    case = payload.get("case", {}).get("case")
    if not case:
        print("nothing to replay")
        return 2
    m = lean_query([model_request(case)])[0]
    d, toks = compare(case, m)
    print("replay %s: %s" % (case, "property FAILS: " + d if d else "property holds on this input now"))
    return 1 if d else 0
