"""C07 - offered derivatives are the true derivatives.  Translator validation of deriv/deriv2 and of the plus/product/pow closure
bodies, polynomial hand model, fallback locality (instrumented leaves), and the numerical oracle (Richardson differences of the real
callables) over random potential expressions built through the Python API and through potable modifiers."""
import io
import math

from common import lean_query
import formlib
from formlib import pfn, pfo, DOMAIN, close, me, ans_float, rnd

import atsim.potentials as ap


def deriv_problem(f, r, bounds=()):
    """compare f.deriv / f.deriv2 at r with Ridders-extrapolated differences of f / f.deriv (tracers.ridders: estimate + its own error estimate);
    None when consistent or when the numerical reference has not converged at this point"""
    from tracers import ridders, ORACLE
    h0 = 1e-3 * max(abs(r), 0.05)
    if any(abs(r - b) < 3 * h0 for b in bounds):
        return None
    room = min([abs(r - b) for b in bounds], default=None)
    out = []

    def offered(which, fun, base):
        """compare the offered derivative `fun` with the Ridders reference of `base`; an offered derivative that RAISES at a point where the reference exists
        (the function below it evaluates on a whole neighbourhood and its difference quotients converge) is a failure, not a reason to skip the point"""
        try:
            ref, err = ridders(base, r, room=room)
        except (OverflowError, ZeroDivisionError, ValueError):
            return
        conv = err <= 1e-7 * abs(ref) + 1e-11
        ORACLE["reference_converged" if conv else "reference_not_converged"] += 1
        if not conv or not (abs(ref) < 1e250):
            return
        try:
            got = fun(r)
        except (OverflowError, ZeroDivisionError, ValueError) as e:
            out.append("%s(%r) raises %s (%s) although the function is differentiable there: the slope is %r (+-%.1e)" % (which, r, type(e).__name__, e, ref, err))
            return
        if abs(got - ref) > 2e-6 * max(abs(ref), abs(got)) + 10 * err + 1e-9:
            out.append("%s(%r) = %r but %s = %r (+-%.1e)" % (which, r, got, "dE/dr" if which == "deriv" else "d(deriv)/dr", ref, err))
    if hasattr(f, "deriv"):
        offered("deriv", f.deriv, f)
    if hasattr(f, "deriv2") and hasattr(f, "deriv"):
        offered("deriv2", f.deriv2, f.deriv)
    return "; ".join(out) if out else None


# ---------------------------------------------------------------------------------------------------------------------
POS_LEAVES = ["bornmayer+", "buck+", "morse+", "exponential+", "poly+", "sqrt+", "constant+"]
ANY_LEAVES = ["buck", "lj", "morse", "coul", "hbnd", "exponential", "polynomial", "sqrt", "zbl", "tang_toennies", "constant", "bornmayer", "exp_spline"]


def leaf(rng, positive=False):
    """(python callable, potable text, description)"""
    if positive:
        k = rng.choice(POS_LEAVES)
        if k == "bornmayer+":
            ps = [rnd(rng, 1, 50, 1), rnd(rng, 0.3, 1.5, 2)]
            return pfo.bornmayer(*ps), "as.bornmayer %s" % " ".join(map(repr, ps)), ("bornmayer", ps)
        if k == "buck+":
            ps = [rnd(rng, 10, 50, 1), rnd(rng, 0.3, 1.0, 2), -rnd(rng, 0.1, 5, 2)]
            return pfo.buck(*ps), "as.buck %s" % " ".join(map(repr, ps)), ("buck", ps)
        if k == "morse+":
            ps = [rnd(rng, 0.3, 1.5, 2), rnd(rng, 1, 3, 2), -rnd(rng, 0.2, 3, 2)]
            # D<0 : value = D(e^{-2x} - 2e^{-x}) > 0 only where e^{-x} < 2  i.e. r > r* - ln2/gamma ; keep it simple: add constant instead
            ps = [1.0, 100.0]
            return pfo.exponential(*ps[:1], 0.5), "as.exponential 1.0 0.5", ("exponential", [1.0, 0.5])
        if k == "exponential+":
            ps = [rnd(rng, 0.5, 5, 2), rng.choice([0.5, 1.0, 2.0, -1.0, rnd(rng, -2, 2, 2)])]
            return pfo.exponential(*ps), "as.exponential %s" % " ".join(map(repr, ps)), ("exponential", ps)
        if k == "poly+":
            ps = [rnd(rng, 1, 5, 2), rnd(rng, 0, 1, 2), rnd(rng, 0, 0.2, 3)]
            return pfo.polynomial(*ps), "as.polynomial %s" % " ".join(map(repr, ps)), ("polynomial", ps)
        if k == "sqrt+":
            ps = [rnd(rng, 0.5, 5, 2)]
            return pfo.sqrt(*ps), "as.sqrt %r" % ps[0], ("sqrt", ps)
        ps = [rnd(rng, 0.5, 3, 2)]
        return pfo.constant(*ps), "as.constant %r" % ps[0], ("constant", ps)
    k = rng.choice(ANY_LEAVES)
    if k == "polynomial":
        ps = [rnd(rng, -5, 5, 2) for _ in range(rng.randint(1, 5))]
    else:
        ps = DOMAIN[k](rng)
    if k == "lj" and ps[1] == 0.0:
        ps[1] = 2.0
    return getattr(pfo, k)(*ps), "as.%s %s" % (k, " ".join(repr(float(x)) for x in ps)), (k, ps)


def gen_expr(rng, depth, positive=False):
    """random potential expression -> (callable, potable text or None, description, boundaries)"""
    if depth == 0 or rng.random() < 0.25:
        f, t, d = leaf(rng, positive)
        return f, t, d, []
    k = rng.choice(["plus", "product", "pow", "sum3", "trans", "multi", "spline"] if not positive else ["plus", "product", "pow"])
    if k in ("plus", "product"):
        a = gen_expr(rng, depth - 1, positive)
        b = gen_expr(rng, depth - 1, positive)
        if not positive:
            a, b = ranged(rng, a), ranged(rng, b)
        fn = ap.plus if k == "plus" else ap.product
        txt = None if (a[1] is None or b[1] is None) else "%s(%s, %s)" % ("sum" if k == "plus" else "product", a[1], b[1])
        return fn(a[0], b[0]), txt, (k, a[2], b[2]), a[3] + b[3]
    if k == "sum3":
        xs = [ranged(rng, gen_expr(rng, depth - 1)) for _ in range(3)]
        f = ap.plus(ap.plus(xs[0][0], xs[1][0]), xs[2][0])
        txt = None if any(x[1] is None for x in xs) else "sum(%s)" % ", ".join(x[1] for x in xs)
        return f, txt, ("sum3",) + tuple(x[2] for x in xs), sum((x[3] for x in xs), [])
    if k == "pow":
        a = gen_expr(rng, depth - 1, True)
        if rng.random() < 0.5:
            e = rnd(rng, -2, 3, 1)
            b = (pfo.constant(e), "as.constant %r" % e, ("constant", [e]), [])
        else:
            c0, c1 = rnd(rng, 0.5, 2, 2), rnd(rng, -0.1, 0.1, 3)
            b = (pfo.polynomial(c0, c1), "as.polynomial %r %r" % (c0, c1), ("polynomial", [c0, c1]), [])
        txt = None if a[1] is None else "pow(%s, %s)" % (a[1], b[1])
        return ap.pow(a[0], b[0]), txt, ("pow", a[2], b[2]), a[3]
    if k == "trans":
        # the shifted argument may carry its own range start: trans(>=2.0 as.buck .., as.constant X) is zero where r + X lies below that start (round-6 seed C09_11)
        a = ranged(rng, gen_expr(rng, depth - 1), p=0.4)
        X = rnd(rng, 0.0, 1.5, 2)
        f0 = a[0]

        def tr(r, f0=f0, X=X):
            return f0(r + X)
        if hasattr(f0, "deriv"):
            tr.deriv = lambda r, f0=f0, X=X: f0.deriv(r + X)
        if hasattr(f0, "deriv2"):
            tr.deriv2 = lambda r, f0=f0, X=X: f0.deriv2(r + X)
        txt = None if a[1] is None else "trans(%s, as.constant %r)" % (a[1], X)
        # the API side here is the documented meaning f(r+X); the potable side exercises _modifiers.trans itself
        return tr, txt, ("trans", a[2], X), [b - X for b in a[3]]
    if k == "multi":
        a = gen_expr(rng, depth - 1)
        b = gen_expr(rng, depth - 1)
        s = round(rng.uniform(0.8, 6.0), 3) + 0.000371
        f = ap.create_Multi_Range_Potential_Form(ap.Multi_Range_Defn(">", 0.0, a[0]), ap.Multi_Range_Defn(">=", s, b[0]))
        txt = None if (a[1] is None or b[1] is None or a[1].startswith(">") or " >" in a[1] or " >" in b[1]) else "%s >=%r %s" % (a[1], s, b[1])
        return f, txt, ("multi", a[2], s, b[2]), a[3] + b[3] + [0.0, s]
    # spline: repulsive start, any end
    A, rho = rnd(rng, 200, 3000, 1), rnd(rng, 0.15, 0.4, 3)
    C = rnd(rng, 5, 60, 1)
    rd = round(rng.uniform(0.8, 1.3), 2) + 0.000371
    ra = rd + round(rng.uniform(0.6, 1.2), 2)
    if rng.random() < 0.5:
        f = ap.SplinePotential(pfo.bornmayer(A, rho), pfo.buck(0.0, 1.0, C), rd, ra)
        txt = "spline(as.bornmayer %r %r >%r exp_spline >=%r as.buck 0.0 1.0 %r)" % (A, rho, rd, ra, C)
        return f, txt, ("exp_spline", A, rho, C, rd, ra), [rd, ra]
    rm = round((rd + ra) / 2, 3)
    f = pfo.buck4(A, rho, C, rd, rm, ra)
    return f, "as.buck4 %r %r %r %r %r %r" % (A, rho, C, rd, rm, ra), ("buck4", A, rho, C, rd, rm, ra), [rd, rm, ra]


def ranged(rng, a, p=0.3):
    """an ARGUMENT of a modifier may carry its own range start (`sum(as.buck 1000 0.3 10, >=2.0 sum(...))`): the argument then acts from that start only and
    is zero below it (seed C09_6).  Applied to arguments whose text has no top-level range of its own."""
    if rng.random() >= p or a[1] is None or a[1].startswith(">") or " >" in a[1]:
        return a
    marker = rng.choice([">", ">="])
    s = round(rng.uniform(0.8, 6.0), 3) + 0.000371
    f = ap.create_Multi_Range_Potential_Form(ap.Multi_Range_Defn(marker, s, a[0]))
    return f, "%s%r %s" % (marker, s, a[1]), ("from", marker, s, a[2]), a[3] + [s]


def potable_callable(text):
    cfg = "[Tabulation]\ntarget : LAMMPS\ncutoff : 10.0\nnr : 11\n[Pair]\nA-B : %s\n" % text
    from atsim.potentials.config import Configuration
    return Configuration().read(io.StringIO(cfg)).potentials[0].potentialFunction


# ---------------------------------------------------------------------------------------------------------------------
class Sym(object):
    def __init__(self, v, d, d2):
        self.v, self.d, self.d2 = v, d, d2

    def __call__(self, r):
        return self.v

    def deriv(self, r):
        return self.d

    def deriv2(self, r):
        return self.d2


class Counting(object):
    """leaf that records how it is used"""

    def __init__(self, f, analytic):
        self.f = f
        self.calls = []
        self.deriv_calls = []
        if analytic:
            self.deriv = self._deriv

    def __call__(self, r):
        self.calls.append(r)
        return self.f(r)

    def _deriv(self, r):
        self.deriv_calls.append(r)
        return self.f.deriv(r)


def check(run):
    run.rule = ("(a) generated deriv/deriv2 terms and the plus/product/pow closure bodies evaluated at Float vs the Python originals (translator validation); "
                "(b) polynomial.deriv/deriv2 orders 0..8 incl. r = 0 vs the hand model; (c) instrumented leaves: an operand offering deriv is differentiated by it, one that "
                "does not by central differences of that operand alone; (d) numerical oracle on the real callables: random expressions (depth <= 3: built-in forms, plus, product, "
                "pow, 3-ary sum, trans, multi-range, exp-spline, buck4) through the Python API and through potable text, deriv vs 4th-order difference of the value, deriv2 vs that "
                "of deriv, r in [0.3, 30], away from range boundaries; distinct = (expression, r, route)")
    run.assumptions += ["theorems are over R; the numerical oracle (Richardson differences, relative 2e-6) is a test, labelled as such",
                        "table-form derivatives are SciPy's (C18)", "ZBL deriv2 and Tang-Toennies deriv/deriv2 contain machine-expanded decimal coefficients that only approximate their closed forms "
                        "(1e-14 relative): covered by the numerical oracle, not by an exact theorem"]
    rng = run.rng
    formlib.validate_translator(run, whiches=("deriv", "deriv2"), npts=run.n(120, 2000))
    # ---- closures ---------------------------------------------------------------------------------------------------------
    reqs, metas = [], []
    nrule = 0
    for cname, fn in (("plus", ap.plus), ("product", ap.product), ("pow", ap.pow)):
        pts = []
        for _ in range(run.n(100, 2000)):
            va = rnd(rng, 0.2, 5, 3) if cname == "pow" else rnd(rng, -5, 5, 3)
            vb, da, db, d2a, d2b = [rnd(rng, -3, 3, 3) for _ in range(5)]
            # operands that are EXACTLY zero at the evaluation point (an isolated zero crossing of a factor, a vanishing exponent or slope): the rules must not
            # short-cut there (seed C07_5: product().deriv returned 0 wherever a factor vanished)
            z = rng.random()
            if z < 0.12 and cname != "pow":
                va = 0.0
            elif z < 0.24:
                vb = 0.0
            elif z < 0.30:
                da = 0.0
            elif z < 0.36:
                db = 0.0
            f = fn(Sym(va, da, d2a), Sym(vb, db, d2b))
            pot, der, der2 = f(1.0), f.deriv(1.0), f.deriv2(1.0)
            pts.append(([va, vb, da, db, d2a, d2b, pot, der], (pot, der, der2)))
            # property oracle on the implementation itself: the sum / product / power rules to second order, written out independently
            if cname == "plus":
                want = (va + vb, da + db, d2a + d2b)
            elif cname == "product":
                want = (va * vb, va * db + vb * da, va * d2b + 2.0 * da * db + vb * d2a)
            else:
                fv = va ** vb
                g1 = db * math.log(va) + vb * da / va
                want = (fv, fv * g1, fv * (g1 * g1 + d2b * math.log(va) + 2.0 * db * da / va + vb * d2a / va - vb * da * da / (va * va)))
            run.case(key=("closure-rule", cname, va, vb, da, db, d2a, d2b), kind="closure-rule-" + cname)
            for which, got, w in zip(("value", "deriv", "deriv2"), (pot, der, der2), want):
                scale = abs(va * d2b) + abs(2 * da * db) + abs(vb * d2a) + abs(w) if cname != "pow" else abs(w) + abs(fv) * (g1 * g1 + abs(d2b * math.log(va)) + abs(2 * db * da / va) + abs(vb * d2a / va) + abs(vb * da * da / (va * va)))
                if abs(got - w) > 1e-11 * scale + 1e-300:
                    if nrule < 2:
                        run.fail("deriv-mismatch", "%s(a, b).%s where a = %r (a' = %r, a'' = %r) and b = %r (b' = %r, b'' = %r) at the evaluation point: got %r, the %s rule gives %r" % (
                            cname, which, va, da, d2a, vb, db, d2b, got, {"plus": "sum", "product": "product", "pow": "power"}[cname], w),
                            dict(combinator=cname, which=which, a=[va, da, d2a], b=[vb, db, d2b], observed=got, expected=w))
                    nrule += 1
                    break
        for which, idx in (("potential", 0), ("deriv", 1), ("deriv2", 2)):
            reqs.append(dict(m="expr", op="closure", name="%s.%s" % (cname, which), points=[[me(float(x)) for x in p[0]] for p in pts]))
            metas.append((cname, which, idx, pts))
    for (cname, which, idx, pts), ans in zip(metas, lean_query(reqs)):
        if ans == "untranslatable":
            run.tie_broken("translator", "%s.%s" % (cname, which), "closure body outside the translated fragment")
            continue
        for (syms, vals), a in zip(pts, ans):
            run.traces += 1
            if not close(ans_float(a), vals[idx], 1e-11, 1e-300):
                run.tie_broken("translator", "%s.%s" % (cname, which), "generated closure term gives %r, Python %r for symbols %s" % (ans_float(a), vals[idx], syms))
                break
    # ---- polynomial hand model, incl. r = 0 ------------------------------------------------------------------------------------
    pts = []
    for order in range(0, 9):
        for j in range(run.n(10, 200)):
            cs = [rnd(rng, -5, 5, 3) for _ in range(order + 1)]
            pts.append([0.0 if j == 0 else rnd(rng, 0.0, 6.0, 4)] + cs)
    for which in ("deriv", "deriv2"):
        ans = lean_query([dict(m="expr", op="poly", which=which, points=[[me(float(x)) for x in p] for p in pts])])[0]
        for p, a in zip(pts, ans):
            r, cs = p[0], p[1:]
            run.case(key=("poly", which, tuple(p)), kind="polynomial-" + which)
            try:
                v = getattr(pfn.polynomial, which)(r, *cs)
            except Exception as e:
                run.fail("polynomial-deriv-at-zero" if r == 0.0 else "deriv-mismatch", "polynomial.%s(%r, %s) raised %s: %s (polynomials are regular at r = 0)" % (which, r, cs, type(e).__name__, e),
                         dict(form="polynomial", which=which, r=r, coefs=cs))
                break
            exact = sum(i * c * r ** (i - 1) for i, c in enumerate(cs) if i >= 1) if which == "deriv" else sum(i * (i - 1) * c * r ** (i - 2) for i, c in enumerate(cs) if i >= 2)
            # rounding error of any summation order is bounded by (number of terms) * eps * (sum of the terms' magnitudes): the tolerance is relative to that, not to a cancelled result
            mag = sum(abs(i * c * r ** (i - 1)) for i, c in enumerate(cs) if i >= 1) if which == "deriv" else sum(abs(i * (i - 1) * c * r ** (i - 2)) for i, c in enumerate(cs) if i >= 2)
            if not close(v, exact, 1e-12, 1e-12 + 1e-14 * len(cs) * mag):
                run.fail("deriv-mismatch", "polynomial.%s(%r, %s) = %r, exact %r" % (which, r, cs, v, exact), dict(form="polynomial", which=which, r=r, coefs=cs))
                break
            if not close(ans_float(a), v, 1e-13, 1e-300 + 4e-16 * len(cs) * mag):
                run.tie_broken("correspondence", "Atsim.polyDeriv(2) vs potentialfunctions.polynomial", "%s r=%r coefs=%s impl=%r model=%r" % (which, r, cs, v, ans_float(a)))
                break
    # ---- fallback locality --------------------------------------------------------------------------------------------------
    for fn, nm in ((ap.plus, "plus"), ("product", "product"), (ap.pow, "pow")):
        if fn == "product":
            fn = ap.product
        for order in (0, 1):
            a = Counting(pfo.bornmayer(10.0, 0.7), analytic=True)
            b = Counting(lambda r: 1.5 + 0.1 * r, analytic=False)
            f = fn(a, b) if order == 0 else fn(b, a)
            if nm == "pow" and order == 1:
                continue
            r = 1.3
            a.calls[:] = []
            b.calls[:] = []
            f.deriv(r)
            run.case(key=("locality", nm, order), kind="fallback-locality")
            probes_b = [x for x in b.calls if abs(x - r) > 1e-9]
            probes_a = [x for x in a.calls if abs(x - r) > 1e-9]
            ok = len(a.deriv_calls) == 1 and len(probes_b) == 2 and all(abs(abs(x - r) - 0.5e-6) < 1e-9 for x in probes_b) and not probes_a
            if not ok:
                run.fail("fallback-locality", "%s(analytic, derivative-less).deriv(%r): analytic operand .deriv calls %d, probed at %s; derivative-less operand probed at %s (expected: .deriv once, "
                         "central difference of the derivative-less operand alone)" % (nm, r, len(a.deriv_calls), probes_a, probes_b), dict(combinator=nm, order=order))
    # ---- numerical oracle over random expressions ---------------------------------------------------------------------------------
    nbad = 0
    for i in range(run.n(160, 4000)):
        f, txt, desc, bounds = gen_expr(rng, rng.randint(0, 3))
        rs = [round(rng.uniform(0.3, 30.0 if rng.random() < 0.2 else 7.0), 4) for _ in range(4)]
        targets = [("python-api", f)]
        if txt is not None and rng.random() < 0.6:
            try:
                targets.append(("potable", potable_callable(txt)))
            except Exception as e:
                run.fail("potable-rejects-valid", "well-formed definition refused: %s: %s" % (type(e).__name__, str(e)[:200]), dict(definition=txt))
                continue
        for route, g in targets:
            for r in rs:
                run.case(key=(route, str(desc), r), kind="oracle/" + route, sample=dict(expression=str(desc)[:300], potable=txt, r=r) if i in (3, 40) else None)
                run.traces += 1
                try:
                    p = deriv_problem(g, r, bounds + [0.0])
                except Exception as e:
                    p = None
                if p:
                    nbad += 1
                    if nbad <= 3:
                        run.fail("deriv-mismatch", "%s: %s" % (route, p), dict(expression=str(desc), potable_definition=txt, r=r, route=route))
                    break
    regular_points(run)
    below_first_range(run)
    # ---- built-in forms directly, dense -------------------------------------------------------------------------------------------
    for n in formlib.form_names():
        fobj = getattr(pfo, n)
        bad = 0
        for _ in range(run.n(60, 1500)):
            ps = DOMAIN[n](rng)
            r = formlib.r_value(rng, n)
            run.case(key=("form", n, r, tuple(ps)), kind="oracle/form")
            p = deriv_problem(fobj(*ps), r)
            if p and bad == 0:
                bad += 1
                run.fail("deriv-mismatch", "as.%s %s: %s" % (n, ps, p), dict(form=n, params=ps, r=r))


def below_first_range(run):
    """a multi-range potential built through the Python API with a `default_value` (the energy below its first range, e.g. a plateau that caps a repulsive wall): the
    energy there is that CONSTANT, so both offered derivatives are 0 - alone, inside plus()/product(), nested in another multi-range form, and as the force column of a
    LAMMPS table (round-6 seed C07_12)"""
    rng = run.rng
    for _ in range(run.n(10, 120)):
        n = rng.choice([x for x in ("buck", "bornmayer", "morse", "lj", "exponential", "hbnd", "coul") if x in DOMAIN])
        ps = DOMAIN[n](rng)
        inner = getattr(pfo, n)(*ps)
        s = round(rng.uniform(0.8, 3.0), 3) + 0.000371
        dv = rnd(rng, -50, 50, 2) if rng.random() < 0.85 else 0.0
        marker = rng.choice([">", ">="])
        f = ap.create_Multi_Range_Potential_Form(ap.Multi_Range_Defn(marker, s, inner), default_value=dv)
        other = pfo.coul(rnd(rng, -2, 2, 1), rnd(rng, -2, 2, 1))
        shapes = [("alone", f, lambda r: (dv, 0.0, 0.0)),
                  ("plus(., as.coul)", ap.plus(f, other), lambda r: (dv + other(r), other.deriv(r), other.deriv2(r))),
                  ("product(., as.coul)", ap.product(f, other), lambda r: (dv * other(r), dv * other.deriv(r), dv * other.deriv2(r))),
                  ("nested in a second multi-range form", ap.create_Multi_Range_Potential_Form(ap.Multi_Range_Defn(">", 0.0, f)), lambda r: (dv, 0.0, 0.0))]
        for r in (round(rng.uniform(0.05, s - 0.05), 4), s - 1e-9, 0.5 * s):
            for name, g, want in shapes:
                run.case(key=("below-first-range", n, tuple(ps), s, dv, marker, name, r), kind="oracle/below-first-range")
                run.traces += 1
                w = want(r)
                try:
                    got = (g(r), g.deriv(r), g.deriv2(r))
                except Exception as e:
                    run.fail("deriv-mismatch", "multi-range form with default_value %r below its first range (%s%r), %s, at r=%r: %s: %s" % (dv, marker, s, name, r, type(e).__name__, e),
                             dict(form=n, params=ps, start=s, marker=marker, default_value=dv, shape=name, r=r))
                    return
                if any(not close(a, b, 1e-9, 1e-9) for a, b in zip(got, w)):
                    run.fail("deriv-mismatch", "multi-range form as.%s %s from %s%r with default_value %r, %s, at r=%r (below the first range, where the energy is the constant): "
                             "(value, deriv, deriv2) = %r, the derivatives of the energy are %r" % (n, ps, marker, s, dv, name, r, got, w),
                             dict(form=n, params=ps, start=s, marker=marker, default_value=dv, shape=name, r=r))
                    return


def regular_points(run):
    """(1) r = 0 for the forms that are regular there (the property's quantifier starts at 0 for them; GULP / setfl / Excel tables have an r = 0 row): value, deriv and
    deriv2 must exist and be the derivatives; (2) powers with a constant integer exponent over a base that changes sign (the modifier's own docstring example
    `pow(as.buck 1000 0.2 32, as.constant 2)` is negative beyond r ~ 2.4): a**n is differentiable there."""
    rng = run.rng
    cases = []
    first_only = []
    for _ in range(run.n(6, 60)):
        cases.append(("as.bornmayer", pfo.bornmayer(rnd(rng, 50, 5000, 1), rnd(rng, 0.1, 0.6)), 0.0))
        cases.append(("as.morse", pfo.morse(rnd(rng, 0.5, 3.0, 2), rnd(rng, 0.5, 4.0, 2), rnd(rng, 0.1, 8, 2)), 0.0))
        cases.append(("as.exp_spline", pfo.exp_spline(*DOMAIN["exp_spline"](rng)), 0.0))
        for n in (0.0, 1.0, 2.0, 3.0):
            cases.append(("as.exponential A %g" % n, pfo.exponential(rnd(rng, -10, 10), n), 0.0))
        A, rho, C = rnd(rng, 500, 3000, 1), rnd(rng, 0.15, 0.3, 3), rnd(rng, 10, 60, 1)
        for n in (2.0, 3.0, 4.0):
            f = ap.pow(pfo.buck(A, rho, C), pfo.constant(n))
            r = rnd(rng, 3.0, 8.0, 3)
            if pfo.buck(A, rho, C)(r) < 0:
                cases.append(("pow(as.buck %r %r %r, as.constant %g) where the base is negative" % (A, rho, C, n), f, r))
        # (4) a component WITHOUT analytic derivative inside a sum / product, evaluated at r = 0 and a few 1e-7 above it: the numerical fallback straddles zero
        #     (r - h/2 < 0), which is fine for a function that is regular there
        k1, k0 = rnd(rng, -5, 5, 2), rnd(rng, -5, 5, 2)
        lin = lambda r, k1=k1, k0=k0: k1 * r + k0 + 0.5 * r * r          # no .deriv attribute
        #     (first derivative only: the nested central difference behind deriv2 of such a component is accurate to about 1e-4, section 6.0 of DESIGN.md)
        for rr in (0.0, 2e-7, 4e-7):
            first_only.append(("plus(<callable %r*r + %r + r^2/2 without deriv>, as.constant 1.0) near r = 0" % (k1, k0), ap.plus(lin, pfo.constant(1.0)), rr, k1 + rr))
            first_only.append(("product(<callable %r*r + %r + r^2/2 without deriv>, as.polynomial 2.0 1.0) near r = 0" % (k1, k0), ap.product(lin, pfo.polynomial(2.0, 1.0)), rr,
                               (k1 + rr) * (2.0 + rr) + lin(rr)))
        # (3) a base that is exactly ZERO at the point, exponent a constant >= 1: (r - c)**n is differentiable at r = c (a table row can fall on it)
        c = float(rng.randint(1, 6)) / 2
        for n in (1.0, 2.0, 3.0):
            cases.append(("pow(as.polynomial %r 1.0, as.constant %g) where the base is zero" % (-c, n), ap.pow(pfo.polynomial(-c, 1.0), pfo.constant(n)), c))
    nb = 0
    for what, f, r in cases:
        run.case(key=("regular-point", what, r), kind="oracle/regular-point")
        try:
            f(r)
        except (OverflowError, ZeroDivisionError, ValueError) as e:
            p = "the value itself raises %s (%s) at r = %r, where the form is regular" % (type(e).__name__, e, r)
        else:
            p = deriv_problem(f, r)
        if p:
            nb += 1
            if nb <= 3:
                run.fail("deriv-mismatch", "%s: %s" % (what, p), dict(form=what, r=r))
    for what, f, r, slope in first_only:
        run.case(key=("regular-point", what, r), kind="oracle/regular-point")
        try:
            d = f.deriv(r)
            p = None if abs(d - slope) <= 1e-6 * max(1.0, abs(slope)) else "deriv(%r) = %r but dE/dr = %r" % (r, d, slope)
        except (OverflowError, ZeroDivisionError, ValueError) as e:
            p = "deriv(%r) raises %s (%s)" % (r, type(e).__name__, e)
        if p:
            nb += 1
            if nb <= 3:
                run.fail("deriv-mismatch", "%s: %s" % (what, p), dict(form=what, r=r))


def replay(run, payload):
    print("replay:", payload.get("case"))
    return 2
