"""C05 - DL_POLY TABEAM.  Correspondence of `Atsim.tabeam` / `tabeamTab` with writeTABEAM, writeTABEAMFinnisSinclair,
the TABEAM tabulation classes and potable targets DL_POLY_EAM / DL_POLY_EAM_fs."""
import io

from common import Fr, fq, lean_query
import impl
import eamlib

from atsim.potentials import writeTABEAM, writeTABEAMFinnisSinclair
from atsim.potentials.eam_tabulation import TABEAM_EAMTabulation, TABEAM_FinnisSinclair_EAMTabulation

HOWS = ["func", "class", "config", "cli"]


def gen_case(rng, fs=None, how=None, nmax=4):
    fs = rng.random() < 0.5 if fs is None else fs
    how = how or rng.choice(HOWS)
    potable = how in ("config", "cli")
    m = eamlib.gen_model(rng, fs=fs, potable=potable, nmax=nmax, kmax=4, nr_max=14, nrho_max=11)
    if potable:
        eamlib.make_potable_variants(rng, m)
    if rng.random() < 0.25:
        # a pair potential that names a species WITHOUT embedding / density functions (an oxide model's O-O next to the metal's EAM functions): the file lists the
        # functions of the EAM species only - the declared count and the blocks that follow still agree (round-8 seed C05_13)
        extra = rng.choice(["Ox", "Qz"])
        for (a, b) in rng.sample([(extra, extra), rng.choice([(m["els"][0], extra), (extra, m["els"][-1])])], rng.randint(1, 2)):
            m["pairs"].append((a, b, 70 + len(m["pairs"])))
    target = "DL_POLY_EAM_fs" if fs else "DL_POLY_EAM"
    return dict(route="%s/%s" % (target, how), how=how, model=m, target=target, api_variant=None if potable else eamlib.api_variant(rng, m))


def run_impl(case):
    m, how, fs = case["model"], case["how"], case["model"]["fs"]
    if how in ("func", "class"):
        pots, eams = eamlib.build_objects(m, variant=case.get("api_variant"))
        s = io.StringIO()
        if how == "class":
            cls = TABEAM_FinnisSinclair_EAMTabulation if fs else TABEAM_EAMTabulation
            eamlib.write_second_time(cls(pots, eams, float(m["cut"]), m["nr"], float(m["cutrho"]), m["nrho"]), s)
        else:
            d = eamlib.direct_args(m)
            (writeTABEAMFinnisSinclair if fs else writeTABEAM)(m["nrho"], float(Fr(d["drho"])), m["nr"], float(Fr(d["dr"])), eams, pots, s)
        return "ok", s.getvalue()
    cfg = eamlib.cfg_text(m, case["target"])
    if how == "cli":
        r = impl.potable_cli(cfg)
        if r["rc"] == 0:
            return "ok", r["output"]
        return ("config_error" if "configuration error" in r["stderr"] else "cli-failure rc=%s %s" % (r["rc"], r["stderr"][-200:])), None
    oc, v = impl.outcome_of(lambda: impl.config_tabulate(cfg))
    return oc, (v if oc == "ok" else None)


def model_request(case):
    m, how = case["model"], case["how"]
    if how == "func":
        return eamlib.request(m, "tabeam", False, **eamlib.direct_args(m))
    return eamlib.request(m, "tabeamTab", how in ("config", "cli"), **eamlib.tab_args(m))


def tokenise(case, out):
    toks = eamlib.tabeam_tokens(out)
    return toks


def rewritten_after_change(run):
    """Python-API objects written, their functions' parameters changed (a fitting loop), the SAME objects written again on the same grid: the second file must hold
    the functions as they are at that moment - no table, block or value remembered from the first write"""
    import copy
    rng = run.rng
    cases = []
    for _ in range(run.n(10, 80)):
        c = gen_case(rng, how=rng.choice(["func", "class"]))
        c["api_variant"] = None
        cases.append(c)

    def bumped(m):
        m2 = copy.deepcopy(m)
        b = lambda f: f + 17 if f else f
        m2["embed"] = {e: b(f) for e, f in m["embed"].items()}
        m2["dens"] = ({a: {k: b(f) for k, f in d.items()} for a, d in m["dens"].items()} if m["fs"] else {e: b(f) for e, f in m["dens"].items()})
        m2["pairs"] = [(a, b_, b(f)) for (a, b_, f) in m["pairs"]]
        return m2
    seconds = [dict(c, model=bumped(c["model"])) for c in cases]
    models = lean_query([model_request(c) for c in seconds])
    nbad = 0
    for c, c2, mo in zip(cases, seconds, models):
        m, fs = c["model"], c["model"]["fs"]
        pots, eams = eamlib.build_objects(m)
        if c["how"] == "class":
            cls = TABEAM_FinnisSinclair_EAMTabulation if fs else TABEAM_EAMTabulation
            tab = cls(pots, eams, float(m["cut"]), m["nr"], float(m["cutrho"]), m["nrho"])
            go = lambda s: tab.write(s)
        else:
            d = eamlib.direct_args(m)
            go = lambda s: (writeTABEAMFinnisSinclair if fs else writeTABEAM)(m["nrho"], float(Fr(d["drho"])), m["nr"], float(Fr(d["dr"])), eams, pots, s)
        s1, s2 = io.StringIO(), io.StringIO()
        go(s1)
        # the same callables, other parameters
        for e in eams:
            fns = [e.embeddingFunction] + (list(e.electronDensityFunction.values()) if fs else [e.electronDensityFunction])
            for f in fns:
                if isinstance(f, eamlib.Tr):
                    f.fid += 17
        for p in pots:
            p.potentialFunction.fid += 17
        go(s2)
        run.case(key=("rewrite", c["route"], str(eamlib.describe(c))), kind="%s/rewritten-after-change" % c["route"])
        run.traces += 2
        try:
            from props.C01 import first_diff
            dd = first_diff(tokenise(c2, s2.getvalue()), mo)
        except eamlib.FormatError as e:
            dd = "layout: %s" % e
        if dd:
            nbad += 1
            if nbad <= 2:
                run.fail("tabeam-mismatch", "the same objects written a second time after their functions' parameters were changed: the second TABEAM file differs from the functions as they "
                         "are now: %s" % dd, dict(case=eamlib.describe(c), second_model=eamlib.describe(c2), first_difference=dd))


def check(run):
    import genlib
    genlib.validate_tabulation_objects(run, kinds=("tabeam", "tabeam_fs"), n=run.n(6, 50))
    genlib.validate_eam_writer(run, "tabeam", n=run.n(10, 100))
    genlib.validate_eam_writer(run, "tabeam_fs", n=run.n(6, 60))
    run.rule = ("tracer EAM and Finnis-Sinclair models (1..4 elements, random subset/orientation/order of declared pairs, grids nr 2..14, nrho 2..11 on dyadic "
                "cutoffs so that %f prints exactly) x routes writeTABEAM(FinnisSinclair), TABEAM tabulation classes, potable DL_POLY_EAM(_fs) via Configuration and "
                "the potable entry point; the tokeniser checks that every block header's n is followed by exactly n values in records of <= 4; "
                "distinct = (route, fs, element order, declared pairs, grid)")
    run.assumptions += ["tokeniser tabeam_tokens", "element lists without repeats (with a repeated element the declared and emitted counts differ: outside the property)",
                        "the 100-character title record is not constrained by the property and is not compared"]
    n = run.n(260, 4000)
    cases = [gen_case(run.rng) for _ in range(n)]
    if not run.quick:
        import itertools, random
        for fs in (False, True):
            for n_el in (1, 2, 3, 4):
                els0 = ["Zr", "Al", "Cu", "Ag"][:n_el]
                upairs = [(a, b) for i, a in enumerate(els0) for b in els0[:i + 1]]
                for mask in itertools.product([0, 1, 2], repeat=len(upairs)):
                    if n_el == 4 and hash(mask) % 40:
                        continue
                    rr = random.Random(hash((fs, mask)) & 0xffff)
                    c = gen_case(rr, fs=fs, how="class", nmax=1)
                    m = c["model"]
                    m["els"] = list(els0)
                    m["embed"] = {e: 10 + i for i, e in enumerate(els0)}
                    m["dens"] = ({a: {b: 100 + 10 * i + j for j, b in enumerate(els0)} for i, a in enumerate(els0)} if fs else {e: 20 + i for i, e in enumerate(els0)})
                    m["meta"] = {e: dict(z=5 + i, mass=Fr(20 + i), a0=Fr(3), lat="fcc") for i, e in enumerate(els0)}
                    m["pairs"] = [((a, b) if mk == 1 else (b, a)) + (30 + j,) for j, ((a, b), mk) in enumerate(zip(upairs, mask)) if mk]
                    cases.append(c)
    eamlib.correspond(run, cases, run_impl, model_request, tokenise, "tabeam-mismatch", "TABEAM file differs from the model/property",
                      kind_of=lambda c, mo: "%s/n=%d" % (c["route"], len(c["model"]["els"])))
    rewritten_after_change(run)


def replay(run, payload):
    print("replay file holds the failing model (case.*); re-run ./check C05 to search again")
    return 2
