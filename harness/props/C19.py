"""C19 - secondary targets: GULP, ADP (eam_adp), funcfl, Excel (excel, excel_eam, excel_eam_fs).
Tracer correspondence of `Atsim.gulpTable`, `adp`, `funcfl`, `pairSheet`/`excelEam` with the real writers through the Python API and potable."""
import io
import math
from fractions import Fraction as Fr

from common import fq, dec, lean_query
import impl
import eamlib
from eamlib import FormatError, decode64, flt
from tracers import ApiTracer, LABELS, decode16, slot
from props.C01 import first_diff

from atsim.potentials import Potential, writeFuncFL, writePotentials
from atsim.potentials.pair_tabulation import GULP_PairTabulation, Excel_PairTabulation
from atsim.potentials.eam_tabulation import ADP_EAMTabulation, Excel_EAMTabulation, Excel_FinnisSinclair_EAMTabulation


# ---- GULP --------------------------------------------------------------------------------------------------------------------
def gulp_tokens(text, mode):
    L = text.split("\n")
    if L and L[-1] == "":
        L = L[:-1]
    blocks = []
    i = 0
    while i < len(L):
        if L[i] != "spline cubic":
            raise FormatError("expected 'spline cubic', found %r" % L[i])
        h = L[i + 1].split()
        if len(h) != 3:
            raise FormatError("bad GULP header %r" % L[i + 1])
        i += 2
        rows = []
        while i < len(L) and L[i] != "spline cubic":
            f = L[i].split()
            if len(f) != 2:
                raise FormatError("row %r" % L[i])
            e, r = dec(f[0]), dec(f[1])
            if mode == "api":
                es = decode16(e)
            else:
                fid = int(e // 64)
                es = slot(fid, (e - 64 * fid) / fid) if fid > 0 else ("0" if e == 0 else ["?", f[0]])
            rows.append([es, fq(r)])
            i += 1
        blocks.append(dict(a=h[0], b=h[1], cutoff=fq(Fr(float(h[2]))), rows=rows))
    return blocks


def gulp_case(rng):
    k = rng.randint(1, 8)
    nr = rng.randint(2, min(40, 7 * 2 ** k))
    cut = Fr(nr - 1, 2 ** k)
    route = rng.choice(["class", "writePotentials", "config", "cli"])
    pots, seen = [], set()
    for fid in range(1, rng.randint(1, 4) + 1):
        for _ in range(20):
            a, b = rng.choice(LABELS), rng.choice(LABELS)
            if route in ("class", "writePotentials") or frozenset((a, b)) not in seen:
                break
        seen.add(frozenset((a, b)))
        pots.append(dict(a=a, b=b, fid=fid))
    return dict(kind="gulp", route=route, cut=fq(cut), nr=nr, pots=pots)


def gulp_cfg(c):
    t = "[Tabulation]\ntarget : GULP\ncutoff : %s\nnr : %d\n[Pair]\n" % (impl.decimal_str(Fr(c["cut"])), c["nr"])
    for p in c["pots"]:
        t += "%s-%s : >=0 as.polynomial %d.0 %d.0\n" % (p["a"], p["b"], 64 * p["fid"], p["fid"])
    return t


def gulp_run(c):
    if c["route"] in ("class", "writePotentials"):
        ps = [Potential(p["a"], p["b"], ApiTracer(p["fid"], True, "lammps")) for p in c["pots"]]
        s = io.StringIO()
        if c["route"] == "class":
            eamlib.write_second_time(GULP_PairTabulation(ps, float(Fr(c["cut"])), c["nr"]), s)
        else:
            writePotentials("GULP", ps, float(Fr(c["cut"])), c["nr"], s)
        return gulp_tokens(s.getvalue(), "api")
    if c["route"] == "cli":
        r = impl.potable_cli(gulp_cfg(c))
        if r["rc"] != 0:
            raise RuntimeError("potable failed: %s" % r["stderr"][-200:])
        return gulp_tokens(r["output"], "poly")
    return gulp_tokens(impl.config_tabulate(gulp_cfg(c)), "poly")


# ---- funcfl --------------------------------------------------------------------------------------------------------------------
def funcfl_tokens(text, nrho_nr=None):
    L = text.split("\n")
    if L and L[-1] == "":
        L = L[:-1]
    h1 = L[1].split()
    h2 = L[2].split()
    if len(h1) != 4 or len(h2) != 5:
        raise FormatError("funcfl header lines %r / %r" % (L[1], L[2]))
    nrho, drho, nr, dr, cutoff = int(h2[0]), dec(h2[1]), int(h2[2]), dec(h2[3]), dec(h2[4])
    lines = [l.split() for l in L[3:]]
    pos = 0

    def block(n, what):
        nonlocal pos
        rows, got = [], 0
        while got < n:
            if pos >= len(lines):
                raise FormatError("file ends inside the %s block" % what)
            row = lines[pos]
            pos += 1
            if len(row) > 5 or got + len(row) > n:
                raise FormatError("%s block: record %r does not fit (max 5 per record, %d values declared)" % (what, row, n))
            rows.append(row)
            got += len(row)
        return rows
    emb = block(nrho, "embedding")
    chg = block(nr, "effective charge")
    den = block(nr, "density")
    if pos != len(lines):
        raise FormatError("unexpected trailing records")
    charge_rows = []
    k = 0
    for row in chg:
        out = []
        for x in row:
            z = float(x)
            r = float(k * dr)
            if k == 0:
                out.append("0" if z == 0.0 else ["?", x])
            else:
                phi = z * z * 27.2 * 0.529 / r
                fid = int(round((phi - r) / 64.0))
                ok = fid > 0 and abs(phi - (64 * fid + r)) <= 1e-9 * abs(phi)
                out.append([fid, fq(k * dr)] if ok else ["?", x])
            k += 1
        charge_rows.append(out)
    return dict(z=int(h1[0]), mass=fq(dec(h1[1])), a0=fq(dec(h1[2])), lat=h1[3], nrho=nrho, drho=fq(drho), nr=nr, dr=fq(dr), cutoff=fq(cutoff),
                embed=[[decode64(dec(x)) for x in row] for row in emb], charge=charge_rows, dens=[[decode64(dec(x)) for x in row] for row in den])


def funcfl_case(rng):
    k = rng.randint(1, 4)
    nr = rng.randint(2, 23)
    nrho = rng.randint(2, 17)
    kr = rng.randint(1, 3)
    return dict(kind="funcfl", route="writeFuncFL", nr=nr, nrho=nrho, dr=fq(Fr(1, 2 ** k)), drho=fq(Fr(1, 2 ** kr)), z=rng.randint(1, 100), mass=fq(Fr(rng.randint(8, 2000), 8)),
                a0=fq(Fr(rng.randint(0, 80), 16)), lat=rng.choice(eamlib.LATTICES), embed=1, dens=2, pair=3)


def funcfl_run(c):
    from atsim.potentials import EAMPotential
    e = EAMPotential("Al", c["z"], float(Fr(c["mass"])), eamlib.Tr(c["embed"]), eamlib.Tr(c["dens"]), float(Fr(c["a0"])), c["lat"])
    p = Potential("Al", "Al", eamlib.Tr(c["pair"]))
    s = io.StringIO()
    writeFuncFL(c["nrho"], float(Fr(c["drho"])), c["nr"], float(Fr(c["dr"])), [e], [p], s, title="t")
    return funcfl_tokens(s.getvalue())


def funcfl_request(c):
    return dict(m="eam", op="funcfl", nrho=c["nrho"], drho=c["drho"], nr=c["nr"], dr=c["dr"], pairFid=c["pair"],
                els=[dict(sp="Al", z=c["z"], mass=c["mass"], a0=c["a0"], lat=c["lat"], embed=c["embed"], dens=c["dens"], densTo=[])])


# ---- ADP and Excel (EAM models from eamlib) -------------------------------------------------------------------------------------
def adp_case(rng):
    how = rng.choice(["class", "config", "cli"])
    potable = how != "class"
    m = eamlib.gen_model(rng, fs=False, potable=potable)
    if potable:
        eamlib.make_potable_variants(rng, m)
    nxt = 500

    def decls():
        nonlocal nxt
        out = []
        els = m["els"]
        for i, a in enumerate(els):
            for b in els[:i + 1]:
                if rng.random() < 0.6:
                    nxt += 1
                    out.append(((a, b) if rng.random() < 0.5 else (b, a)) + (nxt,))
        rng.shuffle(out)
        return out
    return dict(kind="adp", route="adp/" + how, how=how, model=m, dip=decls(), quad=decls())


def adp_cfg(c):
    m = c["model"]
    extra = "\n[EAM-ADP-Dipole]\n" + "".join("%s-%s : %s\n" % (a, b, eamlib.poly(f)) for (a, b, f) in c["dip"])
    extra += "\n[EAM-ADP-Quadrupole]\n" + "".join("%s-%s : %s\n" % (a, b, eamlib.poly(f)) for (a, b, f) in c["quad"])
    return eamlib.cfg_text(m, "eam_adp", extra)


def adp_run(c):
    m = c["model"]
    if c["how"] == "class":
        # (pair, dipole and quadrupole potentials alike: every third case hands over Potential subclasses whose energy() is not their potentialFunction)
        sub = (m["nr"] + len(c["dip"])) % 3 == 0
        pots, eams = eamlib.build_objects(m, variant="energy-subclass" if sub else None)
        mkp = (lambda a, b, f: eamlib.EnergyPotential(a, b, eamlib.Tr(f), eamlib.Tr(f + 40))) if sub else (lambda a, b, f: Potential(a, b, eamlib.Tr(f)))
        dip = [mkp(a, b, f) for (a, b, f) in c["dip"]]
        quad = [mkp(a, b, f) for (a, b, f) in c["quad"]]
        s = io.StringIO()
        eamlib.write_second_time(ADP_EAMTabulation(pots, eams, dip, quad, float(m["cut"]), m["nr"], float(m["cutrho"]), m["nrho"]), s)
        return eamlib.setfl_tokens(s.getvalue(), fs=False, adp=True)
    if c["how"] == "cli":
        r = impl.potable_cli(adp_cfg(c))
        if r["rc"] != 0:
            raise RuntimeError("potable failed: %s" % r["stderr"][-200:])
        return eamlib.setfl_tokens(r["output"], fs=False, adp=True)
    return eamlib.setfl_tokens(impl.config_tabulate(adp_cfg(c)), fs=False, adp=True)


def adp_request(c):
    m = c["model"]
    return eamlib.request(m, "adp", c["how"] != "class", dip=[dict(a=a, b=b, fid=f) for (a, b, f) in c["dip"]],
                          quad=[dict(a=a, b=b, fid=f) for (a, b, f) in c["quad"]], **eamlib.tab_args(m))


def excel_case(rng):
    target = rng.choice(["excel", "excel_eam", "excel_eam_fs"])
    how = rng.choice(["class", "config"])
    potable = how != "class"
    m = eamlib.gen_model(rng, fs=(target == "excel_eam_fs"), potable=potable)
    if potable:
        eamlib.make_potable_variants(rng, m)
    return dict(kind="excel", route="%s/%s" % (target, how), how=how, target=target, model=m)


def excel_run(c):
    m, target = c["model"], c["target"]
    if c["how"] == "class":
        pots, eams = eamlib.build_objects(m, variant="energy-subclass" if (m["nr"] + m["nrho"]) % 3 == 0 else None)
        s = io.BytesIO()
        if target == "excel":
            eamlib.write_second_time(Excel_PairTabulation(pots, float(m["cut"]), m["nr"]), s)
        else:
            cls = Excel_FinnisSinclair_EAMTabulation if target == "excel_eam_fs" else Excel_EAMTabulation
            eamlib.write_second_time(cls(pots, eams, float(m["cut"]), m["nr"], float(m["cutrho"]), m["nrho"]), s)
        return eamlib.excel_tokens(s.getvalue())
    if target == "excel":
        cfg = "[Tabulation]\ntarget : excel\ncutoff : %s\nnr : %d\n\n[Pair]\n" % (impl.decimal_str(m["cut"]), m["nr"])
        cfg += "".join("%s-%s : %s\n" % (a, b, eamlib.poly(f)) for (a, b, f) in m["pairs"])
    else:
        cfg = eamlib.cfg_text(m, target)
    return eamlib.excel_tokens(impl.config_tabulate(cfg, binary=True))


def excel_request(c):
    m = c["model"]
    if c["target"] == "excel":
        return dict(m="eam", op="excelPair", els=[], pairs=[dict(a=a, b=b, fid=f) for (a, b, f) in m["pairs"]], cut=fq(m["cut"]), nr=m["nr"])
    return eamlib.request(m, "excelEam", c["how"] != "class", **eamlib.tab_args(m))


def check(run):
    import genlib
    genlib.validate_create_tabulation(run, n=run.n(40, 400))
    import genlib
    genlib.validate_tabulation_objects(run, kinds=("adp",), n=run.n(8, 60))
    genlib.validate_writer(run, "gulp", n=run.n(12, 120))
    run.rule = ("tracer models: GULP (1-4 potentials, nr 2..40, dyadic cutoffs; GULP_PairTabulation, writePotentials('GULP'), potable GULP via Configuration and entry point); "
                "ADP (EAM models with random declared/reversed/missing dipole and quadrupole pairs; class, potable eam_adp); funcfl (writeFuncFL, nr 2..23, nrho 2..17; the effective-charge "
                "column is squared and converted back x 27.2 x 0.529 / r and must return the pair potential); Excel pair/EAM/FS workbooks read back with openpyxl (class, potable); "
                "distinct = (target, route, model)")
    run.assumptions += ["openpyxl stores and returns the cell values it is given", "tokenisers gulp_tokens, setfl_tokens(adp), funcfl_tokens, excel_tokens",
                        "funcfl charge column: sqrt rounding is compared within 1e-9 relative after conversion back (the property's own statement), not decoded exactly"]
    rng = run.rng
    n = run.n(60, 1200)
    cases = [gulp_case(rng) for _ in range(n)] + [adp_case(rng) for _ in range(n)] + [funcfl_case(rng) for _ in range(n)] + [excel_case(rng) for _ in range(n)]
    reqs = []
    for c in cases:
        if c["kind"] == "gulp":
            reqs.append(dict(m="pair", op="gulp", cut=c["cut"], nr=c["nr"], pots=c["pots"]))
        elif c["kind"] == "adp":
            reqs.append(adp_request(c))
        elif c["kind"] == "funcfl":
            reqs.append(funcfl_request(c))
        else:
            reqs.append(excel_request(c))
    models = lean_query(reqs)
    bad = {}
    for c, mo in zip(cases, models):
        runner = dict(gulp=gulp_run, adp=adp_run, funcfl=funcfl_run, excel=excel_run)[c["kind"]]
        desc = c if "model" not in c else dict(eamlib.describe(dict(route=c["route"], model=c["model"], target=c.get("target", "eam_adp"))), dip=c.get("dip"), quad=c.get("quad"))
        run.case(key=(c["kind"], c["route"], str(desc)[:600]), kind=c["route"] if c["kind"] != "gulp" else "gulp/" + c["route"], sample=desc if bad.get(c["kind"], 0) == 0 and run.evaluations % 61 == 1 else None)
        run.traces += 1
        if mo == "config_error":
            continue
        try:
            toks = runner(c)
            d = first_diff(toks, mo)
        except FormatError as e:
            d, toks = "layout: %s" % e, None
        except Exception as e:
            d, toks = "implementation raised %s: %s" % (type(e).__name__, str(e)[:200]), None
        if d:
            bad[c["kind"]] = bad.get(c["kind"], 0) + 1
            if bad[c["kind"]] <= 2:
                run.fail("%s-mismatch" % c["kind"], "%s output (%s) differs from the model/property: %s" % (c["kind"], c["route"], d), dict(case=desc, first_difference=d, impl_tokens=toks, model_tokens=mo))


def replay(run, payload):
    print("replay:", payload.get("case"))
    return 2
