"""C13 - species filtering equals deleting the unwanted interactions from the file.
(1) filtered views (pair, eam_embed, eam_density, eam_density_fs) of generated models vs `Atsim.filteredView` and vs the specification `deleteByHand`, incl. empty sets and unknown labels;
(2) sequences of creating/reading up to 4 views of ONE parsed file vs the per-view state machine `runPerView` (independence);
(3) end to end: tabulating the filtered view (Python API) and `potable --include-species/--exclude-species` (entry point) vs tabulating the hand-edited file, byte for byte."""
import io

from common import lean_query, fq
import impl
import eamlib

from atsim.potentials.config import ConfigParser, FilteredConfigParser, Configuration

PAIR_TARGETS = ["LAMMPS", "GULP", "DL_POLY"]


def gen_structured(rng):
    """structured model: species, pair entries, embed entries, density entries (std or fs)"""
    kind = rng.choice(["pair", "eam", "fs"])
    pool = rng.sample(["Al", "Cu", "Ni", "Fe", "Ag", "Zr", "Mg", "O", "U", "Gd"], rng.randint(2, 5))
    fid = 0
    pairs, seen = [], set()
    for _ in range(rng.randint(1, 7)):
        a, b = rng.choice(pool), rng.choice(pool)
        if frozenset((a, b)) in seen:
            continue
        seen.add(frozenset((a, b)))
        fid += 1
        pairs.append((a, b, fid))
    embed, dens = [], []
    if kind != "pair":
        metal = [s for s in pool if s in eamlib.BUILTIN]
        for s in rng.sample(metal, rng.randint(1, len(metal))) if metal else []:
            fid += 1
            embed.append((s, fid))
        if kind == "eam":
            for s in rng.sample(metal, rng.randint(1, len(metal))) if metal else []:
                fid += 1
                dens.append((s, fid))
        else:
            done = set()
            for _ in range(rng.randint(1, 6)):
                a, b = rng.choice(metal), rng.choice(metal)
                if (a, b) in done:
                    continue
                done.add((a, b))
                fid += 1
                dens.append((a, b, fid))
    adp = None
    if kind == "eam" and embed and rng.random() < 0.4:
        # an ADP model: dipole and quadrupole entries are pair-like entries too - the hand edit deletes those that name an unwanted species (round-7 seed C13_11)
        els_ = [s_ for s_, _ in embed]
        adp = {"EAM-ADP-Dipole": [], "EAM-ADP-Quadrupole": []}
        for sec_ in adp:
            seen_ = set()
            for _ in range(rng.randint(0, 4)):
                a, b = rng.choice(pool), rng.choice(pool)
                if frozenset((a, b)) in seen_:
                    continue
                seen_.add(frozenset((a, b)))
                fid += 1
                adp[sec_].append((a, b, fid))
    return dict(kind=kind, pool=pool, pairs=pairs, embed=embed, dens=dens, adp=adp)


def render(m, target, keep=None):
    """potable file; `keep` = predicate on a species tuple (the hand edit) or None for the full file"""
    k = keep or (lambda spp: True)
    eam = m["kind"] != "pair"
    t = "[Tabulation]\ntarget : %s\ncutoff : 2.0\nnr : 8\n" % target + ("cutoff_rho : 2.0\nnrho : 4\n" if eam else "") + "\n[Pair]\n"
    for (a, b, f) in m["pairs"]:
        if k((a, b)):
            t += "%s-%s : %s\n" % (a, b, eamlib.poly(f))
    if eam:
        t += "\n[EAM-Embed]\n"
        for (s, f) in m["embed"]:
            if k((s,)):
                t += "%s : %s\n" % (s, eamlib.poly(f))
        t += "\n[EAM-Density]\n"
        for d in m["dens"]:
            if len(d) == 2:
                if k((d[0],)):
                    t += "%s : %s\n" % (d[0], eamlib.poly(d[1]))
            elif k((d[0], d[1])):
                t += "%s->%s : %s\n" % (d[0], d[1], eamlib.poly(d[2]))
        if target == "eam_adp" and m.get("adp"):
            for sec_ in ("EAM-ADP-Dipole", "EAM-ADP-Quadrupole"):
                t += "\n[%s]\n" % sec_
                for (a, b, f) in m["adp"][sec_]:
                    if k((a, b)):
                        t += "%s-%s : %s\n" % (a, b, eamlib.poly(f))
    return t


def keep_pred(exclude, S):
    S = set(S)
    return (lambda spp: all(s not in S for s in spp)) if exclude else (lambda spp: all(s in S for s in spp))


def entries_of(m):
    """all entries with unique ids: (section, species tuple, id)"""
    out = []
    for (a, b, f) in m["pairs"]:
        out.append(("pair", [a, b], f))
    for (s, f) in m["embed"]:
        out.append(("eam_embed", [s], f))
    for d in m["dens"]:
        out.append(("eam_density_fs", [d[0], d[1]], d[2]) if len(d) == 3 else ("eam_density", [d[0]], d[1]))
    return out


def view_ids(view, m):
    """ids (tracer function ids) of the entries each filtered property returns"""
    by = {}
    for (sec, spp, f) in entries_of(m):
        by[(sec, tuple(spp))] = f
    out = []
    for p in view.pair:
        out.append(by[("pair", (p.species.species_a, p.species.species_b))])
    if m["kind"] != "pair":
        for p in view.eam_embed:
            out.append(by[("eam_embed", (p.species,))])
        if m["kind"] == "eam":
            for p in view.eam_density:
                out.append(by[("eam_density", (p.species,))])
        else:
            for p in view.eam_density_fs:
                out.append(by[("eam_density_fs", (p.species.from_species, p.species.to_species))])
    return out


def species_set(rng, m, allow_empty=True):
    pool = m["pool"] + ["Xx", "Unobtainium"]
    r = rng.random()
    if r < 0.12 and allow_empty:
        return []
    if r < 0.22:
        return list(m["pool"])
    return rng.sample(pool, rng.randint(1, len(pool) - 1))


def check(run):
    import genlib
    genlib.validate_logic(run, "check_tuple", n=run.n(200, 3000))
    genlib.validate_cli_species(run, n=run.n(120, 1500))
    run.rule = ("pair / EAM / Finnis-Sinclair models over 2..5 species with 1..7 pair entries; include and exclude sets: empty, partial, full, with unknown labels; "
                "(1) the four filtered lists vs the Lean filter and the by-hand deletion; (2) op sequences creating/reading up to 4 views of one parser; "
                "(3) bytes of the tabulated filtered view (API) and of potable --include/--exclude-species vs bytes of the hand-edited file for LAMMPS, GULP, DL_POLY, setfl, DL_POLY_EAM, "
                "setfl_fs, DL_POLY_EAM_fs; distinct = (model, set, mode, route)")
    run.assumptions += ["wrapt.ObjectProxy attribute forwarding as observed", "on the command line an option given without species means 'no filter' (argparse nargs='*'): the empty include set cannot be "
                        "expressed there and is exercised through the Python API only"]
    rng = run.rng
    models = [gen_structured(rng) for _ in range(run.n(120, 2500))]
    # ---- (1) views -----------------------------------------------------------------------------------------------------------
    reqs, plan = [], []
    for m in models:
        ents = entries_of(m)
        for _ in range(2):
            exclude = rng.random() < 0.5
            S = species_set(rng, m)
            how = rng.choice(["kw", "kw", "default-other"])
            reqs.append(dict(m="filter", op="view", entries=[dict(species=spp, id=f) for (_, spp, f) in ents], **({"exclude": S} if exclude else {"include": S})))
            plan.append((m, exclude, S))
    ans = lean_query(reqs)
    nb = 0
    for (m, exclude, S), a in zip(plan, ans):
        cp = ConfigParser(io.StringIO(render(m, "LAMMPS" if m["kind"] == "pair" else ("setfl" if m["kind"] == "eam" else "setfl_fs"))))
        view = FilteredConfigParser(cp, exclude=S) if exclude else FilteredConfigParser(cp, include=S)
        got = view_ids(view, m)
        run.case(key=("view", str(m), exclude, tuple(S)), kind="view/%s/%s%s" % (m["kind"], "exclude" if exclude else "include", "/empty" if not S else ""),
                 sample=dict(model=m, mode="exclude" if exclude else "include", species=S, kept_ids=got) if run.evaluations < 2 else None)
        run.traces += 1
        if got != a["byhand"]:
            nb += 1
            if nb <= 3:
                key = "filter-empty-exclude-keeps-nothing" if (exclude and not S) else "filter-view-differs-from-deletion"
                run.fail(key, "FilteredConfigParser(%s=%s): entries kept %s, deleting the unwanted entries by hand keeps %s" % ("exclude" if exclude else "include", S, got, a["byhand"]),
                         dict(model=m, mode="exclude" if exclude else "include", species=S, potable_file=render(m, "LAMMPS")))
        elif got != a["view"]:
            run.tie_broken("correspondence", "Atsim.filteredView/modeCurrent vs FilteredConfigParser", "model %s %s %s: impl %s model %s" % (m, exclude, S, got, a["view"]))
    # ---- (2) several views of one parsed file ------------------------------------------------------------------------------------
    reqs, plan = [], []
    for m in models[: run.n(80, 1500)]:
        ops, nviews = [], 0
        for _ in range(rng.randint(3, 8)):
            if nviews == 0 or (nviews < 4 and rng.random() < 0.45):
                ops.append(dict(exclude=rng.random() < 0.5, S=species_set(rng, m, allow_empty=False)))
                nviews += 1
            else:
                ops.append(dict(read=rng.randrange(nviews)))
        ents = entries_of(m)
        reqs.append(dict(m="filter", op="ops", ops=ops, entries=[dict(species=spp, id=f) for (_, spp, f) in ents]))
        plan.append((m, ops))
    ans = lean_query(reqs)
    nb = 0
    for (m, ops), a in zip(plan, ans):
        cp = ConfigParser(io.StringIO(render(m, "LAMMPS" if m["kind"] == "pair" else ("setfl" if m["kind"] == "eam" else "setfl_fs"))))
        views, got = [], []
        for o in ops:
            if "read" in o:
                got.append(view_ids(views[o["read"]], m))
            else:
                views.append(FilteredConfigParser(cp, exclude=o["S"]) if o["exclude"] else FilteredConfigParser(cp, include=o["S"]))
                got.append(None)
        run.case(key=("ops", str(m), str(ops)), kind="view-sequences")
        run.traces += 1
        if got != a:
            nb += 1
            if nb <= 2:
                i = [j for j, (x, y) in enumerate(zip(got, a)) if x != y][0]
                run.fail("filter-views-share-state", "views of one parsed file are not independent: after the operations %s, reading view %d returns %s, its own settings give %s" % (ops[: i + 1], ops[i]["read"], got[i], a[i]),
                         dict(model=m, ops=ops, potable_file=render(m, "LAMMPS")))
    # ---- (3) end to end ---------------------------------------------------------------------------------------------------------
    nb = [0]

    def e2e(m, target, exclude, S, route):
        full = render(m, target)
        edited = render(m, target, keep_pred(exclude, S))
        oc_e, out_e = impl.outcome_of(lambda: impl.config_tabulate(edited))
        if route == "api":
            def go():
                cp = ConfigParser(io.StringIO(full))
                v = FilteredConfigParser(cp, exclude=S) if exclude else FilteredConfigParser(cp, include=S)
                buf = io.StringIO()
                Configuration().read_from_parser(v).write(buf)
                return buf.getvalue()
            oc_f, out_f = impl.outcome_of(go)
        else:
            r = impl.potable_cli(full, args=["--exclude-species" if exclude else "--include-species"] + S)
            oc_f, out_f = ("ok", r["output"]) if r["rc"] == 0 else (("config_error" if "configuration error" in r["stderr"] else "failed:" + r["stderr"][-120:]), None)
        run.case(key=("e2e", full, exclude, tuple(S), route), kind="end-to-end/%s/%s" % (target, route))
        run.traces += 1
        same = (oc_e == oc_f) and (oc_e != "ok" or out_e == out_f)
        if not same:
            nb[0] += 1
            if nb[0] <= 3:
                run.fail("filter-output-differs-from-edited-file", "target %s, %s %s via %s: tabulating with the filter gives %s, tabulating the hand-edited file gives %s" % (
                    target, "--exclude-species" if exclude else "--include-species", S, route, oc_f if oc_f != "ok" else "%d bytes" % len(out_f), oc_e if oc_e != "ok" else "%d bytes" % len(out_e)),
                    dict(potable_file=full, hand_edited_file=edited, mode="exclude" if exclude else "include", species=S, route=route))

    def targets_of(m):
        if m["kind"] == "eam" and m.get("adp"):
            return ["eam_adp"]
        return PAIR_TARGETS if m["kind"] == "pair" else (["setfl", "DL_POLY_EAM"] if m["kind"] == "eam" else ["setfl_fs", "DL_POLY_EAM_fs"])
    for m in models[: run.n(60, 1000)]:
        e2e(m, rng.choice(targets_of(m)), rng.random() < 0.5, species_set(rng, m, allow_empty=False), rng.choice(["api", "cli"]))
    # the empty set, both modes, both routes: `--include-species` with no label keeps nothing, `--exclude-species` with no label removes nothing
    for m in models[: run.n(6, 60)]:
        for exclude in (False, True):
            for route in ("api", "cli"):
                e2e(m, rng.choice(targets_of(m)), exclude, [], route)
    # several views of ONE parsed file tabulated one after the other (seed C13_6: rows cached per parser object - wrapt proxies hash and compare like the wrapped
    # parser, so a cache keyed on "the parser" is shared by every view): each view's table must be the table of ITS hand-edited file, whatever was tabulated before
    nseq = 0
    for m in models[: run.n(60, 600)]:
        target = rng.choice(targets_of(m))
        full = render(m, target)
        cp = ConfigParser(io.StringIO(full))
        filters = [(rng.random() < 0.5, species_set(rng, m, allow_empty=False)) for _ in range(rng.randint(2, 4))] + [(True, [])]
        # every other sequence goes through ONE Configuration object (round-9 seed C13_12: tabulations cached on the Configuration, keyed by the parser - and a view
        # hashes like the parser it wraps): the object may be used for any number of views
        shared = Configuration() if rng.random() < 0.5 else None
        for step, (exclude, S) in enumerate(filters):
            edited = render(m, target, keep_pred(exclude, S))
            oc_e, out_e = impl.outcome_of(lambda: impl.config_tabulate(edited))

            def go():
                v = FilteredConfigParser(cp, exclude=S) if exclude else FilteredConfigParser(cp, include=S)
                buf = io.StringIO()
                (shared or Configuration()).read_from_parser(v).write(buf)
                return buf.getvalue()
            oc_f, out_f = impl.outcome_of(go)
            run.case(key=("e2e-seq", full, step, exclude, tuple(S), shared is not None), kind="end-to-end-view-sequence/%s%s" % (target, "/one-Configuration" if shared else ""))
            run.traces += 1
            if not ((oc_e == oc_f) and (oc_e != "ok" or out_e == out_f)):
                nseq += 1
                if nseq <= 2:
                    run.fail("filter-views-share-state", "target %s: view %d of one parsed file (%s %s, after tabulating the views %s) tabulates to %s, its hand-edited file to %s" % (
                        target, step + 1, "exclude" if exclude else "include", S, [("exclude" if e else "include", x) for e, x in filters[:step]],
                        oc_f if oc_f != "ok" else "%d bytes" % len(out_f), oc_e if oc_e != "ok" else "%d bytes" % len(out_e)),
                        dict(potable_file=full, hand_edited_file=edited, views_in_order=[("exclude" if e else "include", x) for e, x in filters[: step + 1]]))
                break
    # species sets made ONLY of labels that occur nowhere in the file, and sets mixing one known with unknown labels: both modes, both routes, every model kind
    seen_kinds = set()
    for m in models:
        if m["kind"] in seen_kinds:
            continue
        seen_kinds.add(m["kind"])
        known = sorted(set(x for e in m.get("pairs", []) for x in (e[0], e[1]) if isinstance(x, str)))[:1]
        for S in (["Pu"], ["Pu", "Np"], known + ["Pu"]):
            if not S:
                continue
            for exclude in (False, True):
                for route in ("api", "cli"):
                    e2e(m, targets_of(m)[0], exclude, S, route)


def replay(run, payload):
    print("replay:", payload.get("case"))
    return 2
