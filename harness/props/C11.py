"""C11 - two of nr/dr/cutoff fix the grid.  (1) decision table of _TabulationCutoff against `Atsim.initCutoff`,
(2) decimal-lattice sweep of commensurate (dr, cutoff) pairs, bit for bit against `Atsim.rowsSnap` on the same doubles,
(3) defaults, (4) row counts of the tables actually written for every text target."""
import io
import math
from fractions import Fraction as Fr

from common import lean_query
import impl

from atsim.potentials.config import ConfigParser, Configuration
from atsim.potentials.config._common import ConfigurationException

STEPS = ["0.0001", "0.0002", "0.00025", "0.0005", "0.001", "0.002", "0.0025", "0.004", "0.005", "0.008", "0.01", "0.0125", "0.02", "0.025",
         "0.03", "0.04", "0.05", "0.07", "0.1", "0.125", "0.15", "0.2", "0.25", "0.3", "0.4", "0.5"]


def me(x):
    """double -> exact (integer mantissa, binary exponent)"""
    if x == 0:
        return [0, 0]
    m, e = math.frexp(x)
    return [int(m * 2 ** 53), e - 53]


def from_me(p):
    return math.ldexp(p[0], p[1])


def parse_tab(cfg, rho=False):
    """-> ('ok', nr, cutoff) | ('config_error',) | ('internal:X',)"""
    try:
        t = ConfigParser(io.StringIO(cfg)).tabulation
        return ("ok", t.nrho, t.cutoff_rho) if rho else ("ok", t.nr, t.cutoff)
    except ConfigurationException:
        return ("config_error",)
    except Exception as e:
        return ("internal:" + type(e).__name__,)


def tab_cfg(nr, dr, cutoff, rho=False):
    names = ("nrho", "drho", "cutoff_rho") if rho else ("nr", "dr", "cutoff")
    t = "[Tabulation]\ntarget : setfl\n"
    for n, v in zip(names, (nr, dr, cutoff)):
        if v is not None:
            t += "%s : %s\n" % (n, v)
    return t


def spec_outcome(nr, dr, cutoff):
    """the property's decision table on decimal strings (exact arithmetic)"""
    vals = [None if v is None else Fr(v) for v in (nr, dr, cutoff)]
    if any(v is not None and v <= 0 for v in vals):
        return ("config_error",)
    n, d, c = vals
    if n is not None and n < 2:
        return ("config_error",)
    if n is not None and d is not None and c is not None:
        return ("config_error",)
    if d is not None and n is None and c is None:
        return ("config_error",)
    if n is not None and d is not None:
        c = (n - 1) * d
        return ("config_error",) if c <= 0 else ("ok", int(n), c)
    if c is not None and d is not None:
        q = c / d
        return ("ok", (int(q) + 1) if q.denominator == 1 else None, c)
    return ("ok", None if n is None else int(n), c)


def check(run):
    import genlib
    genlib.validate_create_tabulation(run, n=run.n(60, 600))
    run.rule = ("(1) all 6x4x4 presence/sign patterns of (nr, dr, cutoff) for both grids; (2) commensurate decimal pairs: steps %d values 1e-4..0.5 as decimal strings x k "
                "(quick: random k in 1..20000 + all k <= 40; thorough: every k <= 20000) for both grids, implementation vs Lean Float model on the same doubles (exact integer "
                "comparison) and vs k+1; (3) defaults; (4) row counts of written tables for all text targets" % len(STEPS))
    run.assumptions += ["Python float(str) is correctly rounded decimal->binary64; Lean Float ops / toUInt64 / round are IEEE binary64 (same libm-free operations)",
                        "nr = 1 (a one-point grid, C16's malformed-input case) is refused by _check_positive: part of the decision table and of the model (tooFewRows)"]
    rng = run.rng
    # ---- (1) decision table ---------------------------------------------------------------------------------------------
    nrs = [None, "-3", "0", "1", "5", "12"]     # "1": a one-row grid cannot define a step - a configuration error since fix bb1d37e (model: CutErr.tooFewRows)
    drs = [None, "-0.5", "0.0", "0.5"]
    cuts = [None, "-2.0", "0.0", "2.0"]
    reqs, meta = [], []
    for rho in (False, True):
        for n in nrs:
            for d in drs:
                for c in cuts:
                    r = dict(m="cutoff", op="init")
                    if n is not None:
                        r["nr"] = int(n)
                    if d is not None:
                        r["dr"] = me(float(d))
                    if c is not None:
                        r["cutoff"] = me(float(c))
                    reqs.append(r)
                    meta.append((rho, n, d, c))
    models = lean_query(reqs)
    for (rho, n, d, c), mo in zip(meta, models):
        got = parse_tab(tab_cfg(n, d, c, rho), rho)
        spec = spec_outcome(n, d, c)
        run.traces += 1
        run.case(key=("table", rho, n, d, c), kind="decision-table/" + spec[0])
        names = "(nrho,drho,cutoff_rho)" if rho else "(nr,dr,cutoff)"
        desc = dict(keys=names, nr=n, dr=d, cutoff=c, potable_tabulation_section=tab_cfg(n, d, c, rho))
        mo_t = ("config_error",) if "err" in mo else ("ok", mo["nr"], None if mo["cutoff"] is None else from_me(mo["cutoff"]))
        ok_spec = (got[0] == spec[0]) and (got[0] != "ok" or ((spec[1] is None or got[1] == spec[1]) and (spec[2] is None and got[2] is None or (spec[2] is not None and got[2] is not None and abs(got[2] - float(spec[2])) <= 1e-12 * abs(float(spec[2]))))))
        if not ok_spec:
            zero = any(v is not None and Fr(v) == 0 for v in (n, d, c))
            key = "tabulation-zero-value-truthiness" if (zero and got[0] == "ok") else "tabulation-decision-table"
            run.fail(key, "%s = (%s, %s, %s): outcome %s, documented outcome %s" % (names, n, d, c, got, spec), dict(case=desc, observed=got, expected=spec))
        elif got != mo_t and not (got[0] == "ok" and mo_t[0] == "ok" and got[1] == mo_t[1] and (got[2] == mo_t[2])):
            run.tie_broken("correspondence", "Atsim.initCutoff vs _TabulationCutoff._init_cutoff", "%s: impl %s model %s" % (desc, got, mo_t))
    # ---- (2) sweep ------------------------------------------------------------------------------------------------------
    pairs = []
    if run.quick:
        for s in STEPS:
            for k in list(range(1, 41)) + [rng.randint(41, 20000) for _ in range(60)]:
                pairs.append((s, k))
        pairs.append(("0.001", 43))
    else:
        for s in STEPS:
            for k in range(1, 20001):
                pairs.append((s, k))
    sweep_reqs = []
    for (s, k) in pairs:
        cs = impl.decimal_str(Fr(s) * k)
        sweep_reqs.append((s, k, cs, float(cs), float(s)))
    ans = []
    CH = 40000
    for i in range(0, len(sweep_reqs), CH):
        ans += lean_query([dict(m="cutoff", op="rows", pairs=[[me(c), me(d)] for (_, _, _, c, d) in sweep_reqs[i:i + CH]])])[0]
    lost = mismatch = 0
    would_lose = 0
    for j, ((s, k, cs, c, d), (trunc, snap)) in enumerate(zip(sweep_reqs, ans)):
        rho = (j % 2 == 1)
        got = parse_tab(tab_cfg(None, s, cs, rho), rho)
        run.traces += 1
        run.case(key=("sweep", s, k, rho), kind="sweep")
        if trunc != k + 1:
            would_lose += 1
        if got[0] != "ok":
            run.fail("tabulation-decision-table", "cutoff %s with step %s rejected: %s" % (cs, s, got), dict(dr=s, cutoff=cs, k=k))
            continue
        if got[1] != k + 1 or abs(got[2] - c) > 0:
            lost += 1
            if lost <= 3:
                run.fail("cutoff-step-row-count", "%s = %s, %s = %s (k = %d whole steps): %d rows instead of k+1 = %d" % (
                    "drho" if rho else "dr", s, "cutoff_rho" if rho else "cutoff", cs, k, got[1], k + 1),
                    dict(dr=s, cutoff=cs, k=k, rows=got[1], grid="rho" if rho else "r", potable_tabulation_section=tab_cfg(None, s, cs, rho)))
        if got[1] != snap:
            mismatch += 1
            if mismatch <= 3:
                run.tie_broken("correspondence", "Atsim.rowsSnap vs _TabulationCutoff (cutoff & dr branch)", "dr=%s cutoff=%s impl nr=%s model rowsSnap=%s (rowsTrunc=%s)" % (s, cs, got[1], snap, trunc))
    run.extra["sweep_pairs"] = len(pairs)
    run.extra["pairs_where_plain_truncation_would_lose_a_row"] = would_lose
    run.exhaustive = not run.quick
    # ---- (3) defaults ----------------------------------------------------------------------------------------------------
    base = "[EAM-Embed]\nAl : as.zero\n[EAM-Density]\nAl : as.zero\n[Pair]\nAl-Al : as.zero\n"
    for tsec, exp in [("[Tabulation]\ntarget : setfl\n", (10.0, 1001, 100.0, 1001)), ("[Tabulation]\ntarget : setfl\nnr : 7\n", (10.0, 7, 100.0, 1001)),
                      ("[Tabulation]\ntarget : setfl\ncutoff : 3.5\nnrho : 9\n", (3.5, 1001, 100.0, 9)), ("[Tabulation]\ntarget : setfl\ncutoff_rho : 50.0\n", (10.0, 1001, 50.0, 1001)),
                      ("", (10.0, 1001, None, None))]:
        try:
            tab = Configuration().read(io.StringIO(tsec + base))
            got = (tab.cutoff, tab.nr, getattr(tab, "cutoff_rho", None), getattr(tab, "nrho", None))
        except Exception as e:
            got = ("raised", type(e).__name__)
        run.case(key=("defaults", tsec), kind="defaults")
        if got != exp:
            run.fail("tabulation-defaults", "defaults: [Tabulation] %r gives (cutoff, nr, cutoff_rho, nrho) = %s, documented %s" % (tsec, got, exp), dict(tabulation_section=tsec))
    # ---- (4) the table written has exactly that many rows ------------------------------------------------------------------
    rows_written(run)


def rows_written(run):
    from tracers import lammps_blocks_raw, dlpoly_raw
    import eamlib
    rng = run.rng
    combos = []
    for _ in range(run.n(12, 150)):
        s = rng.choice(STEPS[8:])
        k = 4 * rng.randint(1, 30) - 1          # k+1 divisible by 4 so that DL_POLY accepts it too
        combos.append((s, k))
    combos.append(("0.001", 43))
    # two interactions per model: EVERY block of the table must have the rows (a grid object consumed by the first block would starve the others)
    pair_body = "[Pair]\nA-B : as.buck 1000.0 0.3 10.0\nB-B : as.buck 500.0 0.25 0.0\n"
    eam_body = "[EAM-Embed]\nAl : as.sqrt 1.0\n[EAM-Density]\nAl : as.bornmayer 10.0 0.5\n[Pair]\nAl-Al : as.buck 1000.0 0.3 10.0\n"
    fs_body = "[EAM-Embed]\nAl : as.sqrt 1.0\n[EAM-Density]\nAl->Al : as.bornmayer 10.0 0.5\n[Pair]\nAl-Al : as.buck 1000.0 0.3 10.0\n"
    for (s, k) in combos:
        cs = impl.decimal_str(Fr(s) * k)
        want = k + 1
        s2 = rng.choice(STEPS[8:])              # the density grid gets its own step and row count
        k2 = rng.choice([kk for kk in range(3, 60) if kk != k])
        cs2 = impl.decimal_str(Fr(s2) * k2)
        for target in ["LAMMPS", "DL_POLY", "GULP", "excel", "setfl", "setfl_fs", "DL_POLY_EAM", "DL_POLY_EAM_fs", "eam_adp", "excel_eam", "excel_eam_fs"]:
            eam = target not in ("LAMMPS", "DL_POLY", "GULP", "excel")
            if target.startswith("excel") and want > 200 and not (s == "0.001" and k == 43):
                continue                        # (workbooks are slow to build; large row counts are covered by the text targets)
            tsec = "[Tabulation]\ntarget : %s\ndr : %s\ncutoff : %s\n" % (target, s, cs)
            if eam:
                tsec += "drho : %s\ncutoff_rho : %s\n" % (s2, cs2)
            body = pair_body if not eam else (fs_body if target.endswith("_fs") else eam_body)
            if target == "eam_adp":
                body += "[EAM-ADP-Dipole]\nAl-Al : as.zero\n[EAM-ADP-Quadrupole]\nAl-Al : as.zero\n"
            try:
                out = impl.config_tabulate(tsec + body, binary=target.startswith("excel"))
            except Exception as e:
                from atsim.potentials.config._common import ConfigurationException
                if target == "DL_POLY" and want == 4 and isinstance(e, ConfigurationException):
                    continue        # a DL_POLY TABLE of four rows cannot exist (its increment is cutoff/(rows-4)): refused as a configuration error (C16)
                run.fail("dlpoly-four-rows" if (target == "DL_POLY" and want == 4) else "rows-written", "target %s dr %s cutoff %s: %s %s" % (target, s, cs, type(e).__name__, str(e)[:200]), dict(potable_file=tsec + body))
                continue
            run.case(key=("rows", target, s, k), kind="rows/" + target)
            run.traces += 1
            if target == "LAMMPS":
                bs = lammps_blocks_raw(out)
                counts = dict(blocks=len(bs), rows=min(len(b[4]) for b in bs) + 1, rows_max=max(len(b[4]) for b in bs) + 1, header=bs[0][1] + 1, last=float(bs[-1][4][-1][1]))
            elif target == "DL_POLY":
                delpot, cutpot, ngrid, blocks = dlpoly_raw(out)
                per = [sum(len(r) for r in blk[2]) // 2 for blk in blocks]
                counts = dict(blocks=len(blocks), rows=min(per), rows_max=max(per), header=ngrid, last=float(cutpot))
            elif target == "GULP":
                per, lastsep, hdr = [], None, False
                for l in out.split("\n"):
                    if l.startswith("spline"):
                        per.append(0)
                        hdr = True
                    elif hdr:
                        hdr = False          # 'A B cutoff' line of the block
                    elif l.strip() and per:
                        per[-1] += 1
                        lastsep = float(l.split()[1])
                counts = dict(blocks=len(per), rows=min(per), rows_max=max(per), header=want, last=lastsep if lastsep is not None else float("nan"))
            elif target.startswith("excel"):
                sheets = dict((sh["name"], sh) for sh in eamlib.excel_tokens_raw(out))
                pr = sheets["Pair"]["rows"]
                counts = dict(blocks=2 if not eam else 1, rows=len(pr), rows_max=len(pr), header=want, last=float(pr[-1][0]) if pr else float("nan"))
                if eam:
                    er, dr_ = sheets["EAM-Embed"]["rows"], sheets["EAM-Density"]["rows"]
                    counts.update(rho_rows=len(er), rho_header=k2 + 1, rho_last=float(er[-1][0]) if er else float("nan"))
                    if len(dr_) != want or abs(float(dr_[-1][0]) - float(cs)) > 1e-6 * float(cs):
                        counts["rows"] = len(dr_)
                        counts["last"] = float(dr_[-1][0]) if dr_ else float("nan")
            elif target in ("setfl", "setfl_fs", "eam_adp"):
                t = eamlib.setfl_tokens(out, fs=target == "setfl_fs", adp=target == "eam_adp")
                counts = dict(blocks=1, rows=len(t["elements"][0]["dens"][0]), rows_max=len(t["elements"][0]["dens"][0]), header=t["nr"], rho_rows=len(t["elements"][0]["embed"]), rho_header=t["nrho"],
                              last=float((t["nr"] - 1) * Fr(t["dr"])), rho_last=float((t["nrho"] - 1) * Fr(t["drho"])))
            else:
                t = eamlib.tabeam_tokens(out)
                pb = [b for b in t["blocks"] if b["kw"] == "pair"][0]
                eb = [b for b in t["blocks"] if b["kw"] == "embe"][0]
                counts = dict(blocks=1, rows=sum(len(r) for r in pb["rows"]), rows_max=sum(len(r) for r in pb["rows"]), header=pb["n"], rho_rows=sum(len(r) for r in eb["rows"]), rho_header=eb["n"], last=float(Fr(pb["hi"])), rho_last=float(Fr(eb["hi"])))
            if counts["blocks"] != (2 if not eam else 1):
                counts["rows"] = -1
            bad = [kk for kk in ("rows", "rows_max", "header") if kk in counts and counts[kk] != want]
            bad += [kk for kk in ("rho_rows", "rho_header") if kk in counts and counts[kk] != k2 + 1]
            if "rho_last" in counts and abs(counts["rho_last"] - float(cs2)) > 1e-6 * float(cs2):
                bad.append("rho_last")
            if bad or abs(counts["last"] - float(cs)) > 1e-6 * float(cs):
                run.fail("rows-written" if want == spec_rows(s, cs) else "cutoff-step-row-count",
                         "target %s, dr %s, cutoff %s, drho %s, cutoff_rho %s: table has %s, expected %d rows ending at the cutoff (%d density rows ending at cutoff_rho)" % (target, s, cs, s2, cs2, counts, want, k2 + 1), dict(potable_file=tsec + body))
    after_failed_write(run)


def after_failed_write(run):
    """A tabulation object whose first write() failed part-way (a formula leaving its domain) is written again: whatever it then emits must be the whole
    grid - exactly nr rows ending at the cutoff - or nothing (seed C11_6: a half-filled workbook kept from the failed attempt was saved with fewer rows)."""
    from atsim.potentials.config import Configuration
    from tracers import lammps_blocks_raw, dlpoly_raw
    import eamlib
    rng = run.rng
    for target in ["excel", "LAMMPS", "GULP", "DL_POLY"]:
        for _ in range(run.n(2, 10)):
            k = 4 * rng.randint(3, 12) - 1 if target == "DL_POLY" else rng.randint(6, 40)
            step = rng.choice(["0.25", "0.1", "0.05"])
            cs = impl.decimal_str(Fr(step) * k)
            edge = impl.decimal_str(Fr(step) * rng.randint(2, k - 1))
            cfg = ("[Tabulation]\ntarget : %s\ndr : %s\ncutoff : %s\n[Potential-Form]\nedge(r, m) = pymath.sqrt(m - r)\n[Pair]\nA-B : as.buck 1000.0 0.3 10.0\nB-B : edge %s\n" % (target, step, cs, edge))
            binary = target == "excel"
            tab = Configuration().read(io.StringIO(cfg))
            outs = []
            for attempt in range(3):
                buf = io.BytesIO() if binary else io.StringIO()
                try:
                    tab.write(buf)
                    outs.append(buf.getvalue())
                except Exception:
                    outs.append(None)
            run.case(key=("after-failed-write", target, step, k, edge), kind="rows-after-failed-write/" + target)
            run.traces += 1
            if outs[0] is not None:
                continue        # (the evaluation did not fail: nothing to learn here)
            for attempt, o in enumerate(outs[1:], start=2):
                if o is None or len(o) == 0:
                    continue
                if binary:
                    rows = len(dict((sh["name"], sh) for sh in eamlib.excel_tokens_raw(o))["Pair"]["rows"])
                elif target == "LAMMPS":
                    rows = min(len(b[4]) for b in lammps_blocks_raw(o)) + 1
                elif target == "GULP":
                    rows = min(len([l for l in blk.split("\n")[2:] if l.strip()]) for blk in o.split("spline")[1:])
                else:
                    rows = min(sum(len(r) for r in blk[2]) // 2 for blk in dlpoly_raw(o)[3])
                if rows != k + 1:
                    run.fail("rows-written", "target %s, dr %s, cutoff %s: write() attempt %d on a tabulation whose first write() failed emitted a table with %d rows, expected %d (or nothing)" % (
                        target, step, cs, attempt, rows, k + 1), dict(potable_file=cfg, attempt=attempt))
                    break


def spec_rows(s, cs):
    return int(Fr(cs) / Fr(s)) + 1


def replay(run, payload):
    c = payload.get("case", {})
    print("replay:", c)
    return 2
