"""C09 - potable model language.
(A) parse trees of generated definitions: real pyparsing grammar + _descend_tree vs `Atsim.parseDefinition` (token level), with formatting variants
    (whitespace, line continuation, '=' / ':') and entry-order permutations on the real parser (metamorphic);
(B) modifiers: potable text vs the same expression composed through the Python API (values, 1e-12) - sum, product, pow, trans, spline, multi-range, nested;
(C) custom formulas: generated ACYCLIC form sets in exact (dyadic) arithmetic, interleaved evaluation sequences, real cexprtk evaluation vs the
    stateful model `evalS` and vs positional substitution `evalP`; the cyclic witness (recorded finding);
(D) pymath.* functions against Python's math module."""
import io
import math
from fractions import Fraction as Fr

from common import lean_query, fq
import impl
from formlib import close
from props.C07 import gen_expr, potable_callable

from atsim.potentials.config import ConfigParser, Configuration

FORMS = [("as.buck", 3), ("as.zero", 0), ("as.constant", 1), ("as.morse", 3), ("as.bornmayer", 2), ("as.polynomial", None), ("as.lj", 2), ("myform", 2)]
MODS = ["sum", "product", "pow", "trans", "spline", "mymod"]
NUMS = ["0", "1", "2.5", "-1.75", "0.125", "3", "1000.0", "1e2", "-0.5", "12", ".5", "7."]


def gen_piece(rng, depth):
    if depth > 0 and rng.random() < 0.35:
        return dict(modifier=rng.choice(MODS), args=[gen_multi(rng, depth - 1, nested=True) for _ in range(rng.randint(1, 3))])
    lab, n = rng.choice(FORMS)
    k = n if n is not None else rng.randint(0, 4)
    if rng.random() < 0.15:
        k = rng.randint(0, 4)
    return dict(form=lab, params=[rng.choice(NUMS) for _ in range(k)])


def gen_multi(rng, depth, nested=False):
    n = rng.choice([1, 1, 1, 2, 3])
    out = []
    start = 0.0
    for i in range(n):
        p = gen_piece(rng, depth)
        if i == 0 and rng.random() < 0.6:
            p["start"] = None                     # no leading marker
        else:
            start += rng.choice([0.5, 1.0, 1.25, 2.0])
            p["start"] = (rng.choice([">", ">="]), repr(start) if rng.random() < 0.7 else str(int(start * 4)) )
        out.append(p)
    return out


def tokens(multi):
    t = []
    for p in multi:
        if p["start"] is not None:
            t.append("ge" if p["start"][0] == ">=" else "gt")
            t.append(["num", p["start"][1]])
        if "form" in p:
            t.append(["id", p["form"]])
            t += [["num", x] for x in p["params"]]
        else:
            t += [["id", p["modifier"]], "("]
            for i, a in enumerate(p["args"]):
                if i:
                    t.append(",")
                t += tokens(a)
            t.append(")")
    return t


def render(toks, rng, style):
    """text of a token list; style 0 = single spaces, otherwise random layout (extra blanks, tabs, continuation lines)"""
    out = ""
    prev = None
    for tk in toks:
        s = {"ge": ">=", "gt": ">", "(": "(", ")": ")", ",": ","}.get(tk) if isinstance(tk, str) else tk[1]
        need_space = prev is not None and not isinstance(prev, str) and not isinstance(tk, str)
        if style == 0:
            sep = " " if prev is not None and (need_space or tk not in ("(", ")", ",")) and prev != "(" else ""
            if isinstance(prev, str) and prev in ("ge", "gt"):
                sep = ""
        else:
            choices = ["", " ", "  ", "\t", " \n   ", "\n\t"] if not need_space else [" ", "  ", "\t", " \n   ", "\n  "]
            if isinstance(prev, str) and prev in ("ge", "gt"):
                choices = ["", " "]
            sep = rng.choice(choices) if prev is not None else ""
        out += sep + s
        prev = tk
    return out


def lean_toks(toks):
    return [t if isinstance(t, str) else ([t[0], fq(Fr(t[1]))] if t[0] == "num" else t) for t in toks]


def canon_real(inst):
    """PotentialFormInstanceTuple / PotentialModifierTuple chain -> canonical list"""
    out = []
    while inst is not None:
        st = [inst.start.range_type, float(inst.start.start)]
        if hasattr(inst, "modifier"):
            out.append(dict(modifier=inst.modifier, args=[canon_real(a) for a in inst.potential_forms], start=st))
        else:
            out.append(dict(form=inst.potential_form, params=[float(x) for x in inst.parameters], start=st))
        inst = inst.next
    return out


def canon_lean(m):
    if m is None:
        return None
    out = []
    for p in m:
        st = [p["start"][0], float(Fr(p["start"][1]))]
        if "modifier" in p:
            out.append(dict(modifier=p["modifier"], args=[canon_lean(a) for a in p["args"]], start=st))
        else:
            out.append(dict(form=p["form"], params=[float(Fr(x)) for x in p["params"]], start=st))
    return out


def real_parse(text, delim=":"):
    cfg = "[Pair]\nA-B %s %s\n" % (delim, text)
    try:
        cp = ConfigParser(io.StringIO(cfg))
        return canon_real(cp.pair[0].potential_form_instance)
    except Exception as e:
        return "error:" + type(e).__name__


# ---------------------------------------------------------------------------------------------------------------------
# custom formulas in exact arithmetic
LITS = ["0.5", "1", "2", "0.25", "3", "1.5", "4"]


def gen_ex(rng, depth, nparams, lower_forms, arities):
    if depth == 0 or rng.random() < 0.3:
        if rng.random() < 0.6:
            return ["var", rng.randrange(nparams)]
        return ["lit", rng.choice(LITS)]
    k = rng.choice(["add", "sub", "mul", "div2", "ite", "call", "call"] if lower_forms else ["add", "sub", "mul", "div2", "ite"])
    if k in ("add", "sub", "mul"):
        return [k, gen_ex(rng, depth - 1, nparams, lower_forms, arities), gen_ex(rng, depth - 1, nparams, lower_forms, arities)]
    if k == "div2":
        return ["div", gen_ex(rng, depth - 1, nparams, lower_forms, arities), ["lit", rng.choice(["2", "4", "0.5"])]]
    if k == "ite":
        return ["ite"] + [gen_ex(rng, depth - 1, nparams, lower_forms, arities) for _ in range(4)]
    f = rng.choice(lower_forms)
    return ["call", f, [gen_ex(rng, depth - 1, nparams, lower_forms, arities) for _ in range(arities[f])]]


def ex_text(e, names, fnames):
    k = e[0]
    if k == "lit":
        return e[1]
    if k == "var":
        return names[e[1]]
    if k in ("add", "sub", "mul", "div"):
        return "(%s %s %s)" % (ex_text(e[1], names, fnames), {"add": "+", "sub": "-", "mul": "*", "div": "/"}[k], ex_text(e[2], names, fnames))
    if k == "ite":
        return "if(%s > %s, %s, %s)" % tuple(ex_text(x, names, fnames) for x in e[1:])
    # (a blank, a tab or nothing between the name and its bracket: the formula language does not care - chosen from the call's own content, so the text is reproducible)
    gap = ["", "", " ", "\t", "  "][(len(e[2]) + e[1] + len(str(e[2]))) % 5]
    return "%s%s(%s)" % (fnames[e[1]], gap, ", ".join(ex_text(a, names, fnames) for a in e[2]))


def ex_lean(e):
    if e[0] == "lit":
        return ["lit", fq(Fr(e[1]))]
    if e[0] == "var":
        return e
    if e[0] == "call":
        return ["call", e[1], [ex_lean(a) for a in e[2]]]
    return [e[0]] + [ex_lean(x) for x in e[1:]]


def gen_formset(rng):
    n = rng.randint(1, 4)
    arities = [rng.randint(1, 3) for _ in range(n)]           # number of names in the signature, r included
    bodies = []
    for k in range(n):
        bodies.append(gen_ex(rng, rng.randint(1, 3), arities[k], list(range(k)), arities))
    order = list(range(n))
    rng.shuffle(order)                                         # entry order in the file is independent of the call order
    return dict(arities=arities, bodies=bodies, file_order=order)


def formset_cfg(fs, pairs):
    fnames = ["frm%d" % k for k in range(len(fs["bodies"]))]
    sig = lambda k: ["r"] + ["p%d" % i for i in range(1, fs["arities"][k])]  # noqa: E731
    t = "[Tabulation]\ntarget : LAMMPS\ncutoff : 4.0\nnr : 9\n[Potential-Form]\n"
    for k in fs["file_order"]:
        t += "%s(%s) = %s\n" % (fnames[k], ",".join(sig(k)), ex_text(fs["bodies"][k], sig(k), fnames))
    t += "[Pair]\n"
    for (label, k, ps) in pairs:
        t += "%s : >=0 %s %s\n" % (label, fnames[k], " ".join(ps))
    return t


def check(run):
    run.rule = ("(A) 1..3-range definitions with modifiers nested to depth 3 over known/unknown labels and 12 number spellings, each rendered in 6 layouts (blanks, tabs, continuation lines, '=' or ':'); "
                "(B) random expressions (depth <= 3) as potable text vs Python-API composition at 6 separations; (C) acyclic custom form sets (1..4 forms, calls with computed arguments, if()), "
                "3 potentials each, interleaved evaluation orders, exact comparison with the stateful and the positional model; cyclic witness; (D) pymath functions; "
                "distinct = (definition text | expression | form set)")
    run.assumptions += ["character-level tokenisation is pyparsing's; the Lean parser works on the token list produced by this harness' renderer",
                        "exprtk evaluation order and number parsing are trusted as observed; formulas are generated in exact dyadic arithmetic so that values compare exactly"]
    import genlib
    genlib.validate_modifiers(run, n=run.n(60, 600))
    genlib.validate_register_each_other(run, n=run.n(12, 80))
    genlib.validate_trans_modifier(run, n=run.n(60, 600))
    rng = run.rng
    # ---- (A) parse trees ---------------------------------------------------------------------------------------------------
    defs = [gen_multi(rng, rng.randint(0, 3)) for _ in range(run.n(250, 5000))]
    toks = [tokens(d) for d in defs]
    models = lean_query([dict(m="lang", op="parse", toks=lean_toks(t)) for t in toks])
    nbad = 0
    for d, t, mo in zip(defs, toks, models):
        want = canon_lean(mo)
        base = render(t, rng, 0)
        got = real_parse(base)
        run.case(key=("tree", base), kind="parse-tree", sample=dict(definition=base, tree=want) if run.evaluations in (1, 7) else None)
        run.traces += 1
        if got != want:
            nbad += 1
            if nbad <= 3:
                run.tie_broken("correspondence", "Atsim.parseDefinition vs pyparsing grammar + _descend_tree", "definition %r: real %s model %s" % (base, got, want))
            continue
        for v in range(5):
            txt = render(t, rng, 1 + v)
            delim = "=" if v % 2 else ":"
            g2 = real_parse(txt, delim)
            run.case(key=("layout", txt, delim), kind="layout-variant")
            if g2 != got:
                run.fail("definition-layout", "the same definition parses differently when laid out as %r (delimiter %r): %s vs %s" % (txt, delim, g2, got), dict(base=base, variant=txt, delimiter=delim))
                break
    # ---- (B0) modifiers whose arguments are written identically: every argument counts (product(f, f) squares f) ----------------------------
    import atsim.potentials as _ap
    from atsim.potentials import potentialforms as _pfo
    same = [("product(as.constant 2.0, as.constant 2.0, as.constant 4.0)", lambda r: 16.0),
            ("sum(as.buck 1000.0 0.3 32.0, as.buck 1000.0 0.3 32.0)", lambda r: 2.0 * _pfo.buck(1000.0, 0.3, 32.0)(r)),
            ("product(as.bornmayer 800.0 0.3, as.bornmayer 800.0 0.3)", lambda r: _pfo.bornmayer(800.0, 0.3)(r) ** 2),
            ("pow(as.constant 2.0, as.constant 2.0)", lambda r: 4.0),
            ("sum(as.constant 1.0, product(as.polynomial 0.0 1.0, as.polynomial 0.0 1.0), as.constant 1.0)", lambda r: 2.0 + r * r),
            ("sum(>=0 as.lj 0.1 2.5 >=2.0 as.zero, >=0 as.lj 0.1 2.5 >=2.0 as.zero)", lambda r: 0.0 if r >= 2.0 else 2.0 * _pfo.lj(0.1, 2.5)(r))]
    for txt, ref in same:
        run.case(key=("identical-arguments", txt), kind="api-equivalence/identical-arguments")
        run.traces += 1
        try:
            g = potable_callable(txt)
            bad = next(((r, g(r), ref(r)) for r in (0.5, 1.25, 1.75, 3.0) if not close(g(r), ref(r), 1e-12, 1e-12)), None)
        except Exception as e:
            run.fail("potable-rejects-valid", "well-formed definition refused: %s: %s" % (type(e).__name__, str(e)[:200]), dict(definition=txt))
            continue
        if bad:
            run.fail("modifier-meaning", "%s evaluates to %r at r=%r; every argument counted, the definition denotes %r" % (txt, bad[1], bad[0], bad[2]), dict(definition=txt, r=bad[0]))
    # ---- (B) modifiers: potable text vs Python API ---------------------------------------------------------------------------
    nb = 0
    for i in range(run.n(150, 3000)):
        f, txt, desc, bounds = gen_expr(rng, rng.randint(1, 3))
        if txt is None:
            continue
        try:
            g = potable_callable(txt)
        except Exception as e:
            run.fail("potable-rejects-valid", "well-formed definition refused: %s: %s" % (type(e).__name__, str(e)[:200]), dict(definition=txt))
            continue
        run.case(key=("api-equiv", txt), kind="api-equivalence")
        run.traces += 1
        for _ in range(6):
            r = round(rng.uniform(0.3, 8.0), 4)
            if any(abs(r - b) < 1e-6 for b in bounds):
                continue
            try:
                a, b = f(r), g(r)
            except (OverflowError, ZeroDivisionError, ValueError):
                continue
            if not close(a, b, 1e-12, 1e-12):
                nb += 1
                if nb <= 3:
                    run.fail("modifier-meaning", "%s evaluates to %r at r=%r; the same pieces composed through the Python API give %r" % (txt, b, r, a), dict(definition=txt, r=r, expression=str(desc)))
                break
            # what the definition OFFERS as derivatives is part of its meaning (forces are tabulated from it): same offer, same values
            bad = None
            for which in ("deriv", "deriv2"):
                if hasattr(f, which) != hasattr(g, which):
                    bad = "%s offers %s: %s, the Python-API composition: %s" % (txt, which, hasattr(g, which), hasattr(f, which))
                    break
                if hasattr(f, which):
                    try:
                        da, db = getattr(f, which)(r), getattr(g, which)(r)
                    except (OverflowError, ZeroDivisionError, ValueError):
                        continue
                    if not close(da, db, 1e-9, 1e-9):
                        bad = "%s: %s(%r) = %r; the same pieces composed through the Python API give %r" % (txt, which, r, db, da)
                        break
            if bad:
                nb += 1
                if nb <= 3:
                    run.fail("modifier-meaning", bad, dict(definition=txt, r=r, expression=str(desc)))
                break
    # ---- the same form used several times in ONE model with parameters that agree to many digits (seed C09_8: instances cached under a 6-significant-digit key):
    #      every occurrence denotes the form with ITS parameters
    near = [("as.buck", "%r 0.3 30.0", 18003.7572, 18003.7581), ("as.polynomial", "%r 1.0", 1000000.0, 1000001.0), ("as.bornmayer", "%r 0.25", 1234.56781, 1234.56789),
            ("as.constant", "%r", 2.00000011, 2.00000019), ("as.lj", "0.0125 %r", 3.00000004, 3.00000007)]
    cfg = "[Tabulation]\ntarget : LAMMPS\ncutoff : 4.0\nnr : 9\n[Pair]\n"
    expect = {}
    for i, (form, tmpl, p1, p2) in enumerate(near):
        a, b = tmpl % p1, tmpl % p2
        cfg += "N%da-X : %s %s\nN%db-X : %s %s\nN%dc-X : sum(%s %s, product(as.constant 1.0, %s %s))\n" % (i, form, a, i, form, b, i, form, a, form, b)
        fa = potable_callable("%s %s" % (form, a))
        fb = potable_callable("%s %s" % (form, b))
        expect["N%da" % i], expect["N%db" % i], expect["N%dc" % i] = fa, fb, (lambda r, fa=fa, fb=fb: fa(r) + 1.0 * fb(r))
    try:
        tab = Configuration().read(io.StringIO(cfg))
        run.case(key=("near-equal-parameters",), kind="near-equal-parameters")
        for pot in tab.potentials:
            for r in (0.7, 1.3, 2.9):
                got, want = pot.energy(r), expect[pot.speciesA](r)
                if not close(got, want, 1e-13, 1e-300):
                    run.fail("modifier-meaning", "one model, the same form with parameters that differ in the 7th+ digit: %s-X evaluates to %r at r=%r, the entry's own parameters give %r" % (pot.speciesA, got, r, want),
                             dict(potable_file=cfg, pair=pot.speciesA, r=r))
                    raise StopIteration
    except StopIteration:
        pass
    # ---- entry order ---------------------------------------------------------------------------------------------------------
    for i in range(run.n(20, 300)):
        entries = []
        for j in range(rng.randint(2, 4)):
            f, txt, desc, bounds = gen_expr(rng, rng.randint(0, 2))
            if txt is not None:
                entries.append(("S%d-T" % j, txt))
        if len(entries) < 2:
            continue
        vals = []
        for perm in (entries, list(reversed(entries))):
            cfg = "[Tabulation]\ntarget : LAMMPS\ncutoff : 4.0\nnr : 9\n[Pair]\n" + "".join("%s : %s\n" % e for e in perm)
            tab = Configuration().read(io.StringIO(cfg))
            d = {}
            for p in tab.potentials:
                try:
                    d[p.speciesA] = [p.energy(r) for r in (0.7, 1.9, 3.3)]
                except (OverflowError, ZeroDivisionError, ValueError):
                    d[p.speciesA] = None
            vals.append(d)
        run.case(key=("order", str(entries)), kind="entry-order")
        if vals[0] != vals[1]:
            run.fail("entry-order", "reordering the [Pair] entries changes a potential: %s vs %s" % (vals[0], vals[1]), dict(entries=entries))
    # ---- (C) custom formulas ---------------------------------------------------------------------------------------------------
    sets = [gen_formset(rng) for _ in range(run.n(80, 1500))]
    reqs, runs = [], []
    for fs in sets:
        n = len(fs["bodies"])
        pairs = []
        for j in range(3):
            k = rng.randrange(n)
            pairs.append(("X%d-Y" % j, k, [rng.choice(LITS) for _ in range(fs["arities"][k] - 1)]))
        seq = [(rng.randrange(3), rng.choice(["0.5", "1", "1.5", "2", "3"])) for _ in range(6)]
        calls = [[pairs[j][1], [fq(Fr(r))] + [fq(Fr(x)) for x in pairs[j][2]]] for (j, r) in seq]
        forms = [ex_lean(b) for b in fs["bodies"]]
        reqs.append(dict(m="lang", op="energy", forms=forms, calls=calls, fuel=300))
        reqs.append(dict(m="lang", op="energy", forms=forms, calls=calls, fuel=300, pure=True))
        runs.append((fs, pairs, seq))
    ans = lean_query(reqs)
    nb = 0
    for i, (fs, pairs, seq) in enumerate(runs):
        stateful, pure = ans[2 * i], ans[2 * i + 1]
        cfg = formset_cfg(fs, pairs)
        run.case(key=("forms", cfg), kind="custom-forms", sample=dict(potable_file=cfg) if i == 0 else None)
        run.traces += 1
        try:
            tab = Configuration().read(io.StringIO(cfg))
            pots = {p.speciesA: p for p in tab.potentials}
            got = [pots["X%d" % j].energy(float(r)) for (j, r) in seq]
        except Exception as e:
            run.fail("custom-form-rejected", "well-formed custom forms refused: %s: %s" % (type(e).__name__, str(e)[:300]), dict(potable_file=cfg))
            continue
        want_p = [None if x is None else float(Fr(x)) for x in pure]
        want_s = [None if x is None else float(Fr(x)) for x in stateful]
        if got != want_p:
            nb += 1
            if nb <= 3:
                run.fail("custom-form-meaning", "custom forms evaluate to %s for the call sequence %s; positional substitution gives %s" % (got, seq, want_p), dict(potable_file=cfg, sequence=seq))
        elif got != want_s:
            run.tie_broken("correspondence", "Atsim.evalS vs _Cexptrk_Potential_Function", "file %r: impl %s model %s" % (cfg, got, want_s))
    # cyclic witness
    cyc = ("[Tabulation]\ntarget : LAMMPS\ncutoff : 4.0\nnr : 9\n[Potential-Form]\nf(r,a) = g(r,a) + a\ng(r,b) = if(b > 0, f(r,b-1), 0)\n[Pair]\nA-B : >=0 f 3\n")
    try:
        v = Configuration().read(io.StringIO(cyc)).potentials[0].energy(1.0)
    except Exception as e:
        v = "raised %s" % type(e).__name__
    run.case(key="cyclic", kind="custom-forms-cyclic")
    if v != 6.0:
        run.fail("custom-form-cyclic-call-graph", "f(r,a) = g(r,a) + a ; g(r,b) = if(b > 0, f(r,b-1), 0) ; 'A-B : f 3' evaluates to %r, the formulas give 3+2+1+0 = 6" % (v,), dict(potable_file=cyc, value=v))
    # ---- signatures the formula language cannot bind as written (it is case-insensitive and keeps variables and functions in one name space): whatever the
    #      library does with them, it must not tabulate a DIFFERENT function than the one the entry denotes under positional binding - either the positional
    #      value, or a refusal (a configuration error; which of the two is C16's business)
    from atsim.potentials.config._common import ConfigurationException
    H = "[Tabulation]\ntarget : LAMMPS\ncutoff : 4.0\nnr : 9\n"
    probes = [
        ("parameters differing by case only", H + "[Potential-Form]\nf(r, A, a) = A + 10*a\n[Pair]\nX-Y : f 1.0 2.0\n", {"X": lambda r: 21.0}),
        ("parameters differing by case only (used with r)", H + "[Potential-Form]\nf(r, A, a) = A*r + a\n[Pair]\nX-Y : f 1.0 2.0\n", {"X": lambda r: r + 2.0}),
        ("a parameter that is the separation variable in another case", H + "[Potential-Form]\nf(r, R) = R*r\n[Pair]\nX-Y : f 3.0\n", {"X": lambda r: 3.0 * r}),
        ("the same parameter name twice", H + "[Potential-Form]\nf(r, a, a) = a*r\n[Pair]\nX-Y : f 1.0 2.0\n", None),
        ("forms whose labels differ by case only, both called from a third", H + "[Potential-Form]\nf(r, a) = a\nF(r, a) = 10*a\ng(r, a) = f(r, a) + F(r, a)\n[Pair]\nX-Y : g 1.0\n", {"X": lambda r: 11.0}),
        ("forms whose labels differ by case only, used by two interactions", H + "[Potential-Form]\nf(r, a) = a\nF(r, a) = 10*a\n[Pair]\nX-Y : f 1.0\nZ-Y : F 1.0\n", {"X": lambda r: 1.0, "Z": lambda r: 10.0}),
    ]
    for what, cfg, want in probes:
        run.case(key=("binding-probe", what), kind="custom-form-binding-probes")
        try:
            tab = Configuration().read(io.StringIO(cfg))
            got = dict((p.speciesA, [p.energy(r) for r in (0.5, 1.0, 2.0)]) for p in tab.potentials)
        except ConfigurationException:
            continue                      # refused: nothing wrong is tabulated
        except Exception:
            continue                      # (an internal exception is C16's finding, not a wrong table)
        if want is None:
            run.fail("custom-form-meaning", "%s: the entry is accepted and tabulates %s although its signature does not say which argument the repeated name stands for" % (what, got), dict(potable_file=cfg))
            continue
        exp = dict((k, [f(r) for r in (0.5, 1.0, 2.0)]) for k, f in want.items())
        if got != exp:
            run.fail("custom-form-meaning", "%s: the potentials evaluate to %s at r = 0.5, 1, 2; binding the parameters positionally gives %s" % (what, got, exp), dict(potable_file=cfg))
    # ---- (C') a failed evaluation followed by continued use: a custom form left its domain once (a scan past the point where the square root or the logarithm is
    #      defined; the caller caught the error): every later use of that form - the same pair inside its domain, another pair using the form, a sum() holding it, a
    #      second form calling it - evaluates the formula as before (round-8 seed C09_14: a re-entrancy flag that an exception leaves set)
    for rep in range(run.n(3, 20)):
        a0 = round(rng.uniform(1.5, 3.0), 2)
        cfg = ("[Tabulation]\ntarget : LAMMPS\ncutoff : 4.0\nnr : 9\n\n[Potential-Form]\nsqroot(r, a) = pymath.sqrt(a - r)\nlg(r, a) = pymath.log(a - r) + 1\n"
               "outer(r, a) = 2 * sqroot(r, a) + 1\n\n[Pair]\nA-B : >=0 sqroot %r\nA-C : >=0 sqroot %r\nA-D : >=0 sum(sqroot %r, as.constant 1.0)\nA-E : >=0 outer %r\nA-F : >=0 lg %r\n"
               % (a0, a0 + 1.0, a0, a0, a0))
        run.case(key=("after-failure", cfg), kind="custom-forms/after-failed-evaluation")
        run.traces += 1
        try:
            pots = dict((p_.speciesB, p_) for p_ in Configuration().read(io.StringIO(cfg)).potentials)
            fresh = dict((k_, p_.energy(1.0)) for k_, p_ in pots.items())
            nraised = 0
            for k_ in ("B", "F", "E"):
                for r_ in (a0 + 0.5, a0 + 1.5):
                    try:
                        pots[k_].energy(r_)
                    except Exception:
                        nraised += 1
            again = dict((k_, p_.energy(1.0)) for k_, p_ in pots.items())
        except Exception as e:
            run.fail("custom-form-meaning", "custom forms evaluated inside their domain raised %s: %s" % (type(e).__name__, str(e)[:200]), dict(potable_file=cfg))
            continue
        want = {"B": math.sqrt(a0 - 1.0), "C": math.sqrt(a0), "D": math.sqrt(a0 - 1.0) + 1.0, "E": 2 * math.sqrt(a0 - 1.0) + 1, "F": math.log(a0 - 1.0) + 1}
        bad_ = [(k_, again.get(k_), want[k_]) for k_ in want if not close(again.get(k_, float("nan")), want[k_], 1e-12, 1e-12)]
        if nraised == 0 or fresh != again or bad_:
            run.fail("custom-form-meaning", "after %d evaluations outside the forms' domain (caught by the caller) the potentials evaluate to %s at r = 1; before: %s; the formulas give %s"
                     % (nraised, again, fresh, want), dict(potable_file=cfg))
    # ---- (D) pymath --------------------------------------------------------------------------------------------------------------
    table = [("acos(0.25)", math.acos(0.25)), ("ceil(4.2)", 5.0), ("cosh(1.5)", math.cosh(1.5)), ("exp(2.5)", math.exp(2.5)),
             ("ldexp(3.5, 4)", 56.0), ("log(10)", math.log(10)), ("log(8, 2)", math.log(8, 2)),
             ("log10(1000)", math.log10(1000)), ("log2(10)", math.log2(10)), ("sqrt(6.25)", 2.5), ("sin(0.5)", math.sin(0.5)), ("tanh(0.9)", math.tanh(0.9)),
             ("degrees(3.14)", math.degrees(3.14)), ("radians(180)", math.pi), ("factorial(5)", 120.0), ("gcd(100, 15)", 5.0), ("fsum(0.1, 0.2, 0.3)", math.fsum([0.1, 0.2, 0.3]))]
    # every one- and two-argument function over operands of both signs and both orders (argument order, sign conventions of fmod / copysign / atan2 / trunc / floor)
    from atsim.potentials.config import _pymath
    import inspect
    for name, fn in sorted(inspect.getmembers(_pymath, inspect.isfunction)):
        if name.startswith("_") or not hasattr(math, name):
            continue
        try:
            params = inspect.signature(fn).parameters.values()
        except (TypeError, ValueError):
            continue
        if any(p.kind == p.VAR_POSITIONAL for p in params):
            continue
        nargs = len(params)
        pools = {1: [(0.3,), (-0.3,), (2.75,), (-2.75,), (7.5,)], 2: [(5.5, 2.0), (-5.5, 2.0), (5.5, -2.0), (-5.5, -2.0), (2.0, 5.5), (0.5, 3.0), (3.0, 0.5)]}.get(nargs, [])
        if name in ("factorial",):
            pools = [(4,), (6,)]
        if name in ("gcd",):
            pools = [(12, 18), (18, 12), (7, 5)]
        if name in ("ldexp",):
            pools = [(1.5, 3), (-1.5, 2), (3.0, -1)]
        for ops in pools:
            try:
                v = float(getattr(math, name)(*ops))
            except (ValueError, OverflowError, ZeroDivisionError, TypeError):
                continue
            if v != v or abs(v) > 1e30:
                continue
            table.append(("%s(%s)" % (name, ", ".join(repr(x) for x in ops)), v))
    cfg = "[Tabulation]\ntarget : LAMMPS\ncutoff : 4.0\nnr : 9\n[Potential-Form]\n" + "".join("pm%d(r) = pymath.%s + r\n" % (i, e) for i, (e, v) in enumerate(table))
    cfg += "[Pair]\n" + "".join("P%d-Q : >=0 pm%d\n" % (i, i) for i in range(len(table)))
    try:
        tab = Configuration().read(io.StringIO(cfg))
        for (e, v), p in zip(table, tab.potentials):
            got = p.energy(0.5)
            run.case(key=("pymath", e), kind="pymath")
            if not close(got, v + 0.5, 1e-12, 1e-12):
                run.fail("pymath-function", "pymath.%s + 0.5 evaluates to %r, Python's math gives %r" % (e, got, v + 0.5), dict(expression=e))
    except Exception as e:
        run.fail("pymath-function", "pymath formulas refused: %s: %s" % (type(e).__name__, str(e)[:300]), dict(potable_file=cfg))


def replay(run, payload):
    print("replay:", payload.get("case"))
    return 2
