"""C20 - each interaction / form is defined at most once; duplicates are rejected.
Base models (pair, EAM, Finnis-Sinclair, with custom forms and table forms) x duplication operators (same key, reversed pair, whitespace variants of 'A-B', 'A->B',
'f(r,A)' and 'Table-Form:name', custom form with another parameter list, table form named like a custom or a built-in form, duplicates introduced through
additional items / --add-item).  Observables: outcome class (must be a configuration error) and, when accepted, which definition the tabulated function follows.
The INI-level part is compared with `Atsim.readIni` (current configuration)."""
import io

from common import lean_query
import impl

from atsim.potentials.config import ConfigParser, Configuration, ConfigParserOverrideTuple as T
from atsim.potentials.config._common import ConfigurationException

BASES = {
    "pair": ("[Tabulation]\ntarget : LAMMPS\ncutoff : 4.0\nnr : 8\n", [
        ["Pair", [["Si-O", "as.buck 1000.0 0.3 32.0"], ["O-O", "myform 2.5"], ["Al-O", ">=0 tab1"]]],
        ["Potential-Form", [["myform(r,a)", "a*exp(-r)"], ["other(r,a,b)", "a+b*r"]]],
        ["Table-Form:tab1", [["x", "0 1 2 3 4"], ["y", "4 3 2 1 0"]]]]),
    "eam": ("[Tabulation]\ntarget : setfl\ncutoff : 4.0\nnr : 8\ncutoff_rho : 2.0\nnrho : 4\n", [
        ["Pair", [["Al-Cu", "as.buck 1000.0 0.3 32.0"], ["Al-Al", "as.zero"]]],
        ["EAM-Embed", [["Al", "as.sqrt 1.0"], ["Cu", "as.sqrt 2.0"]]],
        ["EAM-Density", [["Al", "as.bornmayer 10.0 0.5"], ["Cu", "as.bornmayer 5.0 0.5"]]]]),
    "fs": ("[Tabulation]\ntarget : setfl_fs\ncutoff : 4.0\nnr : 8\ncutoff_rho : 2.0\nnrho : 4\n", [
        ["Pair", [["Al-Cu", "as.buck 1000.0 0.3 32.0"]]],
        ["EAM-Embed", [["Al", "as.sqrt 1.0"], ["Cu", "as.sqrt 2.0"]]],
        ["EAM-Density", [["Al->Al", "as.bornmayer 10.0 0.5"], ["Al->Cu", "as.bornmayer 7.0 0.5"], ["Cu->Al", "as.bornmayer 5.0 0.5"], ["Cu->Cu", "as.bornmayer 3.0 0.5"]]]]),
}


def ws_variants(key):
    out = set()
    for ch in "-(,>":
        if ch in key:
            i = key.index(ch)
            out.add(key[:i] + " " + key[i:])
            out.add(key[:i + 1] + " " + key[i + 1:])
            out.add(key[:i] + " " + key[i] + "\t" + key[i + 1:])
            # whitespace other than blank and tab (no-break space, thin space, ideographic space, form feed): still "whitespace inside the key" (seed C20_6)
            for w in ("\u00a0", "\u2009", "\u3000", "\x0c"):
                out.add(key[:i + 1] + w + key[i + 1:])
    if len(key) > 1 and key[1:2].isalpha():
        out.add(key[0] + " " + key[1:])          # 'A l'
    out.add(key + " ")                    # (a leading blank would make the line a continuation line of the previous value: not a key at all)
    return sorted(out)


def operators(base, secs):
    """yields (operator name, mutated sections, description of the two clashing definitions)"""
    for si, (sname, kvs) in enumerate(secs):
        if sname.startswith("Table-Form"):
            name = sname.split(":", 1)[1]
            # (blanks after the colon, before it and before the prefix: all are the table form `name` - round-7 seed C20_12 recognised only the first kind)
            for hv in ("Table-Form: %s" % name, "Table-Form:%s " % name, "Table-Form:  %s" % name, "Table-Form :%s" % name, " Table-Form:%s" % name, "Table-Form\t: %s " % name):
                new = [list(x) for x in secs] + [[hv, [["x", "0 1 2 3 4"], ["y", "9 9 9 9 9"]]]]
                yield "table-form-header-whitespace", new, (sname, hv)
            continue
        for ki, (k, v) in enumerate(kvs):
            other = {"Pair": "as.buck 77.0 0.3 0.0", "EAM-Embed": "as.sqrt 9.0", "EAM-Density": "as.bornmayer 99.0 0.5", "Potential-Form": "a*77"}[sname]
            for pos in ("after", "before"):
                def with_dup(newkey):
                    nk = [list(x) for x in kvs]
                    if pos == "after":
                        nk.append([newkey, other])
                    else:
                        nk.insert(0, [newkey, other])
                    return [list(x) if i != si else [sname, nk] for i, x in enumerate(secs)]
                yield "same-key/" + sname, with_dup(k), (k, k)
                for wv in ws_variants(k):
                    yield "whitespace-variant/" + sname, with_dup(wv), (k, wv)
                if sname == "Pair" and "-" in k:
                    a, b = k.split("-")
                    if a != b:
                        yield "reversed-pair", with_dup("%s-%s" % (b, a)), (k, "%s-%s" % (b, a))
                        yield "reversed-pair-whitespace", with_dup("%s - %s" % (b, a)), (k, "%s - %s" % (b, a))
                if sname == "Potential-Form":
                    label = k.split("(")[0]
                    yield "form-other-parameter-list", with_dup("%s(r,p,q,s)" % label), (k, "%s(r,p,q,s)" % label)
                    # the formula language is case-insensitive: a label in another case names the same function inside every formula
                    if label.upper() != label:
                        yield "form-label-other-case", with_dup("%s(%s" % (label.upper(), k.split("(", 1)[1])), (k, "%s(%s" % (label.upper(), k.split("(", 1)[1]))
    if any(s[0] == "Potential-Form" for s in secs):
        # (as.buck4 exists as a factory only - it is not a function of potentialfunctions - but it is a built-in form all the same)
        for nm, opname in (("myform", "table-form-named-like-custom-form"), ("as.zero", "table-form-named-like-builtin-form"), ("as.buck", "table-form-named-like-builtin-form"),
                           ("as.buck4", "table-form-named-like-builtin-form"),
                           # labels are not case-sensitive inside formulas (fix 44f4aaf): the same names in another case are the same functions there
                           ("MyForm", "table-form-named-like-custom-form"), ("as.Zero", "table-form-named-like-builtin-form"), ("as.Buck", "table-form-named-like-builtin-form"),
                           ("as.Buck4", "table-form-named-like-builtin-form")):
            new = [list(x) for x in secs] + [["Table-Form:%s" % nm, [["x", "0 1 2 3 4"], ["y", "5 5 5 5 5"]]]]
            yield opname, new, (nm, "Table-Form:" + nm)


def render(head, secs):
    t = head + "\n"
    for name, kvs in secs:
        t += "[%s]\n" % name + "".join("%s : %s\n" % (k, v) for k, v in kvs) + "\n"
    return t


def outcome(cfg):
    try:
        out = impl.config_tabulate(cfg)
        return "accepted", out
    except ConfigurationException as e:
        return "config_error", type(e).__name__
    except Exception as e:
        return "internal:" + type(e).__name__, str(e)[:120]


def check(run):
    import genlib
    genlib.validate_cfg_logic(run, "dup_pairs", n=run.n(300, 4000))
    genlib.validate_cfg_logic(run, "dup_table_forms", n=run.n(300, 4000))
    run.rule = ("3 base models (pair with custom and table forms, EAM, Finnis-Sinclair) x every duplication operator applied to every entry, duplicate placed before and after the original: "
                "same key, all single-blank/tab whitespace variants of the key, reversed pair (with/without blanks), custom form with another parameter list, three spellings of a "
                "[Table-Form:name] header, table form named like a custom / built-in form; plus duplicates introduced through `additional` items and --add-item; "
                "distinct = (base, operator, entry, position)")
    run.assumptions += ["a duplicate is 'a second definition of the same thing': same key modulo embedded whitespace, reversed species pair, same form label",
                        "configparser's strict mode supplies duplicate option/section detection; the normalisation it applies is optionxform (modelled by Atsim.readIni)"]
    cases = []
    for bname, (head, secs) in BASES.items():
        for opname, new, clash in operators(bname, secs):
            cases.append((bname, opname, head, new, clash))
    if run.quick and len(cases) > 400:
        run.rng.shuffle(cases)
        keep = {}
        for c in cases:
            keep.setdefault(c[1], []).append(c)
        cases = [c for op, cs in keep.items() for c in cs[:30]]
    reqs = []
    for (bname, opname, head, new, clash) in cases:
        lines = [["sec", "Tabulation"]] + sum([[["sec", n]] + [["kv", k, v] for k, v in kvs] for n, kvs in new], [])
        reqs.append(dict(m="ini", op="apply", lines=lines))
    models = lean_query(reqs)
    counts = {}
    for (bname, opname, head, new, clash), mo in zip(cases, models):
        cfg = render(head, new)
        oc, detail = outcome(cfg)
        run.case(key=(bname, opname, cfg), kind=opname, sample=dict(potable_file=cfg, clash=clash) if run.evaluations in (3, 90) else None)
        run.traces += 1
        ini_level = opname.startswith(("same-key", "whitespace-variant", "form-other")) is False and False
        if oc != "config_error":
            counts[opname] = counts.get(opname, 0) + 1
            if counts[opname] <= 1:
                key = {"table-form-named-like-custom-form": "table-form-vs-formula-name-clash", "table-form-named-like-builtin-form": "table-form-named-like-builtin"}.get(opname, "duplicate-accepted")
                what = "accepted silently" if oc == "accepted" else "escapes as %s (%s)" % (oc, detail)
                run.fail(key, "%s: the definitions %r and %r of the same thing are %s instead of being rejected as a configuration error" % (opname, clash[0], clash[1], what),
                         dict(potable_file=cfg, operator=opname, clash=clash, outcome=oc))
        # INI level correspondence (duplicate options / sections as configparser sees them)
        model_dup = "err" in mo and mo["err"] == "duplicate"
        try:
            ConfigParser(io.StringIO(cfg))
            real_dup = False
        except ConfigurationException as e:
            real_dup = type(e).__name__ == "ConfigParserDuplicateEntryException"
        except Exception:
            real_dup = False
        if model_dup and not real_dup:
            run.tie_broken("correspondence", "Atsim.readIni vs ConfigParser duplicate detection", "file %r: model reports a duplicate option/section, the implementation does not" % cfg[:300])
    # ---- duplicates through additional items / --add-item -----------------------------------------------------------------------------------
    head, secs = BASES["pair"]
    cfg = render(head, secs)
    scen = [([T("Pair", "Si-O", "as.zero")], "add of an existing pair"), ([T("Pair", "O-Si", "as.zero")], "add of the reversed pair"),
            ([T("Pair", "Xe-Xe", "as.zero"), T("Pair", "Xe-Xe", "as.buck 1.0 0.3 0.0")], "the same new item added twice"),
            ([T("Pair", "Xe-Kr", "as.zero"), T("Pair", "Kr - Xe", "as.buck 1.0 0.3 0.0")], "a new pair and its reversal added"),
            ([T("Potential-Form", "myform(r, a)", "a")], "add of an existing form under a whitespace variant"),
            ([T("Potential-Form", "newf(r)", "r"), T("Potential-Form", "newf(r)", "2*r")], "the same new form added twice")]
    for ads, what in scen:
        try:
            cp = ConfigParser(io.StringIO(cfg), additional=ads)
            buf = io.StringIO()
            Configuration().read_from_parser(cp).write(buf)
            oc = "accepted"
        except ConfigurationException:
            oc = "config_error"
        except Exception as e:
            oc = "internal:" + type(e).__name__
        args = sum([["--add-item", "%s:%s=%s" % (a.section, a.key, a.value)] for a in ads], [])
        r = impl.potable_cli(cfg, args=args)
        oc_cli = "accepted" if r["rc"] == 0 else ("config_error" if "configuration error" in r["stderr"] else "failed")
        run.case(key=("additional", what), kind="additional-items")
        run.traces += 2
        if oc != "config_error" or oc_cli != "config_error":
            run.fail("duplicate-accepted", "%s: API outcome %s, command-line outcome %s (expected a configuration error)" % (what, oc, oc_cli), dict(potable_file=cfg, additional=[list(a) for a in ads]))


def replay(run, payload):
    print("replay:", payload.get("case"))
    return 2
