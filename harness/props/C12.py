"""C12 - determinism and purity.
(a) histories inside one process: for generated models (pair with shared custom sub-forms, EAM, Finnis-Sinclair, ADP; all text targets + Excel sheet contents) the bytes written after
    an arbitrary history (other models built before/between, potentials evaluated in shuffled/interleaved orders, repeated writes of one tabulation object, rebuilt objects) are compared
    with the bytes of a fresh build;
(b) fresh processes under different PYTHONHASHSEED values (potable entry point), byte comparison - includes under-specified EAM models with several zero-filled species;
(c) static scan of /repo for iteration over unsorted sets and for mutable default arguments, compared with the list of sites the model accounts for."""
import ast
import hashlib
import io
import os
import zipfile

from common import REPO, lean_query
import impl
import eamlib
from props.C09 import gen_formset, formset_cfg, LITS

from atsim.potentials.config import Configuration

TEXT_TARGETS_PAIR = ["LAMMPS", "DL_POLY", "GULP"]
TEXT_TARGETS_EAM = ["setfl", "DL_POLY_EAM"]
TEXT_TARGETS_FS = ["setfl_fs", "DL_POLY_EAM_fs"]


def pair_model(rng):
    """pair model with custom forms that share sub-forms called with different arguments"""
    fs = gen_formset(rng)
    n = len(fs["bodies"])
    pairs = []
    for j in range(rng.randint(2, 4)):
        k = rng.randrange(n)
        pairs.append(("X%d-Y" % j, k, [rng.choice(LITS) for _ in range(fs["arities"][k] - 1)]))
    cfg = formset_cfg(fs, pairs)
    body = cfg.split("[Potential-Form]", 1)[1]
    # custom forms that ASSIGN to their own parameters (legal exprtk: an in-place unit conversion), used by several interactions with equal and with different
    # arguments: every call must start from the arguments it was given, however often and in whatever order the form was evaluated before (seed C12_6)
    body = body.replace("[Pair]\n", "selfmod(r, a, b) = a := a*2; b := b+1; a*r + b\nconv(r, A, rho) = A := A*27.211386; rho := rho*0.529177; A*exp(-r/rho)\n[Pair]\n", 1)
    body += "M-N : selfmod 0.5 1.0\nM-O : selfmod 0.5 2.0\nM-P : conv 10.0 0.6\nM-Q : sum(conv 10.0 0.6, selfmod 0.5 1.0)\n"
    # ranges with EXCLUSIVE starts that lie on grid points (cutoff 4.0 / 8 intervals): the value AT such a start belongs to the range below, whatever was
    # evaluated just before (seed C12_7: a "range found last time" fast path)
    body += "Q-S : as.buck 1000.0 0.3 32.0 >2.0 as.constant 1.5 >3.0 as.polynomial 0.0 0.25\nQ-T : >=0 as.constant 7.0 >1.5 as.constant 8.0 >=2.5 as.constant 9.0 >3.5 as.zero\n"
    return "[Potential-Form]" + body + "Q-Q : as.buck 1000.0 0.3 32.0\nQ-R : sum(as.bornmayer 500.0 0.25, as.constant 1.0) >=2.0 as.zero\n"


def eam_model(rng, fs, underspecified=False):
    m = eamlib.gen_model(rng, fs=fs, potable=True, nmax=4)
    eamlib.make_potable_variants(rng, m)
    text = eamlib.cfg_text(m, "TARGET")
    body = text.split("\n\n", 1)[1]
    if underspecified:
        # several species appear in density entries only: their embedding functions are zero-filled
        extra = ["Zn", "Sn", "Pb", "W", "Mo"][: rng.randint(2, 4)]
        lines = body.split("[EAM-Density]\n")
        add = "".join(("%s->%s : as.zero\n" % (e, e)) if fs else ("%s : as.zero\n" % e) for e in extra)
        body = lines[0] + "[EAM-Density]\n" + add + lines[1]
    return body


def tab_section(target, nr=None):
    nr = nr or 8
    t = "[Tabulation]\ntarget : %s\ncutoff : 3.5\nnr : %d\n" % (target, nr)
    if target not in TEXT_TARGETS_PAIR and target != "excel":
        t += "cutoff_rho : 2.0\nnrho : 5\n"
    return t + "\n"


def impl_tab(cfg):
    return write_bytes(Configuration().read(io.StringIO(cfg)), False)


def write_bytes(tab, binary):
    buf = io.BytesIO() if binary else io.StringIO()
    tab.write(buf)
    return buf.getvalue()


def xlsx_cells(data):
    import openpyxl
    wb = openpyxl.load_workbook(io.BytesIO(data))
    return [(ws.title, [tuple(r) for r in ws.iter_rows(values_only=True)]) for ws in wb.worksheets]


def digest(x):
    return hashlib.sha1(x if isinstance(x, bytes) else x.encode()).hexdigest()[:12]


# ---------------------------------------------------------------------------------------------------------------------------
EXPECTED_SET_LOOPS = {
    # (file, function, iterated name): harmless - the loop only fills dictionaries that are later indexed by key or iterated through sorted()
    ("config/_eam_potential_builder.py", "_add_null_density_functions", "all_species"),
}
# after the fix: commit `_add_null_embedding_functions` iterates `sorted(null_embed_species)`, which the scan does not list
EXPECTED_MUTABLE_DEFAULTS = {
    ("_lammpsWriteEAM.py", "writeSetFL", "comments"), ("_lammpsWriteEAM.py", "writeSetFLFinnisSinclair", "comments"),
    ("referencedata/_reference_data.py", "__init__", "extra_data"), ("config/_config_parser.py", "__init__", "overrides"), ("config/_config_parser.py", "__init__", "additional"),
    ("config/_filtered_config_parser.py", "__init__", "exclude"), ("config/_filtered_config_parser.py", "__init__", "include"),
    ("config/_eam_potential_builder.py", "__init__", "reference_data"),
}


def is_set_expr(e, setnames):
    if isinstance(e, ast.Call) and isinstance(e.func, ast.Name) and e.func.id in ("set", "frozenset"):
        return True
    if isinstance(e, (ast.Set, ast.SetComp)):
        return True
    if isinstance(e, ast.Name) and e.id in setnames:
        return True
    if isinstance(e, ast.BinOp) and isinstance(e.op, (ast.BitOr, ast.BitAnd, ast.BitXor, ast.Sub)):
        return is_set_expr(e.left, setnames) or is_set_expr(e.right, setnames)
    if isinstance(e, ast.Call) and isinstance(e.func, ast.Attribute) and e.func.attr in ("keys",) and False:
        return False
    if isinstance(e, ast.Call) and isinstance(e.func, ast.Attribute) and e.func.attr in ("_embed_species", "_density_species", "_pp_species"):
        return True
    return False


def static_scan():
    base = os.path.join(REPO, "atsim", "potentials")
    loops, defaults = set(), set()
    for dp, dn, fn in os.walk(base):
        for f in fn:
            if not f.endswith(".py"):
                continue
            p = os.path.join(dp, f)
            rel = os.path.relpath(p, base)
            try:
                tree = ast.parse(open(p).read())
            except SyntaxError:
                continue
            for fdef in [n for n in ast.walk(tree) if isinstance(n, ast.FunctionDef)]:
                setnames = set()
                for n in ast.walk(fdef):
                    if isinstance(n, ast.Assign) and len(n.targets) == 1 and isinstance(n.targets[0], ast.Name) and is_set_expr(n.value, setnames):
                        setnames.add(n.targets[0].id)
                for n in ast.walk(fdef):
                    iters = []
                    if isinstance(n, ast.For):
                        iters.append(n.iter)
                    if isinstance(n, (ast.ListComp, ast.GeneratorExp, ast.DictComp)):
                        iters += [g.iter for g in n.generators]
                    for it in iters:
                        if is_set_expr(it, setnames):
                            loops.add((rel, fdef.name, ast.unparse(it)[:40]))
                args = fdef.args
                pos = args.args[len(args.args) - len(args.defaults):]
                for a, d in zip(pos, args.defaults):
                    if isinstance(d, (ast.List, ast.Dict, ast.Set)) or (isinstance(d, ast.Call) and isinstance(d.func, ast.Name) and d.func.id[:1].isupper()):
                        defaults.add((rel, fdef.name, a.arg))
    return loops, defaults


# ---------------------------------------------------------------------------------------------------------------------------
def check(run):
    import genlib
    genlib.validate_eam_builder(run, n=run.n(60, 600))
    run.rule = ("(a) per generated model and target: bytes after a random history (other models built, evaluation orders shuffled/interleaved, write twice, rebuild) vs bytes of a fresh build; "
                "(b) potable entry point in fresh processes under %s hash seeds; (c) static scan of set iterations / mutable defaults vs the accounted sites; "
                "distinct = (model text, target, history kind)" % ("4" if run.quick else "16"))
    run.assumptions += ["CPython dict insertion order and cexprtk evaluation order are trusted as documented", "Excel targets are compared on sheet contents (cell grids); the xlsx container carries "
                        "openpyxl's creation/modification time stamps (recorded finding)", "the core purity statement (C12_eval_state_independent) is a Lean theorem about Atsim.evalS, tied to the "
                        "code by C09's custom-form correspondence, which this check re-runs on interleaved sequences through whole tabulations"]
    rng = run.rng
    # ---- (c) static scan -----------------------------------------------------------------------------------------------------
    loops, defaults = static_scan()
    run.extra["set_iteration_sites"] = sorted(map(list, loops))
    run.extra["mutable_default_sites"] = sorted(map(list, defaults))
    for l in sorted(loops):
        if (l[0], l[1], l[2]) not in EXPECTED_SET_LOOPS:
            run.tie_broken("static-scan", "iteration over an unsorted set: %s %s() `for .. in %s`" % l, "the model has no permutation parameter for this site")
    for d in sorted(defaults - EXPECTED_MUTABLE_DEFAULTS):
        run.tie_broken("static-scan", "new mutable default argument: %s %s(%s=...)" % d, "shared between calls; not accounted for by the model")
    # ---- (a0) Python-API objects built on pre-tabulated data (TableReader): write twice, evaluate in any order ------------------------
    from atsim.potentials import Potential, TableReader
    from atsim.potentials.pair_tabulation import LAMMPS_PairTabulation, GULP_PairTabulation
    for i in range(run.n(4, 40)):
        n = rng.randint(6, 30)
        xs = sorted(set(round(rng.uniform(0.0, 6.0), 3) for _ in range(n)) | {0.0, 6.0})
        rows = "".join("%r %r\n" % (x, round(rng.uniform(-5, 50), 4)) for x in xs)

        def build():
            rd = TableReader(io.StringIO(rows))
            return [Potential("A", "B", rd), Potential("B", "B", rd)], rd      # one reader shared by two interactions
        cls = LAMMPS_PairTabulation if i % 2 == 0 else GULP_PairTabulation
        pots, rd = build()
        tab = cls(pots, 5.5, rng.randint(8, 40))
        nr_ = tab.nr
        ref = write_bytes(tab, False)
        run.case(key=("api-tablereader", rows, nr_), kind="history/api-tablereader")
        run.traces += 3
        again = write_bytes(tab, False)
        pots2, rd2 = build()
        qs = [round(rng.uniform(0.0, 6.0), 3) for _ in range(30)]
        for q in qs:
            rd2.getValue(q) if hasattr(rd2, "getValue") else rd2(q)
        shuffled = write_bytes(cls(pots2, 5.5, nr_), False)
        vals_fwd = [rd2(q) for q in sorted(qs)]
        vals_rev = list(reversed([rd2(q) for q in sorted(qs, reverse=True)]))
        if again != ref or shuffled != ref or vals_fwd != vals_rev:
            what = "second write of the same tabulation differs from the first" if again != ref else ("table written after the data reader had been queried at other separations differs from a fresh one" if shuffled != ref else
                                                                                                     "the reader returns different values for the same separations queried in ascending and in descending order")
            run.fail("history-dependent-output", "Python API, %s over TableReader data: %s" % (cls.__name__, what), dict(data_file=rows, nr=nr_, cutoff=5.5))
    # ---- (a1) reference data: a model WITHOUT [Species] entries takes atomic number / mass / lattice from the built-in table, whatever was built before ------
    for target in ["setfl", "DL_POLY_EAM", "setfl_fs", "eam_adp"]:
        fsd = target.endswith("_fs")
        plain = (tab_section(target) + "[EAM-Embed]\nAl : as.sqrt 1.0\nCu : as.sqrt 2.0\n[EAM-Density]\n"
                 + ("Al->Al : as.bornmayer 1.0 0.5\nAl->Cu : as.bornmayer 2.0 0.5\nCu->Al : as.bornmayer 3.0 0.5\nCu->Cu : as.bornmayer 4.0 0.5\n" if fsd else "Al : as.bornmayer 1.0 0.5\nCu : as.bornmayer 2.0 0.5\n")
                 + "[Pair]\nAl-Cu : as.buck 1000.0 0.3 0.0\n" + ("[EAM-ADP-Dipole]\n[EAM-ADP-Quadrupole]\n" if target == "eam_adp" else ""))
        withdata = plain + "[Species]\nAl.atomic_mass : 99.5\nAl.lattice_constant : 4.05\nAl.lattice_type : bcc\nCu.atomic_number : 128\nCu.atomic_mass : 1.25\n"
        try:
            ref = impl_tab(plain)
            impl_tab(withdata)
            after = impl_tab(plain)
        except Exception as e:
            run.fail("history-dependent-output", "target %s: reference-data scenario raised %s: %s" % (target, type(e).__name__, str(e)[:150]), dict(potable_file=plain))
            continue
        run.case(key=("species-data-history", target), kind="history/species-data")
        run.traces += 3
        if after != ref:
            la, lb = ref.split("\n"), after.split("\n")
            d = [(x, y) for x, y in zip(la, lb) if x != y][:2]
            run.fail("history-dependent-output", "target %s: a model without [Species] entries tabulates differently after ANOTHER model that gives [Species] data for Al and Cu was tabulated in the "
                     "same process: %s" % (target, d), dict(potable_file=plain, model_built_before=withdata))
    # ---- (a) histories ---------------------------------------------------------------------------------------------------------
    models = []
    for i in range(run.n(10, 120)):
        models.append(("pair", pair_model(rng), rng.choice(TEXT_TARGETS_PAIR + ["excel"])))
        fs = bool(i % 2)
        models.append(("eam-fs" if fs else "eam", eam_model(rng, fs), rng.choice((TEXT_TARGETS_FS + ["excel_eam_fs"]) if fs else (TEXT_TARGETS_EAM + ["excel_eam", "eam_adp"]))))
    nb = 0
    for idx, (kind, body, target) in enumerate(models):
        nr = 8 if target != "DL_POLY" else 8
        extra = "[EAM-ADP-Dipole]\n[EAM-ADP-Quadrupole]\n" if target == "eam_adp" else ""
        cfg = tab_section(target, nr) + body + extra
        binary = target.startswith("excel")
        norm = (lambda b: xlsx_cells(b)) if binary else (lambda b: b)

        def fresh():
            return Configuration().read(io.StringIO(cfg))
        try:
            ref = norm(write_bytes(fresh(), binary))
        except Exception as e:
            run.fail("model-rejected", "generated model refused for target %s: %s: %s" % (target, type(e).__name__, str(e)[:200]), dict(potable_file=cfg))
            continue
        histories = []

        def attempt(label, fn):
            """a history step that fails although the fresh build succeeded is itself a history dependence"""
            try:
                return fn()
            except Exception as e:
                run.fail("history-dependent-output", "target %s: %s raised %s: %s although a fresh build of the same model tabulates fine" % (target, label, type(e).__name__, str(e)[:150]),
                         dict(potable_file=cfg, history=label))
                return None
        # 1: same object written twice
        t1 = fresh()
        w1 = write_bytes(t1, binary)
        w2 = attempt("second write of the same tabulation object", lambda: write_bytes(t1, binary))
        if w2 is None:
            continue
        histories.append(("write-twice", norm(w2)))
        if binary and not getattr(run, "_xlsx_done", False):
            import time
            run._xlsx_done = True
            time.sleep(1.2)                       # the container's time stamps have one-second resolution
            w2 = write_bytes(t1, binary)
        if binary and w1 != w2:
            run.fail("xlsx-container-timestamps", "target %s: writing the same tabulation object twice gives different bytes (%d vs %d differing) although every sheet cell is identical: "
                     "the xlsx container holds creation/modification time stamps" % (target, len(w1), len(w2)), dict(target=target))
        # 2: other models built and evaluated before and between
        other = models[(idx + 1) % len(models)]
        ot = Configuration().read(io.StringIO(tab_section(other[2]) + other[1] + ("[EAM-ADP-Dipole]\n[EAM-ADP-Quadrupole]\n" if other[2] == "eam_adp" else "")))
        for p in ot.potentials:
            try:
                p.energy(rng.choice([0.5, 1.0, 2.5]))
            except Exception:
                pass
        t2 = fresh()
        try:
            write_bytes(ot, other[2].startswith("excel"))
        except Exception:
            pass
        o2 = attempt("write after another model was built and evaluated", lambda: write_bytes(t2, binary))
        if o2 is None:
            continue
        histories.append(("other-model-before", norm(o2)))
        # 2b: a DIFFERENT model that gives [Species] data for the same species labels was built (and written) before
        if kind.startswith("eam"):
            import re
            m_ = re.search(r"\[EAM-Embed\]\n(.*?)(\n\[|\Z)", body, flags=re.S)
            labels = sorted(set(re.findall(r"^\s*([A-Za-z]+)\s*[:=]", m_.group(1), flags=re.M))) if m_ else []
            if labels:
                ocfg = ("[Tabulation]\ntarget : setfl\ncutoff : 3.5\nnr : 8\ncutoff_rho : 2.0\nnrho : 5\n\n[EAM-Embed]\n" + "".join("%s : as.zero\n" % x for x in labels)
                        + "[EAM-Density]\n" + "".join("%s : as.zero\n" % x for x in labels) + "[Pair]\n[Species]\n"
                        + "".join("%s.atomic_number : %d\n%s.atomic_mass : %s\n%s.lattice_constant : 9.875\n%s.lattice_type : bcc\n" % (x, 150 + i, x, 999.5 + i, x, x) for i, x in enumerate(labels)))
                try:
                    write_bytes(Configuration().read(io.StringIO(ocfg)), False)
                except Exception:
                    pass
                t2b = attempt("build after a model with other [Species] data for the same labels", fresh)
                if t2b is not None:
                    o2b = attempt("write after a model with other [Species] data for the same labels was tabulated", lambda: write_bytes(t2b, binary))
                    if o2b is not None:
                        histories.append(("other-model-with-species-data-before", norm(o2b)))
        # 3: potentials evaluated in shuffled, interleaved order before writing
        t3 = fresh()
        pots = list(t3.potentials)
        evals = [(p, r) for p in pots for r in (0.5, 1.0, 3.0, 2.0)]
        rng.shuffle(evals)
        for p, r in evals:
            try:
                p.energy(r)
                p.force(r)
            except Exception:
                pass
        o3 = attempt("write after the potentials were evaluated in shuffled order", lambda: write_bytes(t3, binary))
        if o3 is None:
            continue
        histories.append(("shuffled-evaluations", norm(o3)))
        # energy is a function of definition and r alone: same evaluations in another order give the same values
        t4 = fresh()
        vals_a = {}
        for p, r in evals:
            try:
                vals_a[(p.speciesA, p.speciesB, r)] = p.energy(r)
            except Exception:
                vals_a[(p.speciesA, p.speciesB, r)] = None
        vals_b = {}
        for p in t4.potentials:
            for r in (3.0, 0.5, 2.0, 1.0):
                try:
                    vals_b[(p.speciesA, p.speciesB, r)] = p.energy(r)
                except Exception:
                    vals_b[(p.speciesA, p.speciesB, r)] = None
        run.case(key=("history", cfg), kind="history/" + target, sample=dict(target=target, kind=kind) if idx < 2 else None)
        run.traces += 4
        if vals_a != vals_b:
            nb += 1
            diff = [k for k in vals_a if vals_a[k] != vals_b.get(k)][:3]
            run.fail("history-dependent-energy", "energy of a potential depends on the evaluation history: %s" % [(k, vals_a[k], vals_b.get(k)) for k in diff], dict(potable_file=cfg))
        for hname, out in histories:
            if out != ref:
                nb += 1
                if nb <= 3:
                    run.fail("history-dependent-output", "target %s: output after history '%s' differs from a fresh build" % (target, hname), dict(potable_file=cfg, history=hname))
                break
    # ---- (b) hash seeds ------------------------------------------------------------------------------------------------------------
    seeds = [0, 1, 2, 3] if run.quick else list(range(16))
    hs_models = [("pair", pair_model(rng), "LAMMPS"), ("eam", eam_model(rng, False), "setfl"), ("eam-under", eam_model(rng, False, True), "setfl"), ("eam-under", eam_model(rng, False, True), "DL_POLY_EAM"),
                 ("fs-under", eam_model(rng, True, True), "setfl_fs"), ("fs", eam_model(rng, True), "DL_POLY_EAM_fs")]
    if not run.quick:
        hs_models += [("eam-under", eam_model(rng, False, True), "setfl") for _ in range(4)] + [("fs-under", eam_model(rng, True, True), "DL_POLY_EAM_fs") for _ in range(3)]
    for kind, body, target in hs_models:
        cfg = tab_section(target) + body
        outs = {}
        for s in seeds:
            r = impl.potable_subprocess(cfg, env={"PYTHONHASHSEED": str(s)})
            outs[s] = (r["rc"], digest(r["output"] or ""), (r["output"] or "").split("\n")[3:4])
        run.case(key=("hashseed", cfg), kind="hashseed/" + kind)
        run.traces += len(seeds)
        if len(set((v[0], v[1]) for v in outs.values())) != 1:
            key = "eam-zero-filled-species-set-order" if "under" in kind else "hash-seed-dependent-output"
            run.fail(key, "target %s: output differs between processes with different PYTHONHASHSEED: %s" % (target, {s: (v[1], v[2]) for s, v in outs.items()}), dict(potable_file=cfg, outputs={str(s): v for s, v in outs.items()}))


    same_model_through_overrides(run)
    # several --add-item / --override-item options: the order in which they are applied must not depend on the hash seed
    base = tab_section("LAMMPS") + "[Pair]\nA-A : as.buck 1000.0 0.3 10.0\n"
    adds = ["Pair:%s-%s=as.buck %d.0 0.3 %d.0" % (a, b, 500 + 37 * i, i) for i, (a, b) in enumerate([("B", "B"), ("A", "B"), ("C", "A"), ("C", "C"), ("D", "A")])]
    outs = {}
    for s_ in seeds:
        args = []
        for a in adds:
            args += ["--add-item", a]
        args += ["--override-item", "Tabulation:nr=6", "--override-item", "Pair:A-A=as.buck 900.0 0.3 1.0"]
        r = impl.potable_subprocess(base, args=args, env={"PYTHONHASHSEED": str(s_)})
        outs[s_] = (r["rc"], digest(r["output"] or ""), [l for l in (r["output"] or "").split("\n") if "-" in l and l[:1].isalpha()])
    run.case(key=("hashseed-cli-options",), kind="hashseed/cli-options")
    run.traces += len(seeds)
    if len(set((v[0], v[1]) for v in outs.values())) != 1 or any(v[0] != 0 for v in outs.values()):
        run.fail("hash-seed-dependent-output", "potable with five --add-item options: output differs between processes with different PYTHONHASHSEED (block order %s)" % {s_: v[2] for s_, v in outs.items()},
                 dict(potable_file=base, add_items=adds))


def same_model_through_overrides(run):
    """the same model reached three ways - read as it is, read with an item overridden by the value it already has, read from a file in which that item holds another
    value and overridden to the value - gives the same bytes: the output is a function of the model, not of how the parser object was arrived at (block order
    included: an overridden entry stays where it stands in the file; round-8 seed C12_14)"""
    from atsim.potentials.config import ConfigParser, Configuration
    import collections
    T = collections.namedtuple("T", ["section", "key", "value"])
    rng = run.rng
    for rep in range(run.n(6, 40)):
        target = rng.choice(["LAMMPS", "GULP", "DLPOLY", "setfl"])
        labels = rng.sample(["Al", "Cu", "Ag", "Zr", "Ni"], 3)
        pairs = [(a, b) for i_, a in enumerate(labels) for b in labels[i_:]]
        rng.shuffle(pairs)
        vals = {p_: "as.buck %d.0 0.3 %d.0" % (rng.randint(200, 2000), rng.randint(0, 30)) for p_ in pairs}
        eam = target == "setfl"
        head = tab_section(target, nr=8 if target != "DLPOLY" else 8)

        def text(v):
            t = head + "[Pair]\n" + "".join("%s-%s : %s\n" % (a, b, v[(a, b)]) for a, b in pairs)
            if eam:
                t += "\n[EAM-Embed]\n" + "".join("%s : as.sqrt %d.0\n" % (l, 2 + i_) for i_, l in enumerate(labels))
                t += "\n[EAM-Density]\n" + "".join("%s : as.bornmayer %d.0 0.5\n" % (l, 5 + i_) for i_, l in enumerate(labels))
            return t
        victim = pairs[rng.randrange(len(pairs) - 1)]                     # not the last entry of the section
        sec, key, val = "Pair", "%s-%s" % victim, vals[victim]
        if eam and rng.random() < 0.5:
            sec, key, val = "EAM-Embed", labels[0], "as.sqrt 2.0"
        other = dict(vals)
        plain = text(vals)
        if sec == "Pair":
            other[victim] = "as.buck 1.0 0.5 0.0"
            detour = text(other)
        else:
            detour = plain.replace("%s : as.sqrt 2.0" % labels[0], "%s : as.sqrt 77.0" % labels[0], 1)
        binary = False
        try:
            b0 = write_bytes(Configuration().read(io.StringIO(plain)), binary)
            b1 = write_bytes(Configuration().read_from_parser(ConfigParser(io.StringIO(plain), overrides=[T(sec, key, val)])), binary)
            b2 = write_bytes(Configuration().read_from_parser(ConfigParser(io.StringIO(detour), overrides=[T(sec, key, val)])), binary)
        except Exception as e:
            run.fail("override-changes-model", "target %s: reading the model with [%s] %s overridden raised %s: %s" % (target, sec, key, type(e).__name__, str(e)[:200]), dict(potable_file=plain))
            continue
        run.case(key=("same-model-overrides", plain, sec, key), kind="same-model/overrides/%s" % target)
        run.traces += 3
        if not (b0 == b1 == b2):
            which = "overridden by the value it already has" if b0 != b1 else "reached from a file that held another value"
            run.fail("override-changes-model", "target %s: the model read as it is and the same model with [%s] %s %s give different bytes (%s vs %s)" % (
                target, sec, key, which, digest(b0), digest(b1 if b0 != b1 else b2)), dict(potable_file=plain, override=[sec, key, val], other_file=detour))


def replay(run, payload):
    print("replay:", payload.get("case"))
    return 2
