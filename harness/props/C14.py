"""C14 - --override-item / --add-item / --remove-item equal editing the file by hand.
For generated pair models and operation sequences (whitespace variants of keys, repeated keys, several options of each kind, removal of a section's last key, missing sections/keys):
(1) ConfigParser(overrides=, additional=) vs `Atsim.applyOps` (raw parser content, outcome class);
(2) the same operations applied BY HAND to the file text (keys compared modulo embedded whitespace), then: parsed content, tabulated bytes (potable entry point with -e/-a/-r vs potable on the
    edited file) and --list-items / --item-value output must coincide; rejection rules; every item listed exactly once."""
import io
import collections

from common import lean_query
import impl

from atsim.potentials.config import ConfigParser, ConfigParserOverrideTuple as T
from atsim.potentials.config._common import ConfigurationException


def norm(k):
    return k.strip().replace(" ", "").replace("\t", "")


def variant(rng, key):
    """a whitespace variant of a key"""
    if rng.random() < 0.5:
        return key
    out = ""
    for ch in key:
        if ch in "-,(>" and rng.random() < 0.6:
            out += rng.choice([" ", ""]) + ch + rng.choice([" ", "", "\t"])
        else:
            out += ch
    return out


def gen_file(rng):
    """structured potable pair model: OrderedDict section -> list of [rawkey, value]"""
    # (labels that differ only in case are different species and different keys: round-10 seed C14_15 folded the case of command-line keys)
    species = rng.sample(["A", "B", "O", "Si", "Xe", "U"] + (["SI", "a", "xe", "o"] if rng.random() < 0.35 else []), rng.randint(2, 4))
    secs = collections.OrderedDict()
    if rng.random() < 0.25:
        secs["Variables"] = [["scale", "2.0"], ["unused var", "7"]][: rng.randint(1, 2)]
    secs["Tabulation"] = [["target", rng.choice(["LAMMPS", "GULP"])], ["cutoff", "4.0"], ["nr", str(rng.choice([5, 9, 11]))]]
    pairs, seen = [], set()
    for _ in range(rng.randint(1, 5)):
        a, b = rng.choice(species), rng.choice(species)
        if frozenset((a, b)) in seen:
            continue
        seen.add(frozenset((a, b)))
        pairs.append([variant(rng, "%s-%s" % (a, b)), rng.choice(["as.buck %d.0 0.3 %d.0" % (rng.randint(100, 999), rng.randint(0, 30)), "myform %d.5" % rng.randint(1, 9), "as.zero"])])
    if pairs and rng.random() < 0.2:
        # a second pair whose key differs from an existing one in case only: another species, another item
        twin = norm(pairs[0][0]).upper()
        if twin != norm(pairs[0][0]) and all(norm(k) != twin for k, _v in pairs):
            pairs.append([twin, "as.buck 321.0 0.3 1.0"])
    secs["Pair"] = pairs
    secs["Potential-Form"] = [[variant(rng, "myform(r,a)"), "a*exp(-r)"]] + ([[variant(rng, "other(r, b, c)"), "b+c*r"]] if rng.random() < 0.4 else [])
    if rng.random() < 0.3:
        secs["Table-Form:tab"] = [["x", "0 1 2 3 4"], ["y", "4 3 2 1 0"]]
    if rng.random() < 0.3:
        secs["Notes"] = [["author", "someone"], ["A-B", "orphan key that looks like a pair"]]
    if rng.random() < 0.15:
        # a section called exactly [Table-Form] (no :NAME): nothing reads it, but its items are items of the file
        secs["Table-Form"] = [["x", "1 2"], ["remark", "no name given"]][: rng.randint(1, 2)]
    if rng.random() < 0.35:
        # a known section whose items are neither potentials nor forms ([Species]): its items are items of the file like any other (seed C14_6)
        sp = rng.choice(species)
        secs["Species"] = [["%s.atomic_mass" % sp, "12.5"], ["%s.charge" % sp, "-2.0"]][: rng.randint(1, 2)]
    # sections other targets read (EAM, Finnis-Sinclair, ADP): a pair target does not use them, but their items are items of the file all the same - listed once,
    # overridable, removable (round-6 seed C14_12: a section dropped from the listing by a change of the parser's section registry)
    for sname, style in (("EAM-Embed", "one"), ("EAM-Density", rng.choice(["one", "arrow"])), ("EAM-ADP-Dipole", "pair"), ("EAM-ADP-Quadrupole", "pair")):
        if rng.random() < 0.25:
            ents, used = [], set()
            for _ in range(rng.randint(1, 3)):
                a, b = rng.choice(species), rng.choice(species)
                key = a if style == "one" else ("%s->%s" % (a, b) if style == "arrow" else "%s-%s" % (a, b))
                ident = key if style != "pair" else "-".join(sorted((a, b)))
                if ident in used:
                    continue
                used.add(ident)
                ents.append([variant(rng, key) if style == "pair" else key, rng.choice(["as.sqrt %d.0" % rng.randint(1, 9), "as.zero", "as.exponential 1.0 %d.0" % rng.randint(1, 4)])])
            secs[sname] = ents
    return secs, species


def render(secs):
    t = ""
    for name, kvs in secs.items():
        t += "[%s]\n" % name
        for k, v in kvs:
            t += "%s : %s\n" % (k, v)
        t += "\n"
    return t


def gen_ops(rng, secs, species):
    # ([Variables] entries are items like any other: overridden, removed - the last one included - and added; they are given less weight than the sections' items)
    existing = [(s, k) for s, kvs in secs.items() for k, v in kvs if s != "Variables" or rng.random() < 0.5]
    ops = []
    for _ in range(rng.randint(1, 5)):
        kind = rng.choice(["override", "override", "remove", "add", "add"])
        r = rng.random()
        if kind in ("override", "remove"):
            if r < 0.8 and existing:
                s, k = rng.choice(existing)
                k = variant(rng, norm(k)) if rng.random() < 0.6 else k
            else:
                # items that do not exist - including a key that exists only as a [Variables] entry (variables are not items of other sections)
                varkeys = [("Pair", kk) for kk, vv in secs.get("Variables", [])] + [("Potential-Form", kk) for kk, vv in secs.get("Variables", [])]
                s, k = rng.choice([("Pair", "Zz-Zz"), ("Missing", "x"), ("Tabulation", "dr")] + varkeys)
            if kind == "remove":
                ops.append(["remove", s, k])
            else:
                v = {"Tabulation": {"nr": "7", "cutoff": "3.0", "target": "LAMMPS"}.get(norm(k), "1")}.get(s, "as.buck 555.0 0.25 1.0" if s == "Pair" else ("a+r" if s == "Potential-Form" else ("0 1 2 3 5" if s.startswith("Table-Form") and norm(k) == "x" else ("4 3 2 1 0.5" if s.startswith("Table-Form") else "new value"))))
                ops.append(["override", s, k, v])
        else:
            if r < 0.7:
                a, b = rng.choice(species), rng.choice(["Kr", "Ne", "Ar"])
                ops.append(["add", "Pair", variant(rng, "%s-%s" % (a, b)), "as.buck 123.0 0.3 0.0"])
            elif r < 0.85 and existing:
                s, k = rng.choice(existing)
                ops.append(["add", s, variant(rng, norm(k)), "as.zero" if s == "Pair" else "dup"])
            elif r < 0.89 and secs.get("Variables"):
                # a new variable, or one that exists already (refused)
                ops.append(["add", "Variables", rng.choice(["extra", "scale", "unused  var"]), "3.5"])
            elif r < 0.93 and secs.get("Variables"):
                # adding a [Pair] item whose key is the name of a variable is a plain addition (of a malformed pair key: the outcome must equal the hand edit's)
                ops.append(["add", "Extra", secs["Variables"][0][0], "named like a variable"])
            else:
                ops.append(["add", "Extra", "note", "hello"])
    # an item named again after its removal (API route: the operations are applied one after the other to the file as the earlier ones left it - seed C14_14)
    removed = [o for o in ops if o[0] == "remove"]
    if removed and rng.random() < 0.35:
        o = rng.choice(removed)
        ops.append(rng.choice([["remove", o[1], o[2]], ["override", o[1], o[2], "as.buck 999.0 0.25 1.0" if o[1] == "Pair" else "1"]]))
    # two items of one section whose keys differ in case only are overridden in ONE invocation, each with its own value (round-10 seed C14_15: the command line
    # collected its options under a case-folded key, the earlier option was dropped)
    twins = [(s, k1, k2) for s, kvs in secs.items() for i, (k1, _a) in enumerate(kvs) for (k2, _b) in kvs[i + 1:] if norm(k1) != norm(k2) and norm(k1).lower() == norm(k2).lower()]
    if twins and rng.random() < 0.6:
        s, k1, k2 = rng.choice(twins)
        if s == "Pair":
            ops += [["override", s, k1, "as.buck 555.0 0.25 1.0"], ["override", s, k2, "as.buck 777.0 0.25 2.0"]]
    return ops


def by_hand(secs, ops):
    """the specification: apply overrides, then removals, then additions by hand; keys match modulo embedded whitespace. -> ('ok', secs) | ('config_error', why)"""
    secs = collections.OrderedDict((s, [list(kv) for kv in kvs]) for s, kvs in secs.items())
    ordered = [o for o in ops if o[0] == "override"] + [o for o in ops if o[0] == "remove"] + [o for o in ops if o[0] == "add"]
    for o in ordered:
        kind, s, k = o[0], o[1], o[2]
        idx = None
        if s in secs:
            for i, (kk, vv) in enumerate(secs[s]):
                if norm(kk) == norm(k):
                    idx = i
        if kind == "override":
            if idx is None:
                return "config_error", "override of missing item"
            secs[s][idx][1] = o[3]
        elif kind == "remove":
            if idx is None:
                return "config_error", "removal of missing item"
            del secs[s][idx]
            if not secs[s]:
                del secs[s]
        else:
            if idx is not None:
                return "config_error", "add of existing item"
            secs.setdefault(s, []).append([k, o[3]])
    return "ok", secs


def lines_of(secs):
    out = []
    for name, kvs in secs.items():
        out.append(["sec", name])
        for k, v in kvs:
            out.append(["kv", k, v])
    return out


def raw_content(cp):
    rp = cp.raw_config_parser
    return [[s, [[k, v] for k, v in rp._sections[s].items()]] for s in rp.sections()], [[k, v] for k, v in rp._defaults.items()]


def cli_args(ops):
    a = []
    for o in ops:
        if o[0] == "override":
            a += ["-e", "%s:%s=%s" % (o[1], o[2], o[3])]
        elif o[0] == "remove":
            a += ["-r", "%s:%s" % (o[1], o[2])]
        else:
            a += ["-a", "%s:%s=%s" % (o[1], o[2], o[3])]
    return a


def check(run):
    import genlib
    genlib.validate_cli_operations(run, n=run.n(200, 3000))
    run.rule = ("generated pair models (Tabulation, Pair with whitespace-variant keys, Potential-Form, optionally Variables / Table-Form / an unrelated section) x 1..5 operations "
                "(override / remove / add; existing keys incl. whitespace variants, missing keys and sections, adds of existing keys, repeated keys); API and command line; "
                "distinct = (file text, operation list)")
    run.assumptions += ["configparser's line splitting (delimiters, continuation lines, comments) is the standard library's", "the by-hand edit applies overrides, then removals, then additions, "
                        "matching keys modulo embedded whitespace"]
    rng = run.rng
    cases = []
    for _ in range(run.n(220, 4000)):
        secs, species = gen_file(rng)
        cases.append((secs, species, gen_ops(rng, secs, species)))
    reqs = []
    for secs, species, ops in cases:
        reqs.append(dict(m="ini", op="apply", lines=lines_of(secs), overrides=[o for o in ops if o[0] == "override"], removes=[o for o in ops if o[0] == "remove"],
                         additional=[o for o in ops if o[0] == "add"]))
    models = lean_query(reqs)
    # the REGENERATED override loops of _init_config_parser (Gen/Logic.lean `apply_overrides`, on the model's parser operations - `C14_code_apply_overrides` proves they are
    # `applyOps`) answer the same requests: a disagreement with the real parser below is a broken translator tie
    import genlib
    gen_ok, gen_log = genlib.build_gen()
    if not gen_ok:
        run.tie_broken("translator", "Gen/Logic.lean (apply_overrides)", "the regenerated definitions (or their driver) do not build: " + gen_log[-600:])
        gens = [None] * len(reqs)
    else:
        gens = genlib.query_gen([dict(op="apply_overrides", lines=r["lines"], overrides=r["overrides"] + r["removes"], additional=r["additional"]) for r in reqs])
    # the REGENERATED `_list_items` (with `parsed_sections` / `orphan_sections`; `C14_code_list_items` proves what it lists) on the same files, against the real function
    if gen_ok:
        from atsim.potentials.tools.potable._query_actions import _list_items
        sub = cases[: run.n(60, 600)]
        from atsim.potentials.tools.potable._query_actions import _item_value

        def queries(secs):
            return (["%s:%s" % (sec, k_) for sec, kvs in secs.items() for k_, v_ in kvs] +
                    ["Pair:Zz-Zz", "Nope:x", "nocolon", "Variables:scale", "Variables:zz", ":x", "Tabulation:", "Table-Form:tab:x", "Table-Form:tab:q"])
        lg = genlib.query_gen([dict(op="list_items", lines=lines_of(secs), queries=queries(secs)) for secs, _, _ in sub])
        nlb = 0
        for (secs, species, ops), a in zip(sub, lg):
            text = render(secs)
            try:
                cp0 = ConfigParser(io.StringIO(text))
                real = [[k_, v_] for k_, v_ in _list_items(cp0)]
                rv = []
                for q in queries(secs):
                    try:
                        rv.append(["ok", _item_value(cp0, q)])
                    except ConfigurationException as e:
                        rv.append(["error", "malformedOption" if "does not name an item" in str(e) else "missing"])
                    except Exception as e:
                        rv.append(["internal", type(e).__name__])
            except Exception as e:
                real, rv = "raised %s: %s" % (type(e).__name__, str(e)[:80]), None
            run.traces += 1
            run.dist["translator-validation/list_items+item_value"] += 1
            if rv != a["values"]:
                nlb += 1
                if nlb <= 2:
                    run.tie_broken("translator", "generated _item_value vs the real function", "file %r: %s" % (text[:400], [(q, x, y) for q, x, y in zip(queries(secs), rv or [], a["values"]) if x != y][:4]))
            a = a["items"]
            if real != a:
                nlb += 1
                if nlb <= 2:
                    run.tie_broken("translator", "generated _list_items vs the real function", "file %r: real %s generated %s" % (text[:400], str(real)[:300], str(a)[:300]))
        genlib.validate_raw_parser(run, [(render(secs), lines_of(secs), secs) for secs, _, _ in cases], n=run.n(40, 400))
    counts = collections.Counter()
    for (secs, species, ops), mo, ge in zip(cases, models, gens):
        text = render(secs)
        ovs = [T(o[1], o[2], o[3]) for o in ops if o[0] == "override"] + [T(o[1], o[2], None) for o in ops if o[0] == "remove"]
        ads = [T(o[1], o[2], o[3]) for o in ops if o[0] == "add"]
        try:
            cp = ConfigParser(io.StringIO(text), overrides=ovs, additional=ads)
            got = ("ok", raw_content(cp))
        except ConfigurationException as e:
            got = ("config_error", type(e).__name__)
        except Exception as e:
            got = ("internal:" + type(e).__name__, str(e)[:100])
        spec = by_hand(secs, ops)
        run.case(key=(text, str(ops)), kind="api/%s" % spec[0], sample=dict(file=text, ops=ops) if run.evaluations < 2 else None)
        run.traces += 1
        desc = dict(potable_file=text, operations=ops)
        ws = any(o[2] != norm(o[2]) or True for o in ops) and any(norm(o[2]) != o[2].strip() or any(norm(k) == norm(o[2]) and k.strip() != o[2].strip() for kvs in secs.values() for k, v in kvs) for o in ops)
        if spec[0] != got[0]:
            counts["outcome"] += 1
            if counts["outcome"] <= 3:
                key = "override-key-whitespace" if ws else "override-outcome"
                run.fail(key, "operations %s: outcome %s, editing the file by hand gives %s (%s)" % (ops, got[0] if got[0] != "ok" else "accepted", spec[0], spec[1] if spec[0] != "ok" else "accepted"), dict(case=desc))
            continue
        if spec[0] == "ok":
            try:
                want = raw_content(ConfigParser(io.StringIO(render(spec[1]))))
            except Exception as e:
                want = ("edited file unreadable", str(e)[:100])
            if want != got[1]:
                counts["content"] += 1
                if counts["content"] <= 3:
                    run.fail("override-key-whitespace" if ws else "override-content", "operations %s: resulting items %s, the hand-edited file holds %s" % (ops, got[1], want), dict(case=desc, hand_edited_file=render(spec[1])))
                continue
        # model correspondence
        if "err" in mo:
            mgot = ("config_error",)
        else:
            mgot = ("ok", ([[s, kvs] for s, kvs in mo["ini"]["sections"]], mo["ini"]["vars"]))
        if mgot[0] != got[0] or (got[0] == "ok" and mgot[1] != got[1]):
            counts["tie"] += 1
            if counts["tie"] <= 2:
                run.tie_broken("correspondence", "Atsim.applyOps vs ConfigParser(overrides=, additional=)", "file %r ops %s: impl %s model %s" % (text, ops, got, mgot))
        if ge is not None:
            ggot = ("config_error",) if "err" in ge else ("ok", ([[s, kvs] for s, kvs in ge["ini"]["sections"]], ge["ini"]["vars"]))
            run.dist["translator-validation/apply_overrides"] += 1
            if ggot[0] != got[0] or (got[0] == "ok" and ggot[1] != got[1]):
                counts["gentie"] += 1
                if counts["gentie"] <= 2:
                    run.tie_broken("translator", "generated _init_config_parser override loops vs ConfigParser(overrides=, additional=)", "file %r ops %s: impl %s generated %s" % (text, ops, got, ggot))
    # ---- command line: bytes, --list-items, --item-value ---------------------------------------------------------------------------------
    nb = 0
    scen = collections.OrderedDict([("Tabulation", [["target", "LAMMPS"], ["cutoff", "4.0"], ["nr", "9"]]),
                                    ("Pair", [["A-B", "as.buck 100.0 0.3 1.0"], ["B-B", "myform 2.5"], ["O - O", "as.zero"]]),
                                    ("Potential-Form", [["myform(r, a)", "a*exp(-r)"]]), ("Notes", [["A-B", "same key as a pair"], ["eq", "x=1"]])])
    scenarios = [
        [["override", "Pair", "A-B", "as.buck 200.0 0.3 1.0"], ["remove", "Pair", "A - B"]],                      # override then removal of the same item under two spellings
        [["remove", "Pair", "B-B"], ["add", "Pair", "B-B", "as.buck 7.0 0.3 0.0"]],                              # removal makes room for an addition
        [["override", "Pair", "A-B", "as.buck 300.0 0.3 1.0"], ["override", "Notes", "A-B", "changed"]],          # same key in two sections
        [["override", "Notes", "eq", "a=b=c"], ["override", "Potential-Form", "myform(r,a)", "if(r >= 1, a, 2*a)"]],   # values containing '='
        [["override", "Pair", "O-O", "as.buck 1.0 0.3 0.0"], ["override", "Pair", "O - O", "as.buck 2.0 0.3 0.0"]],   # two spellings of one key: both applied in order
        [["override", "Potential-Form", "myform(r,a)", "a+r"], ["override", "Potential-Form", "myform (r ,\ta)", "a+r+1"], ["remove", "Potential-Form", "myform(r,a)"],
         ["override", "Pair", "B-B", "as.buck 1.0 0.3 0.0"]],                                                       # one item overridden and removed under different spellings
        [["remove", "Notes", "eq"], ["remove", "Notes", "A-B"]],                                                    # removing the last keys drops the section
        [["add", "Notes", "eq ", "again"]],                                                                         # add of an existing key (trailing blank)
        [["add", "Pair", "A-O", "as.zero"], ["add", "Pair", "A-O", "as.buck 9.0 0.3 0.0"]],                         # one new item added twice: the second addition finds it there
        [["add", "Pair", "A-O", "as.zero"], ["override", "Pair", "B-B", "myform 3.5"], ["add", "Pair", "A - O", "as.buck 9.0 0.3 0.0"]],   # ... under two spellings
        [["add", "Potential-Form", "other(r,b)", "b*r"], ["add", "Potential-Form", "other(r, b)", "b+r"]],
    ]
    cli_cases = [(scen, ["A", "B", "O"], o) for o in scenarios] + cases[: run.n(70, 1200)]
    for (secs, species, ops) in cli_cases:
        text = render(secs)
        # command line: several -e / -r options naming the same item (SECTION:KEY, the key modulo embedded whitespace - the property's own matching rule) count once,
        # the last one given wins, removals after overrides (documented behaviour of the option parser)
        dd = collections.OrderedDict()
        for o in [o for o in ops if o[0] == "override"] + [o for o in ops if o[0] == "remove"]:
            dd[(o[1], norm(o[2]))] = o
        spec = by_hand(secs, list(dd.values()) + [o for o in ops if o[0] == "add"])
        args = cli_args(ops)
        r1 = impl.potable_cli(text, args=args)
        run.case(key=("cli", text, str(ops)), kind="cli/%s" % spec[0])
        run.traces += 1
        desc = dict(potable_file=text, operations=ops, command_line=args)
        if spec[0] != "ok":
            if r1["rc"] == 0 or "configuration error" not in r1["stderr"]:
                nb += 1
                if nb <= 3:
                    run.fail("override-outcome", "potable %s: exit %s %s; editing by hand: %s" % (args, r1["rc"], r1["stderr"][-150:], spec[1]), dict(case=desc))
            continue
        edited = render(spec[1])
        r2 = impl.potable_cli(edited)
        same = (r1["rc"] == r2["rc"]) and (r1["rc"] != 0 or r1["output"] == r2["output"])
        if not same:
            nb += 1
            if nb <= 3:
                run.fail("override-output-differs-from-edited-file", "potable %s: exit %s, %s bytes; the hand-edited file: exit %s, %s bytes (%s)" % (
                    args, r1["rc"], len(r1["output"] or ""), r2["rc"], len(r2["output"] or ""), (r1["stderr"] or r2["stderr"])[-160:]), dict(case=desc, hand_edited_file=edited))
            continue
        l1 = impl.potable_cli(text, args=args + ["--list-items"], want_output=False)
        l2 = impl.potable_cli(edited, args=["--list-items"], want_output=False)
        items1 = sorted(l1["stdout"].split("\n"))
        items2 = sorted(l2["stdout"].split("\n"))
        # ([Variables] entries are items too: they are addressed as Variables:NAME by --override-item / --add-item / --item-value, and are what a user looks for
        #  in the listing in order to override them)
        expected = sorted(["%s:%s=%s" % (s, norm(k), v) for s, kvs in spec[1].items() for k, v in kvs] + [""])
        if l1["rc"] != 0 or items1 != items2:
            nb += 1
            if nb <= 3:
                run.fail("list-items", "--list-items with %s differs from --list-items of the hand-edited file: %s vs %s" % (args, items1[:8], items2[:8]), dict(case=desc))
        elif items1 != expected:
            missing = [x for x in expected if x not in items1]
            extra = [x for x in items1 if x not in expected]
            dup = [x for x, n in collections.Counter(items1).items() if n > 1 and x]
            key = "list-items-omits-table-form" if any(m.startswith("Table-Form") for m in missing) and not extra and not dup else (
                "list-items-omits-variables" if missing and all(m.startswith("Variables:") for m in missing) and not extra and not dup else ("list-items-variables-leak" if "Variables" in spec[1] else "list-items"))
            run.fail(key, "--list-items does not report every item exactly once: missing %s, unexpected %s, repeated %s" % (missing[:5], extra[:5], dup[:5]), dict(case=desc))
        else:
            # --item-value for one random item
            s, kvs = rng.choice([(s, kvs) for s, kvs in spec[1].items() if kvs])
            k, v = rng.choice(kvs)
            q = impl.potable_cli(text, args=args + ["--item-value", "%s:%s" % (s, k)], want_output=False)
            if q["rc"] != 0 or q["stdout"].rstrip("\n") != v:
                run.fail("override-key-whitespace" if k != norm(k) else "item-value", "--item-value %s:%s gives %r (exit %s), the edited file holds %r" % (s, k, q["stdout"][:80], q["rc"], v), dict(case=desc))
    cli_edge_scenarios(run)


def cli_edge_scenarios(run):
    """values and item specifications as a user types them on a command line (found through a seeding agent's side remarks)"""
    base = "[Variables]\nA : 1000.0\n\n[Tabulation]\ntarget : LAMMPS\ncutoff : 4.0\nnr : 9\n\n[Pair]\nSi-O : as.buck ${A} 0.3 1.0\n\n"

    def outcome(r):
        if r["rc"] == 0:
            return "ok"
        return "config_error" if "configuration error" in r["stderr"] else "internal: " + r["stderr"].strip().split("\n")[-1][:120]
    # (a) a value holding a '$' that does not open a placeholder: by hand a configuration error - the same through the options
    for opt, item in (("-e", "Pair:Si-O=as.buck $A 0.2 1.0"), ("-a", "Pair:O-O=as.buck $A 0.2 1.0")):
        hand = base.replace("as.buck ${A} 0.3 1.0", "as.buck $A 0.2 1.0") if opt == "-e" else base.replace("as.buck ${A} 0.3 1.0\n", "as.buck ${A} 0.3 1.0\nO-O : as.buck $A 0.2 1.0\n")
        want, got = outcome(impl.potable_cli(hand)), outcome(impl.potable_cli(base, args=[opt, item]))
        run.case(key=("cli-edge", opt, item), kind="cli-edge/dollar")
        if got != want:
            run.fail("override-outcome", "potable %s %r: %s; the file edited by hand: %s" % (opt, item, got, want), dict(potable_file=base, command_line=[opt, item], hand_edited_file=hand))
    # (b) blanks around the value, as in 'KEY = VALUE': the INI reader strips them from a value written in the file
    for opt, item, hand in (("-e", "Tabulation:target = GULP", base.replace("target : LAMMPS", "target :   GULP  ")),
                            ("-a", "Pair:O-O =  as.buck 5.0 0.3 0.0 ", base.replace("as.buck ${A} 0.3 1.0\n", "as.buck ${A} 0.3 1.0\nO-O =  as.buck 5.0 0.3 0.0 \n"))):
        r1, r2 = impl.potable_cli(base, args=[opt, item]), impl.potable_cli(hand)
        run.case(key=("cli-edge", opt, item), kind="cli-edge/value-blanks")
        if outcome(r1) != outcome(r2) or r1["output"] != r2["output"]:
            run.fail("override-output-differs-from-edited-file", "potable %s %r: %s, %s bytes; the hand-edited file: %s, %s bytes" % (opt, item, outcome(r1), len(r1["output"] or ""), outcome(r2), len(r2["output"] or "")),
                     dict(potable_file=base, command_line=[opt, item], hand_edited_file=hand))
        q = impl.potable_cli(base, args=[opt, item, "--item-value", item.split("=")[0].strip()], want_output=False)
        wantv = item.split("=", 1)[1].strip()
        if q["rc"] != 0 or q["stdout"].rstrip("\n") != wantv:
            run.fail("item-value", "--item-value after %s %r gives %r, the edited file holds %r" % (opt, item, q["stdout"].rstrip("\n"), wantv), dict(potable_file=base, command_line=[opt, item]))
    # (c) asking for the value of an item that does not exist: a configuration error like overriding or removing one, not a traceback
    for key in ("Pair:Zz-Zz", "Missing:x", "Variables:B"):
        r = impl.potable_cli(base, args=["--item-value", key], want_output=False)
        run.case(key=("cli-edge", "item-value", key), kind="cli-edge/item-value-missing")
        if outcome(r) != "config_error":
            run.fail("item-value", "--item-value %s (no such item): %s, expected a configuration error" % (key, outcome(r)), dict(potable_file=base, command_line=["--item-value", key]))


    # (e) an item given with an EMPTY section name (':KEY'): no file holds a section without a name (the INI reader refuses a '[]' header), so the item does not exist:
    #     overriding or removing it is a configuration error, and so is adding it (the edited file could not be written by hand) - on the command line and through
    #     ConfigParser(overrides=, additional=); never a traceback, never a table
    for opt, item in (("-e", ":A=5.0"), ("-r", ":A"), ("-a", ":B=5.0"), ("-e", ":nokey=1")):
        r = impl.potable_cli(base, args=[opt, item])
        run.case(key=("cli-edge", "empty-section", opt, item), kind="cli-edge/empty-section-name")
        run.traces += 1
        if outcome(r) != "config_error":
            run.fail("override-empty-section", "potable %s %r (an item of a section without a name - no such item can exist in a file): %s, expected a configuration error" % (opt, item, outcome(r)),
                     dict(potable_file=base, command_line=[opt, item]))
        sk = item.split("=", 1)[0].rsplit(":", 1)
        val = None if opt == "-r" else item.split("=", 1)[1]
        try:
            ConfigParser(io.StringIO(base), **({"additional": [T(sk[0], sk[1], val)]} if opt == "-a" else {"overrides": [T(sk[0], sk[1], val)]}))
            a = "ok"
        except ConfigurationException:
            a = "config_error"
        except Exception as e:
            a = "internal: %s: %s" % (type(e).__name__, e)
        if a != "config_error":
            run.fail("override-empty-section", "ConfigParser(%s=[(%r, %r, %r)]): %s, expected a configuration error" % ("additional" if opt == "-a" else "overrides", sk[0], sk[1], val, a),
                     dict(potable_file=base, operation=[opt, item]))

    # (d) placeholders whose resolution the edits change: a variable defined only by an addition, a variable overridden, a variable removed while it is still used,
    #     a value overridden with one that names an undefined variable - each must behave as the file edited by hand does (bytes, or configuration error), on the
    #     command line and through ConfigParser(overrides=, additional=)
    undefined = base.replace("as.buck ${A} 0.3 1.0", "as.buck ${A} 0.3 ${C}")
    ph = [
        (undefined, ["-a", "Variables:C=2.0"], undefined.replace("A : 1000.0\n", "A : 1000.0\nC : 2.0\n")),
        (undefined, ["-a", "Variables:C=2.0", "-e", "Variables:A=500.0"], undefined.replace("A : 1000.0\n", "A : 500.0\nC : 2.0\n")),
        (base, ["-e", "Variables:A=250.0"], base.replace("A : 1000.0", "A : 250.0")),
        (base, ["-r", "Variables:A"], base.replace("A : 1000.0\n", "")),
        (base, ["-e", "Pair:Si-O=as.buck ${Z} 0.3 1.0"], base.replace("as.buck ${A} 0.3 1.0", "as.buck ${Z} 0.3 1.0")),
        (base, ["-a", "Pair:O-O=as.buck ${A} 0.3 ${Z}"], base.replace("as.buck ${A} 0.3 1.0\n", "as.buck ${A} 0.3 1.0\nO-O : as.buck ${A} 0.3 ${Z}\n")),
        (base, ["-a", "Variables:Z=3.0", "-a", "Pair:O-O=as.buck ${A} 0.3 ${Z}"], base.replace("A : 1000.0\n", "A : 1000.0\nZ : 3.0\n").replace("as.buck ${A} 0.3 1.0\n", "as.buck ${A} 0.3 1.0\nO-O : as.buck ${A} 0.3 ${Z}\n")),
        # a value that names a variable which a LATER operation of the same invocation supplies (overrides run before additions; additions in the order given): the
        # edited file is what counts - placeholders are resolved when everything has been applied (round-8 seed C14_13)
        (base, ["-e", "Pair:Si-O=as.buck ${Anew} 0.3 1.0", "-a", "Variables:Anew=1200.0"], base.replace("A : 1000.0\n", "A : 1000.0\nAnew : 1200.0\n").replace("as.buck ${A} 0.3 1.0", "as.buck ${Anew} 0.3 1.0")),
        (base, ["-a", "Pair:O-O=as.buck ${A} 0.3 ${Z}", "-a", "Variables:Z=3.0"], base.replace("A : 1000.0\n", "A : 1000.0\nZ : 3.0\n").replace("as.buck ${A} 0.3 1.0\n", "as.buck ${A} 0.3 1.0\nO-O : as.buck ${A} 0.3 ${Z}\n")),
    ]
    for text, args, hand in ph:
        r1, r2 = impl.potable_cli(text, args=args), impl.potable_cli(hand)
        run.case(key=("cli-edge", "placeholders", str(args)), kind="cli-edge/placeholders")
        run.traces += 1
        if outcome(r1) != outcome(r2) or (outcome(r1) == "ok" and r1["output"] != r2["output"]):
            run.fail("override-placeholders", "potable %s on a file with placeholders: %s%s; the file edited by hand: %s" % (
                args, outcome(r1), "" if outcome(r1) != "ok" else ", %s bytes" % len(r1["output"] or ""), outcome(r2) + ("" if outcome(r2) != "ok" else ", %s bytes" % len(r2["output"] or ""))),
                dict(potable_file=text, command_line=args, hand_edited_file=hand))
        # the same through the API
        ovs, ads = [], []
        it = iter(args)
        for o in it:
            item = next(it)
            if o == "-r":
                sk = item.rsplit(":", 1)
                ovs.append(T(sk[0], sk[1], None))
            else:
                k, v = item.split("=", 1)
                sk = k.rsplit(":", 1)
                (ovs if o == "-e" else ads).append(T(sk[0], sk[1], v))

        def api(t, **kw):
            try:
                ConfigParser(io.StringIO(t), **kw)
                return "ok"
            except ConfigurationException:
                return "config_error"
            except Exception as e:
                return "internal: %s" % type(e).__name__
        a1, a2 = api(text, overrides=ovs, additional=ads), api(hand)
        if a1 != a2:
            run.fail("override-placeholders", "ConfigParser(overrides=%s, additional=%s) on a file with placeholders: %s; the file edited by hand: %s" % (
                [tuple(x) for x in ovs], [tuple(x) for x in ads], a1, a2), dict(potable_file=text, operations=args, hand_edited_file=hand))


def replay(run, payload):
    print("replay:", payload.get("case"))
    return 2
