"""C08 - multi-range selection.  Correspondence of `Atsim.selected` (= `_range_search` after the stable sort) with
Multi_Range_Potential_Form through the Python API and through potable definitions; the property's selection rule is
evaluated directly on the implementation (spec oracle below) and listing-order independence is checked on every case."""
import io
import itertools

from common import lean_query
import impl

from atsim.potentials import create_Multi_Range_Potential_Form, Multi_Range_Defn

LATTICE = [float("-inf"), 0.0, 0.75, 2.0, 3.5, 7.25]     # index i <-> model integer 2*i


class T8(object):
    """range tracer: value fid, deriv 100+fid, deriv2 200+fid"""

    def __init__(self, fid, derivs=True):
        self.fid = fid
        if derivs:
            self.deriv = lambda r: 100.0 + self.fid
            self.deriv2 = lambda r: 200.0 + self.fid

    def __call__(self, r):
        return float(self.fid)


def queries(start_idx):
    """model-integer query points: below, on and between every used start, and above the last"""
    used = sorted(set(start_idx))
    qs = set()
    for i in used:
        for d in (-1, 0, 1):
            qs.add(2 * i + d)
    return sorted(q for q in qs if q >= 1)      # nothing lies below or at -inf


def real_r(q):
    """model integer -> float separation"""
    if q % 2 == 0:
        return LATTICE[q // 2]
    lo = LATTICE[(q - 1) // 2] if q >= 1 else None
    hi = LATTICE[(q + 1) // 2] if (q + 1) // 2 < len(LATTICE) else None
    if lo is None or lo == float("-inf"):
        return hi - 1.0
    if hi is None:
        return lo + 1.0
    return (lo + hi) / 2.0


def spec_select(ranges, q):
    """The property's rule on the unordered collection: the containing range with the greatest start; at a shared start the
    inclusive range acts at r == start, an exclusive one (if any) above it.  Returns fid | None | 'ambiguous' (two candidates
    with the same start AND the same marker)."""
    cont = [t for t in ranges if q > 2 * t[1] or (t[0] and q == 2 * t[1])]
    if not cont:
        return None
    top = max(2 * t[1] for t in cont)
    cands = [t for t in cont if 2 * t[1] == top]
    if q == top:
        cands = [t for t in cands if t[0]]
    else:
        ex = [t for t in cands if not t[0]]
        cands = ex if ex else cands
    fids = set(t[2] for t in cands)
    return cands[0][2] if len(fids) == 1 else "ambiguous"


def has_dup(ranges):
    ks = [(t[0], t[1]) for t in ranges]
    return len(set(ks)) < len(ks)


def impl_select(ranges, qs, derivs=True):
    """observations of the real object: for each query (value->fid|None, deriv->fid|None, deriv2->fid|None)"""
    f = create_Multi_Range_Potential_Form(*[Multi_Range_Defn(">=" if inc else ">", LATTICE[si], T8(fid, derivs)) for (inc, si, fid) in ranges])
    out = []
    for q in qs:
        r = real_r(q)
        v = f(r)
        o = [None if v == 0.0 else int(v)]
        if derivs:
            d1, d2 = f.deriv(r), f.deriv2(r)
            o.append(None if d1 == 0.0 else int(d1) - 100)
            o.append(None if d2 == 0.0 else int(d2) - 200)
        out.append(o)
    return out


def potable_select(ranges, qs, first_unmarked):
    """same through a potable [Pair] entry; tracers as.polynomial 1000*fid fid (value 1000 fid + fid r, deriv fid)"""
    parts = []
    for i, (inc, si, fid) in enumerate(ranges):
        body = "as.polynomial %d.0 %d.0" % (1000 * fid, fid)
        if i == 0 and first_unmarked:
            parts.append(body)
        else:
            parts.append("%s%s %s" % (">=" if inc else ">", repr(LATTICE[si]), body))
    cfg = "[Tabulation]\ntarget : LAMMPS\ncutoff : 10.0\nnr : 11\n[Pair]\nA-B : %s\n" % " ".join(parts)
    from atsim.potentials.config import Configuration
    tab = Configuration().read(io.StringIO(cfg))
    pot = tab.potentials[0]
    out = []
    for q in qs:
        r = real_r(q)
        e, fo = pot.energy(r), pot.force(r)
        fid_e = None if e == 0.0 else int(round(e / (1000.0 + r)))
        fid_f = None if fo == 0.0 else int(round(-fo))
        out.append([fid_e, fid_f])
    return out, cfg


def request(ranges, qs):
    return dict(m="range", op="select", ranges=[dict(incl=bool(inc), start=2 * si, f=fid) for (inc, si, fid) in ranges], rs=qs)


def check(run):
    run.rule = ("range sets over a 6-point start lattice (incl. -inf) x {'>','>='}: quick = every ordered list of 1..3 ranges over 4 starts (listing order, "
                "repeated starts and mixed markers included), plus random lists of 4..5 ranges; queries below/on/between/above every start; observables value, "
                "deriv and deriv2 of create_Multi_Range_Potential_Form objects, and energy/force of potentials built from potable definitions (with and "
                "without a leading range marker); distinct = (range list, route)")
    run.assumptions += ["only the order of starts and r matters (the model works on ranks)", "potable route: pyparsing number syntax and float() conversion of starts"]
    rng = run.rng
    cases = []
    base_starts = [1, 2, 3, 4] if run.quick else [0, 1, 2, 3, 4]
    maxlen = 3 if run.quick else 3
    atoms = [(inc, si) for si in base_starts for inc in (True, False)]
    for n in range(1, maxlen + 1):
        for combo in itertools.product(atoms, repeat=n):
            cases.append([(inc, si, k + 1) for k, (inc, si) in enumerate(combo)])
    if run.quick and len(cases) > 700:
        head = [c for c in cases if len(c) <= 2]
        rest = [c for c in cases if len(c) > 2]
        rng.shuffle(rest)
        cases = head + rest[:420]
    for _ in range(run.n(150, 20000)):
        n = rng.choice([4, 5])
        cases.append([(rng.random() < 0.5, rng.randrange(0, len(LATTICE)), k + 1) for k in range(n)])
    reqs, qss = [], []
    for c in cases:
        qs = queries([si for (_, si, _) in c])
        qss.append(qs)
        reqs.append(request(c, qs))
    models = lean_query(reqs)
    nbad = ndup = 0
    for ci, (c, qs, mo) in enumerate(zip(cases, qss, models)):
        derivs = (ci % 7 != 3)
        obs = impl_select(c, qs, derivs)
        run.traces += 1
        dup = has_dup(c)
        run.case(key=("api", tuple(c)), kind="api/n=%d%s" % (len(c), "/dup" if dup else ""), sample=dict(ranges=[(">=" if i else ">", LATTICE[s], f) for i, s, f in c], queries=[real_r(q) for q in qs], selected=mo) if ci in (5, 200) else None)
        desc = dict(ranges=[dict(marker=">=" if i else ">", start=LATTICE[s], fid=f) for (i, s, f) in c], route="python-api")
        for q, o, m in zip(qs, obs, mo):
            spec = spec_select(c, q)
            # derivatives must come from the same selected range as the value
            if len(set(o)) != 1:
                run.fail("range-deriv-from-other-range", "value/deriv/deriv2 at r=%r come from different ranges: %s" % (real_r(q), o), dict(case=desc, r=real_r(q), observed=o))
                nbad += 1
                break
            got = o[0]
            if spec != "ambiguous" and got != spec:
                nbad += 1
                if nbad <= 3:
                    run.fail("range-selection", "at r=%r the potential evaluates range %s, the selection rule gives %s" % (real_r(q), got, spec), dict(case=desc, r=real_r(q), observed=got, expected=spec))
                break
            if got != m:
                run.tie_broken("correspondence", "Atsim.selected vs Multi_Range_Potential_Form", "ranges %s r=%r impl=%s model=%s (spec %s)" % (desc["ranges"], real_r(q), got, m, spec))
                break
        # listing-order independence (the last sentence of the property), checked on the implementation itself
        if 2 <= len(c) <= 4:
            rev = list(reversed(c))
            o2 = impl_select(rev, qs, derivs)
            if [x[0] for x in o2] != [x[0] for x in obs]:
                diffq = [real_r(q) for q, a, b in zip(qs, obs, o2) if a[0] != b[0]]
                if dup:
                    ndup += 1
                    run.fail("dup-marker-start", "two ranges share start and marker: result depends on listing order", dict(case=desc, differs_at_r=diffq))
                else:
                    run.fail("range-order-dependence", "result depends on the order in which the ranges were listed (no two ranges share both start and marker)", dict(case=desc, differs_at_r=diffq))
    run.extra["order_dependent_duplicate_cases"] = ndup
    # potable route
    pot_cases = [c for c in cases if all(LATTICE[s] != float("-inf") for (_, s, _) in c)]
    rng.shuffle(pot_cases)
    batch = []
    for ci, c in enumerate(pot_cases[: run.n(150, 1500)]):
        first_unmarked = (ci % 3 == 0)
        cc = list(c)
        if first_unmarked:
            cc[0] = (False, 1, cc[0][2])          # default range ('>', 0.0): lattice index 1 is 0.0
        batch.append((cc, first_unmarked, queries([si for (_, si, _) in cc])))
    pmodels = lean_query([request(cc, qs) for (cc, fu, qs) in batch])
    for (cc, first_unmarked, qs), mo in zip(batch, pmodels):
        try:
            obs, cfg = potable_select(cc, qs, first_unmarked)
        except Exception as e:
            run.fail("range-potable-rejected", "well-formed multi-range definition refused: %s %s" % (type(e).__name__, str(e)[:200]), dict(ranges=cc))
            continue
        run.traces += 1
        run.case(key=("potable", tuple(cc), first_unmarked), kind="potable/n=%d%s" % (len(cc), "/default-range" if first_unmarked else ""))
        for q, o, m in zip(qs, obs, mo):
            spec = spec_select(cc, q)
            if o[0] != o[1] and not (o[0] is None or o[1] is None):
                run.fail("range-deriv-from-other-range", "potable: energy and force at r=%r come from different ranges: %s" % (real_r(q), o), dict(potable_file=cfg, r=real_r(q)))
                break
            if spec != "ambiguous" and o[0] != spec:
                run.fail("range-selection", "potable: at r=%r energy comes from range %s, the selection rule gives %s%s" % (
                    real_r(q), o[0], spec, " (definition without a leading range marker must act for r > 0 only)" if first_unmarked else ""),
                    dict(potable_file=cfg, r=real_r(q), observed=o[0], expected=spec))
                break
            if o[0] != m:
                run.tie_broken("correspondence", "Atsim.selected vs potable-built potential", "file %r r=%r impl=%s model=%s" % (cfg, real_r(q), o[0], m))
                break


def replay(run, payload):
    print("replay file holds the failing range list and r; re-run ./check C08 to search again")
    return 2
