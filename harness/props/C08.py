"""C08 - multi-range selection.  Correspondence of `Atsim.selected` (= `_range_search` after the stable sort) with
Multi_Range_Potential_Form through the Python API and through potable definitions; the property's selection rule is
evaluated directly on the implementation (spec oracle below) and listing-order independence is checked on every case."""
import io
import itertools

from common import lean_query
import impl

from atsim.potentials import create_Multi_Range_Potential_Form, Multi_Range_Defn

LATTICE = [float("-inf"), 0.0, 0.75, 2.0, 3.5, 7.25]     # index i <-> model integer 2*i


class T8(object):
    """range tracer: value fid, deriv 100+fid, deriv2 200+fid"""

    def __init__(self, fid, derivs=True):
        self.fid = fid
        if derivs:
            self.deriv = lambda r: 100.0 + self.fid
            self.deriv2 = lambda r: 200.0 + self.fid

    def __call__(self, r):
        return float(self.fid)


def queries(start_idx):
    """model-integer query points: below, on and between every used start, and above the last"""
    used = sorted(set(start_idx))
    qs = set()
    for i in used:
        for d in (-1, 0, 1):
            qs.add(2 * i + d)
    return sorted(q for q in qs if q >= 1)      # nothing lies below or at -inf


def real_r(q):
    """model integer -> float separation"""
    if q % 2 == 0:
        return LATTICE[q // 2]
    lo = LATTICE[(q - 1) // 2] if q >= 1 else None
    hi = LATTICE[(q + 1) // 2] if (q + 1) // 2 < len(LATTICE) else None
    if lo is None or lo == float("-inf"):
        return hi - 1.0
    if hi is None:
        return lo + 1.0
    return (lo + hi) / 2.0


def real_rs(q):
    """all separations used for one model query point: the start itself (even q); for a point strictly between two starts the midpoint AND the two
    doubles adjacent to the neighbouring starts (one ulp above the lower start, one ulp below the upper one) - same rank, so the same range must act"""
    import math
    if q % 2 == 0:
        return [LATTICE[q // 2]]
    out = [real_r(q)]
    lo = LATTICE[(q - 1) // 2]
    hi = LATTICE[(q + 1) // 2] if (q + 1) // 2 < len(LATTICE) else None
    if lo != float("-inf"):
        out.append(math.nextafter(lo, math.inf))
    if hi is not None:
        out.append(math.nextafter(hi, -math.inf))
    return out


class OrderDependence(Exception):
    pass


def evaluate_all(observe, qs, tag):
    """observe(r) -> observation.  Every separation of every query point is evaluated on the SAME object in ascending order, then again in descending
    and in a scrambled order: the observation at a separation must not depend on what was evaluated before.  Returns one observation per query point
    (all separations of a point must agree)."""
    import random
    pts = [(q, r) for q in qs for r in real_rs(q)]
    first = {}
    for q, r in pts:
        first[(q, r)] = observe(r)
    scr = list(pts)
    random.Random(len(pts) * 7919 + 13).shuffle(scr)
    for name, order in (("descending", list(reversed(pts))), ("scrambled", scr), ("ascending again", pts)):
        for q, r in order:
            o = observe(r)
            if o != first[(q, r)]:
                raise OrderDependence("%s: at r=%r the first (ascending) pass observed %s, the %s pass on the same object observes %s" % (tag, r, first[(q, r)], name, o))
    out = []
    for q in qs:
        obs = [first[(q, r)] for r in real_rs(q)]
        if any(o != obs[0] for o in obs):
            rs = real_rs(q)
            j = [i for i, o in enumerate(obs) if o != obs[0]][0]
            raise OrderDependence("%s: r=%r and r=%r lie strictly between the same two range starts but observe %s and %s" % (tag, rs[0], rs[j], obs[0], obs[j]))
        out.append(obs[0])
    return out


def spec_select(ranges, q):
    """The property's rule on the unordered collection: the containing range with the greatest start; at a shared start the
    inclusive range acts at r == start, an exclusive one (if any) above it.  Returns fid | None | 'ambiguous' (two candidates
    with the same start AND the same marker)."""
    cont = [t for t in ranges if q > 2 * t[1] or (t[0] and q == 2 * t[1])]
    if not cont:
        return None
    top = max(2 * t[1] for t in cont)
    cands = [t for t in cont if 2 * t[1] == top]
    if q == top:
        cands = [t for t in cands if t[0]]
    else:
        ex = [t for t in cands if not t[0]]
        cands = ex if ex else cands
    fids = set(t[2] for t in cands)
    return cands[0][2] if len(fids) == 1 else "ambiguous"


def has_dup(ranges):
    ks = [(t[0], t[1]) for t in ranges]
    return len(set(ks)) < len(ks)


def impl_select(ranges, qs, derivs=True):
    """observations of the real object: for each query (value->fid|None, deriv->fid|None, deriv2->fid|None)"""
    f = create_Multi_Range_Potential_Form(*[Multi_Range_Defn(">=" if inc else ">", LATTICE[si], T8(fid, derivs)) for (inc, si, fid) in ranges])
    def observe(r):
        v = f(r)
        o = [None if v == 0.0 else int(v)]
        if derivs:
            d1, d2 = f.deriv(r), f.deriv2(r)
            o.append(None if d1 == 0.0 else int(d1) - 100)
            o.append(None if d2 == 0.0 else int(d2) - 200)
        return o
    return evaluate_all(observe, qs, "python-api")


def reassigned_ranges(run, cases):
    """one object, evaluated, given another list of ranges through its public `range_defns` property, evaluated again AT THE SAME r (before any other r): value,
    deriv and deriv2 must follow the ranges the object holds now (the selection rule has no memory)"""
    rng = run.rng
    pool = [c for c in cases if not has_dup(c)]
    nbad = 0
    for _ in range(run.n(120, 1500)):
        c1, c2 = rng.choice(pool), rng.choice(pool + [[]])
        qs = queries([si for (_, si, _) in list(c1) + list(c2)])
        f = create_Multi_Range_Potential_Form(*[Multi_Range_Defn(">=" if inc else ">", LATTICE[si], T8(fid, True)) for (inc, si, fid) in c1])
        run.case(key=("reassign", str(c1), str(c2)), kind="python-api/reassigned-ranges")
        run.traces += 1
        for q in rng.sample(qs, min(4, len(qs))):
            for r in real_rs(q):
                f.range_defns = [Multi_Range_Defn(">=" if inc else ">", LATTICE[si], T8(fid, True)) for (inc, si, fid) in c1]
                before = f(r), f.deriv(r), f.deriv2(r)
                f.range_defns = [Multi_Range_Defn(">=" if inc else ">", LATTICE[si], T8(fid, True)) for (inc, si, fid) in c2]
                v, d1, d2 = f(r), f.deriv(r), f.deriv2(r)
                got = [None if v == 0.0 else int(v), None if d1 == 0.0 else int(d1) - 100, None if d2 == 0.0 else int(d2) - 200]
                spec = spec_select(c2, q)
                if spec != "ambiguous" and got != [spec, spec, spec]:
                    nbad += 1
                    if nbad <= 2:
                        run.fail("range-selection", "after the ranges were replaced through .range_defns, at r=%r (evaluated just before with the old ranges) value/deriv/deriv2 come from ranges %s, "
                                 "the selection rule on the ranges the object now holds gives %s" % (r, got, spec),
                                 dict(case=dict(first_ranges=[dict(marker=">=" if i else ">", start=LATTICE[s_], fid=f_) for (i, s_, f_) in c1],
                                                second_ranges=[dict(marker=">=" if i else ">", start=LATTICE[s_], fid=f_) for (i, s_, f_) in c2], r=r, route="python-api")))
                    break


def mixed_derivs(run, cases):
    """Ranges of which some offer analytic derivatives and some do not (seed C08_6): at every query point - in particular exactly ON an inclusive start and one
    ulp either side of every start - `deriv`/`deriv2` must be those of the SELECTED range: 100+fid / 200+fid for a range with analytic derivatives, and for a
    derivative-less range the numerical derivative of that range's own (constant) function, which is exactly 0.0.  The tracers are constant and differ from
    range to range, so a difference quotient taken through the composite potential across a start is of order 1e6."""
    rng = run.rng
    pool = list(cases)
    rng.shuffle(pool)
    nbad = 0
    for c in pool[: run.n(250, 4000)]:
        flags = [rng.random() < 0.5 for _ in c]
        if all(flags) or not any(flags):
            flags[rng.randrange(len(c))] = not flags[0]
        has = {fid: fl for (_, _, fid), fl in zip(c, flags)}
        f = create_Multi_Range_Potential_Form(*[Multi_Range_Defn(">=" if inc else ">", LATTICE[si], T8(fid, fl)) for (inc, si, fid), fl in zip(c, flags)])
        qs = queries([si for (_, si, _) in c])
        run.case(key=("api-mixed", tuple(c), tuple(flags)), kind="api-mixed-derivs/n=%d" % len(c))
        run.traces += 1
        desc = dict(ranges=[dict(marker=">=" if i else ">", start=LATTICE[s_], fid=f_, analytic_derivatives=fl) for (i, s_, f_), fl in zip(c, flags)], route="python-api")
        for q in qs:
            for r in real_rs(q):
                v = f(r)
                sel = None if v == 0.0 else int(v)
                want1, want2 = (0.0, 0.0) if (sel is None or not has[sel]) else (100.0 + sel, 200.0 + sel)
                got1 = f.deriv(r) if hasattr(f, "deriv") else None
                got2 = f.deriv2(r) if hasattr(f, "deriv2") else None
                if got1 is None or got2 is None or got1 != want1 or got2 != want2:
                    nbad += 1
                    if nbad <= 2:
                        run.fail("range-deriv-from-other-range", "mixed analytic/numerical ranges: at r=%r range %s is selected (value %r) but deriv=%r deriv2=%r; the selected range's own "
                                 "derivatives are %r and %r" % (r, sel, v, got1, got2, want1, want2), dict(case=desc, r=r, observed=[v, got1, got2], expected=[want1, want2]))
                    break
            else:
                continue
            break


def potable_select(ranges, qs, first_unmarked):
    """same through a potable [Pair] entry; tracers as.polynomial 1000*fid fid (value 1000 fid + fid r, deriv fid)"""
    parts = []
    for i, (inc, si, fid) in enumerate(ranges):
        body = "as.polynomial %d.0 %d.0" % (1000 * fid, fid)
        if i == 0 and first_unmarked:
            parts.append(body)
        else:
            parts.append("%s%s %s" % (">=" if inc else ">", repr(LATTICE[si]), body))
    cfg = "[Tabulation]\ntarget : LAMMPS\ncutoff : 10.0\nnr : 11\n[Pair]\nA-B : %s\n" % " ".join(parts)
    from atsim.potentials.config import Configuration
    tab = Configuration().read(io.StringIO(cfg))
    pot = tab.potentials[0]
    def observe(r):
        e, fo = pot.energy(r), pot.force(r)
        fid_e = None if e == 0.0 else int(round(e / (1000.0 + r)))
        fid_f = None if fo == 0.0 else int(round(-fo))
        return [fid_e, fid_f]
    try:
        return evaluate_all(observe, qs, "potable"), cfg
    except OrderDependence as e:
        e.cfg = cfg
        raise


def request(ranges, qs):
    return dict(m="range", op="select", ranges=[dict(incl=bool(inc), start=2 * si, f=fid) for (inc, si, fid) in ranges], rs=qs)


def check(run):
    import genlib
    genlib.validate_logic(run, "range_search", n=run.n(200, 3000))
    genlib.validate_pair_builder(run, n=run.n(40, 400))
    run.rule = ("range sets over a 6-point start lattice (incl. -inf) x {'>','>='}: quick = every ordered list of 1..3 ranges over 4 starts (listing order, "
                "repeated starts and mixed markers included), plus random lists of 4..5 ranges; queries below/on/between/above every start; observables value, "
                "deriv and deriv2 of create_Multi_Range_Potential_Form objects, and energy/force of potentials built from potable definitions (with and "
                "without a leading range marker); distinct = (range list, route)")
    run.assumptions += ["only the order of starts and r matters (the model works on ranks)", "potable route: pyparsing number syntax and float() conversion of starts"]
    rng = run.rng
    cases = []
    base_starts = [1, 2, 3, 4] if run.quick else [0, 1, 2, 3, 4]
    maxlen = 3 if run.quick else 3
    atoms = [(inc, si) for si in base_starts for inc in (True, False)]
    for n in range(1, maxlen + 1):
        for combo in itertools.product(atoms, repeat=n):
            cases.append([(inc, si, k + 1) for k, (inc, si) in enumerate(combo)])
    if run.quick and len(cases) > 700:
        head = [c for c in cases if len(c) <= 2]
        rest = [c for c in cases if len(c) > 2]
        rng.shuffle(rest)
        cases = head + rest[:420]
    for _ in range(run.n(150, 20000)):
        n = rng.choice([4, 5])
        cases.append([(rng.random() < 0.5, rng.randrange(0, len(LATTICE)), k + 1) for k in range(n)])
    reqs, qss = [], []
    for c in cases:
        qs = queries([si for (_, si, _) in c])
        qss.append(qs)
        reqs.append(request(c, qs))
    models = lean_query(reqs)
    nbad = ndup = 0
    for ci, (c, qs, mo) in enumerate(zip(cases, qss, models)):
        derivs = (ci % 7 != 3)
        dup = has_dup(c)
        try:
            obs = impl_select(c, qs, derivs)
        except OrderDependence as e:
            nbad += 1
            if nbad <= 3:
                run.fail("range-selection", str(e), dict(case=dict(ranges=[dict(marker=">=" if i else ">", start=LATTICE[s_], fid=f_) for (i, s_, f_) in c], route="python-api")))
            continue
        run.traces += 1
        run.case(key=("api", tuple(c)), kind="api/n=%d%s" % (len(c), "/dup" if dup else ""), sample=dict(ranges=[(">=" if i else ">", LATTICE[s], f) for i, s, f in c], queries=[real_r(q) for q in qs], selected=mo) if ci in (5, 200) else None)
        desc = dict(ranges=[dict(marker=">=" if i else ">", start=LATTICE[s], fid=f) for (i, s, f) in c], route="python-api")
        for q, o, m in zip(qs, obs, mo):
            spec = spec_select(c, q)
            # derivatives must come from the same selected range as the value
            if len(set(o)) != 1:
                run.fail("range-deriv-from-other-range", "value/deriv/deriv2 at r=%r come from different ranges: %s" % (real_r(q), o), dict(case=desc, r=real_r(q), observed=o))
                nbad += 1
                break
            got = o[0]
            if spec != "ambiguous" and got != spec:
                nbad += 1
                if nbad <= 3:
                    run.fail("range-selection", "at r=%r the potential evaluates range %s, the selection rule gives %s" % (real_r(q), got, spec), dict(case=desc, r=real_r(q), observed=got, expected=spec))
                break
            if got != m:
                run.tie_broken("correspondence", "Atsim.selected vs Multi_Range_Potential_Form", "ranges %s r=%r impl=%s model=%s (spec %s)" % (desc["ranges"], real_r(q), got, m, spec))
                break
        # listing-order independence (the last sentence of the property), checked on the implementation itself
        if 2 <= len(c) <= 4:
            rev = list(reversed(c))
            try:
                o2 = impl_select(rev, qs, derivs)
            except OrderDependence:
                continue
            if [x[0] for x in o2] != [x[0] for x in obs]:
                diffq = [real_r(q) for q, a, b in zip(qs, obs, o2) if a[0] != b[0]]
                if dup:
                    ndup += 1
                    run.fail("dup-marker-start", "two ranges share start and marker: result depends on listing order", dict(case=desc, differs_at_r=diffq))
                else:
                    run.fail("range-order-dependence", "result depends on the order in which the ranges were listed (no two ranges share both start and marker)", dict(case=desc, differs_at_r=diffq))
    run.extra["order_dependent_duplicate_cases"] = ndup
    mixed_derivs(run, [c for c in cases if len(c) >= 2])
    reassigned_ranges(run, cases)
    # potable route
    pot_cases = [c for c in cases if all(LATTICE[s] != float("-inf") for (_, s, _) in c)]
    rng.shuffle(pot_cases)
    batch = []
    for ci, c in enumerate(pot_cases[: run.n(150, 1500)]):
        first_unmarked = (ci % 3 == 0)
        cc = list(c)
        if first_unmarked:
            cc[0] = (False, 1, cc[0][2])          # default range ('>', 0.0): lattice index 1 is 0.0
        batch.append((cc, first_unmarked, queries([si for (_, si, _) in cc])))
    pmodels = lean_query([request(cc, qs) for (cc, fu, qs) in batch])
    for (cc, first_unmarked, qs), mo in zip(batch, pmodels):
        try:
            obs, cfg = potable_select(cc, qs, first_unmarked)
        except OrderDependence as e:
            run.fail("range-selection", str(e), dict(potable_file=getattr(e, "cfg", None)))
            continue
        except Exception as e:
            run.fail("range-potable-rejected", "well-formed multi-range definition refused: %s %s" % (type(e).__name__, str(e)[:200]), dict(ranges=cc))
            continue
        run.traces += 1
        run.case(key=("potable", tuple(cc), first_unmarked), kind="potable/n=%d%s" % (len(cc), "/default-range" if first_unmarked else ""))
        for q, o, m in zip(qs, obs, mo):
            spec = spec_select(cc, q)
            if o[0] != o[1] and not (o[0] is None or o[1] is None):
                run.fail("range-deriv-from-other-range", "potable: energy and force at r=%r come from different ranges: %s" % (real_r(q), o), dict(potable_file=cfg, r=real_r(q)))
                break
            if spec != "ambiguous" and o[0] != spec:
                run.fail("range-selection", "potable: at r=%r energy comes from range %s, the selection rule gives %s%s" % (
                    real_r(q), o[0], spec, " (definition without a leading range marker must act for r > 0 only)" if first_unmarked else ""),
                    dict(potable_file=cfg, r=real_r(q), observed=o[0], expected=spec))
                break
            if o[0] != m:
                run.tie_broken("correspondence", "Atsim.selected vs potable-built potential", "file %r r=%r impl=%s model=%s" % (cfg, real_r(q), o[0], m))
                break


def replay(run, payload):
    print("replay file holds the failing range list and r; re-run ./check C08 to search again")
    return 2
