"""C04 - Finnis-Sinclair routing.  Asymmetric tracer models (every ordered species pair its own function id) through
setfl_fs, DL_POLY EEAM TABEAM and the Excel FS workbook, Python API and potable; plus an independent re-computation of
toy-cluster site densities from the written files by the three consumer rules."""
import io

from common import Fr, fq, lean_query
import impl
import eamlib

from atsim.potentials import writeSetFLFinnisSinclair, writeTABEAMFinnisSinclair
from atsim.potentials.eam_tabulation import SetFL_FS_EAMTabulation, TABEAM_FinnisSinclair_EAMTabulation, Excel_FinnisSinclair_EAMTabulation

FORMATS = {
    "setfl_fs": ["func", "class", "config", "cli"],
    "DL_POLY_EAM_fs": ["func", "class", "config", "cli"],
    "excel_eam_fs": ["class", "config"],
}


def gen_case(rng):
    fmt = rng.choice(list(FORMATS))
    how = rng.choice(FORMATS[fmt])
    potable = how in ("config", "cli")
    m = eamlib.gen_model(rng, fs=True, potable=potable, kmax=(4 if fmt != "DL_POLY_EAM_fs" else 4))
    redeclare = None
    if potable and how == "config" and fmt != "excel_eam_fs" and rng.random() < 0.5:
        # "config-redeclare": the objects built from the file are re-used through the API - one ordered slot A->B is given a new function before writing - and ONLY that slot
        # may change (round-9 seed C04_13: species without a density row of their own sharing one zero dictionary).  Models with several row-less central species are made likely.
        how = "config-redeclare"
        if len(m["els"]) >= 3 and rng.random() < 0.7:
            for a in rng.sample(m["els"], rng.randint(2, len(m["els"]) - 1)):
                for b in m["dens"][a]:
                    m["dens"][a][b] = None
    if potable:
        eamlib.make_potable_variants(rng, m)
    if how == "config-redeclare":
        redeclare = (rng.choice(m["els"]), rng.choice(m["els"]), 7000 + rng.randint(1, 99))
        return dict(route="%s/%s" % (fmt, how), fmt=fmt, how=how, model=m, target=fmt, api_variant=None, redeclare=redeclare)
    # (dictionaries with __missing__ are not given to the Excel classes: they list a dictionary's items instead of looking entries up - outside this property's formats' contract)
    return dict(route="%s/%s" % (fmt, how), fmt=fmt, how=how, model=m, target=fmt, api_variant=None if potable else eamlib.api_variant(rng, m, allow_missing_dict=(fmt != "excel_eam_fs")))


def run_impl(case):
    m, fmt, how = case["model"], case["fmt"], case["how"]
    binary = fmt == "excel_eam_fs"
    if how in ("func", "class"):
        pots, eams = eamlib.build_objects(m, variant=case.get("api_variant"))
        s = io.BytesIO() if binary else io.StringIO()
        args = (pots, eams, float(m["cut"]), m["nr"], float(m["cutrho"]), m["nrho"])
        d = eamlib.direct_args(m)
        if fmt == "setfl_fs":
            if how == "class":
                eamlib.write_second_time(SetFL_FS_EAMTabulation(*args), s)
            else:
                writeSetFLFinnisSinclair(m["nrho"], float(Fr(d["drho"])), m["nr"], float(Fr(d["dr"])), eams, pots, s)
        elif fmt == "DL_POLY_EAM_fs":
            if how == "class":
                eamlib.write_second_time(TABEAM_FinnisSinclair_EAMTabulation(*args), s)
            else:
                writeTABEAMFinnisSinclair(m["nrho"], float(Fr(d["drho"])), m["nr"], float(Fr(d["dr"])), eams, pots, s)
        else:
            eamlib.write_second_time(Excel_FinnisSinclair_EAMTabulation(*args), s)
        return "ok", s.getvalue()
    cfg = eamlib.cfg_text(m, fmt)
    if how == "config-redeclare":
        def go():
            from atsim.potentials.config import Configuration
            tab = Configuration().read(io.StringIO(cfg))
            a, b, f = case["redeclare"]
            for p in tab.eam_potentials:
                if p.species == a:
                    p.electronDensityFunction[b] = eamlib.Tr(f)
            buf = io.StringIO()
            tab.write(buf)
            return buf.getvalue()
        oc, v = impl.outcome_of(go)
        return oc, (v if oc == "ok" else None)
    if how == "cli":
        r = impl.potable_cli(cfg, binary=binary)
        if r["rc"] == 0:
            return "ok", r["output"]
        return ("config_error" if "configuration error" in r["stderr"] else "cli-failure rc=%s %s" % (r["rc"], r["stderr"][-200:])), None
    oc, v = impl.outcome_of(lambda: impl.config_tabulate(cfg, binary=binary))
    return oc, (v if oc == "ok" else None)


def model_request(case):
    m, fmt, how = case["model"], case["fmt"], case["how"]
    potable = how in ("config", "cli", "config-redeclare")
    if how == "config-redeclare":
        a, b, f = case["redeclare"]
        m = dict(m)
        m["dens_decl"] = [d for d in m["dens_decl"] if (d[0], d[1]) != (a, b)] + [(a, b, f)]
    if fmt == "setfl_fs":
        return eamlib.request(m, "setfl", False, **eamlib.direct_args(m)) if how == "func" else eamlib.request(m, "setflTab", potable, **eamlib.tab_args(m))
    if fmt == "DL_POLY_EAM_fs":
        return eamlib.request(m, "tabeam", False, **eamlib.direct_args(m)) if how == "func" else eamlib.request(m, "tabeamTab", potable, **eamlib.tab_args(m))
    return eamlib.request(m, "excelEam", potable, **eamlib.tab_args(m))


def tokenise(case, out):
    if case["fmt"] == "setfl_fs":
        return eamlib.setfl_tokens(out, fs=True)
    if case["fmt"] == "DL_POLY_EAM_fs":
        return eamlib.tabeam_tokens(out)
    return eamlib.excel_tokens(out)


# ----- the property's own wording: site densities of a toy cluster recomputed from the file by the consumer's rules -------------
def density_slot_from_file(fmt, toks, central, neigh, k):
    """the slot that format `fmt` assigns to 'density at a `central` site contributed by a `neigh` neighbour', grid index k"""
    if fmt == "setfl_fs":
        names = toks["names"]
        # LAMMPS eam/fs: in the block of element I, the j-th density function is the density contributed BY an I atom AT a site of element j
        vals = toks["elements"][names.index(neigh)]["dens"][names.index(central)]
        return vals[k] if k < len(vals) else "missing (block holds %d values)" % len(vals)
    if fmt == "DL_POLY_EAM_fs":
        for b in toks["blocks"]:
            if b["kw"] == "dens" and b["species"] == [central, neigh]:
                vals = [x for row in b["rows"] for x in row]
                return vals[k] if k < len(vals) else "missing (block holds %d values)" % len(vals)
        return None
    for sh in toks:
        if sh["name"] == "EAM-Density":
            col = sh["header"].index("%s->%s" % (central, neigh)) - 1
            return sh["rows"][k][1][col] if k < len(sh["rows"]) else "missing (sheet holds %d rows)" % len(sh["rows"])
    return None


def cluster_check(run, case, toks):
    m = case["model"]
    rng = run.rng
    els = m["els"]
    dr = m["cut"] / (m["nr"] - 1)
    for _ in range(3):
        central = rng.choice(els)
        neighbours = [(rng.choice(els), rng.randrange(m["nr"])) for _ in range(rng.randint(1, 5))]
        got, want = [], []
        for (nb, k) in neighbours:
            got.append(density_slot_from_file(case["fmt"], toks, central, nb, k))
            f = m["dens"][central].get(nb)
            if case.get("redeclare") and case["redeclare"][:2] == (central, nb):
                f = case["redeclare"][2]
            want.append("0" if not f else [f, fq(k * dr)])
        if got != want:
            return "site density of a %s atom with neighbours %s computed from the file by the %s consumer rule is the formal sum %s, from the model %s" % (
                central, neighbours, case["fmt"], got, want)
    return None


def check(run):
    import genlib
    genlib.validate_eam_builder_fs(run, n=run.n(40, 400))
    # the key of a Finnis-Sinclair density entry ("A->B" reads as from = A, to = B): the regenerated species_func against the real line parser
    genlib.validate_cfg_logic(run, "fs_species", n=run.n(300, 4000))
    genlib.validate_tabulation_objects(run, kinds=("setfl_fs", "tabeam_fs"), n=run.n(6, 50))
    genlib.validate_eam_writer(run, "tabeam_fs", n=run.n(10, 100))
    genlib.validate_eam_writer(run, "setfl_fs", n=run.n(10, 100))
    run.rule = ("asymmetric Finnis-Sinclair tracer models (1..4 species, every ordered pair its own function id, random undeclared combinations, "
                "shuffled declaration order of A->B and embedding entries, species without an embedding entry) x formats setfl_fs / DL_POLY_EAM_fs / "
                "excel_eam_fs x routes (writer function, tabulation class, potable Configuration, potable entry point); "
                "plus toy-cluster site densities recomputed from the file with this harness' own implementation of the three consumer rules")
    run.assumptions += ["consumer conventions of LAMMPS eam/fs, DL_POLY EEAM and the Excel sheet are specification text (Props/C04.lean) written from the repository's documentation",
                        "openpyxl stores and returns the cell values it is given", "tokenisers setfl_tokens / tabeam_tokens / excel_tokens"]
    n = run.n(200, 3000)
    cases = [gen_case(run.rng) for _ in range(n)]
    eamlib.correspond(run, cases, run_impl, model_request, tokenise, "fs-routing-mismatch", "Finnis-Sinclair output differs from the model/property")
    # cluster leg (independent of the Lean model)
    bad = 0
    for c in cases[: run.n(120, 1500)]:
        if len(c["model"]["els"]) < 1:
            continue
        oc, out = run_impl(c)
        if oc != "ok":
            continue
        try:
            toks = tokenise(c, out)
        except eamlib.FormatError:
            continue
        problem = cluster_check(run, c, toks)
        run.case(key=("cluster", c["route"], tuple(c["model"]["els"])), kind="cluster/" + c["fmt"])
        if problem and bad < 2:
            bad += 1
            run.fail("fs-cluster-density", problem, dict(case=eamlib.describe(c)))


def replay(run, payload):
    print("replay file holds the failing model (case.*); re-run ./check C04 to search again")
    return 2
