"""Validation of the LOGIC / WRITER translator (translator/py2lean_logic.py): the regenerated Lean definitions of Gen/Logic.lean are run on concrete inputs
through their own driver (lean/MainGen.lean) and compared with the real Python functions they were translated from.

For the table writers the Lean side returns the TOKENS the generated writer emits - (format text, arguments) per print/write call - and this module renders
them with Python's own `%` / `str.format` and compares the text byte for byte with what the real writer wrote for the same potentials and grid.  Potentials
are tracer callables on dyadic grids, so every abscissa and value is exact.  A disagreement is a broken TRANSLATOR tie (the theorems about the generated
definitions would then be about something the code does not do); it is never by itself a property violation."""
import configparser
import io
import json
import os
from fractions import Fraction as Fr

import common
from common import LEAN_DIR, InfraError


def build_gen():
    """-> (ok, log)"""
    with common._Lock():
        rc, out, err = common._run(["lake", "build", "AtsimModel.Driver.GenLogic"], cwd=LEAN_DIR)
    return rc == 0, (out + err)[-3000:]


def query_gen(reqs, timeout=900):
    if not reqs:
        return []
    inp = "\n".join(json.dumps(r, separators=(",", ":")) for r in reqs) + "\n"
    rc, out, err = common._run(["lake", "env", "lean", "--run", "MainGen.lean"], cwd=LEAN_DIR, inp=inp, timeout=timeout)
    lines = [l for l in out.split("\n") if l.strip()]
    if rc != 0 or len(lines) != len(reqs):
        raise InfraError("generated-definitions driver failed rc=%s answers=%d/%d\n%s" % (rc, len(lines), len(reqs), (err or out)[-2000:]))
    res = []
    for i, l in enumerate(lines):
        j = json.loads(l)
        if "ok" not in j:
            raise InfraError("generated-definitions driver rejected request %d: %s" % (i, j.get("error")))
        res.append(j["ok"])
    return res


class Tracer(object):
    """f(r) = 16*fid + r, f'(r) = fid + r/4 : exact on dyadic grids, different for every potential"""

    def __init__(self, fid):
        self.fid = fid

    def __call__(self, r):
        return 16.0 * self.fid + r

    def deriv(self, r):
        return self.fid + r / 4.0


class CountingIO(io.StringIO):
    """a destination that counts the non-empty `write` calls that reach it"""

    def __init__(self):
        io.StringIO.__init__(self)
        self.nwrites = 0

    def write(self, text):
        if text:
            self.nwrites += 1
        return io.StringIO.write(self, text)


def _cls(n):
    """write counts are compared as none / exactly one / several (a `print` to the destination is two `write` calls of the file object, one chunk of the model)"""
    return min(n, 2)


def _value(v, tracers):
    k = v[0]
    if k == "i":
        return int(v[1])
    if k == "q":
        return float(Fr(v[1]))
    if k == "s":
        return v[1]
    if k == "f":
        what, fid, x = v[1], int(v[2]), float(Fr(v[3]))
        f = tracers[fid]
        if what in ("energy", "value"):
            return f(x)
        if what == "force":
            return -f.deriv(x)
        if what == "r*force":
            return x * (-f.deriv(x))
        raise InfraError("unknown opaque value %s" % what)
    if k == "r":
        x = _value(v[1], tracers)
        return 0.0 if abs(x) < 1e-99 else x
    if k == "x":
        return float(Fr(v[1])) * _value(v[2], tracers)
    raise InfraError("unknown value kind %s" % k)


def render(tokens, tracers):
    out = []
    for fmt, args in tokens:
        vals = [_value(a, tracers) for a in args]
        if fmt == "<os.linesep>":
            out.append(os.linesep)
            continue
        fmt = fmt.replace("<os.linesep>", os.linesep)          # a separator inside one written piece (os.linesep.join(...))
        if "{" in fmt:
            out.append(fmt.format(*vals))
        elif vals:
            out.append(fmt % tuple(vals))
        else:
            out.append(fmt)
    return "".join(out)


def _first_diff(a, b):
    n = min(len(a), len(b))
    i = next((k for k in range(n) if a[k] != b[k]), n)
    return "at character %d: real ...%r... generated ...%r..." % (i, a[max(0, i - 30):i + 30], b[max(0, i - 30):i + 30])


def validate_writer(run, which, n=12):
    """which in lammps | dlpoly | gulp.  Records broken translator ties on `run`; returns the number of comparisons made."""
    from atsim.potentials import Potential
    ok, log = build_gen()
    if not ok:
        run.tie_broken("translator", "Gen/Logic.lean (%s writer)" % which, "the regenerated definitions (or their driver) do not build: " + log[-600:])
        return 0
    rng = run.rng
    cases, reqs = [], []
    for _ in range(n):
        npots = rng.randint(1, 3)
        pots = [dict(a="S%d" % i, b=rng.choice(["O", "S0", "Xx"]), fid=i + 1) for i in range(npots)]
        k = rng.randint(1, 5)
        if which == "lammps":
            N = rng.randint(2, 40)
            minr = Fr(rng.randint(1, 40), 2 ** k)
            maxr = minr + (N - 1) * Fr(rng.randint(1, 9), 2 ** k)
            reqs.append(dict(op="lammps", pots=pots, minr=common.fq(minr), maxr=common.fq(maxr), n=N))
            cases.append((pots, minr, maxr, N))
        elif which == "dlpoly":
            N = rng.choice([8, 12, 16, 20, 40, 10, 13, 7])
            cut = Fr(max(N - 4, 1), 2 ** k)
            reqs.append(dict(op="dlpoly", pots=pots, cut=common.fq(cut), n=N))
            cases.append((pots, cut, N))
        else:
            N = rng.randint(2, 40)
            cut = Fr(N - 1, 2 ** k)
            reqs.append(dict(op="gulp", pots=pots, cut=common.fq(cut), n=N))
            cases.append((pots, cut, N))
    answers = query_gen(reqs)
    counts = query_gen([dict(r, op="writes_" + r["op"]) for r in reqs])
    bad = 0
    for c, a, nw in zip(cases, answers, counts):
        pots = c[0]
        tracers = dict((p["fid"], Tracer(p["fid"])) for p in pots)
        objs = [Potential(p["a"], p["b"], tracers[p["fid"]]) for p in pots]
        buf = CountingIO()
        try:
            if which == "lammps":
                from atsim.potentials import _lammps_writeTABLE as m
                m.writePotentials(objs, float(c[1]), float(c[2]), c[3], buf)
            elif which == "dlpoly":
                from atsim.potentials import _dlpoly_writeTABLE as m
                m.writePotentials(objs, float(c[1]), c[2], buf)
            else:
                from atsim.potentials.pair_tabulation import GULP_PairTabulation
                GULP_PairTabulation(objs, float(c[1]), c[2]).write(buf)
            real = buf.getvalue()
        except Exception as e:
            real = "raised"
            if which != "dlpoly" or type(e).__name__ != "WritePotentialException":
                real = "raised %s" % type(e).__name__
        gen = a if a == "raised" else render(a, tracers)
        run.traces += 1
        run.dist["translator-validation/%s-writer" % which] += 1
        if _cls(buf.nwrites) != _cls(nw):
            bad += 1
            if bad <= 2:
                run.tie_broken("translator", "generated %s writer (destination mode) vs the real one" % which,
                               "potentials %s grid %s: %d write call(s) reached the real destination, %d chunk(s) in the generated definition" % (pots, [str(x) for x in c[1:]], buf.nwrites, nw))
        if real != gen:
            bad += 1
            if bad <= 2:
                run.tie_broken("translator", "generated %s writer vs the real one" % which,
                               "potentials %s grid %s: %s" % (pots, [str(x) for x in c[1:]], "real %r generated %r" % (real[:80], str(gen)[:80]) if "raised" in (real, gen) else _first_diff(real, gen)))
    return len(cases)


def validate_logic(run, which, n=200):
    """range_search (+ setter) and check_tuple: generated definitions vs the real methods on random inputs"""
    ok, log = build_gen()
    if not ok:
        run.tie_broken("translator", "Gen/Logic.lean (%s)" % which, "the regenerated definitions (or their driver) do not build: " + log[-600:])
        return 0
    rng = run.rng
    if which == "range_search":
        from atsim.potentials import create_Multi_Range_Potential_Form, Multi_Range_Defn
        cases, reqs = [], []
        for _ in range(n):
            m = rng.randint(1, 5)
            defs = [dict(t=rng.choice([">", ">="]), s=2 * rng.randint(0, 4), f=i + 1) for i in range(m)]
            rs = list(range(-1, 10))
            reqs.append(dict(op="range_search", defs=defs, rs=rs))
            cases.append((defs, rs))
        bad = 0
        for (defs, rs), a in zip(cases, query_gen(reqs)):
            f = create_Multi_Range_Potential_Form(*[Multi_Range_Defn(d["t"], float(d["s"]), (lambda r, k=d["f"]: float(k))) for d in defs])
            real = []
            for r in rs:
                t = f._range_search(float(r))
                real.append(None if t is None else int(t.potential_form(0.0)))
            run.traces += 1
            run.dist["translator-validation/range_search"] += 1
            if real != a:
                bad += 1
                if bad <= 2:
                    run.tie_broken("translator", "generated range_defns setter + _range_search vs the real ones", "definitions %s, r = %s: real %s generated %s" % (defs, rs, real, a))
        return len(cases)
    if which == "check_tuple":
        from atsim.potentials.config import ConfigParser, FilteredConfigParser
        cp = ConfigParser(io.StringIO("[Pair]\nA-B : as.zero\n"))
        pool = ["A", "B", "C", "Dd", "E"]
        cases, reqs = [], []
        for _ in range(n):
            S = rng.sample(pool, rng.randint(0, 4))
            ex = rng.random() < 0.5
            t = [rng.choice(pool) for _ in range(rng.randint(0, 3))]
            reqs.append(dict(op="check_tuple", S=S, exclude=ex, t=t))
            cases.append((S, ex, t))
        bad = 0
        for (S, ex, t), a in zip(cases, query_gen(reqs)):
            v = FilteredConfigParser(cp, exclude=S) if ex else FilteredConfigParser(cp, include=S)
            if ex and not S:
                continue          # (the constructor maps an empty exclude list to "no filter": same outcome, other route)
            real = v._check_tuple(tuple(t))
            run.traces += 1
            run.dist["translator-validation/check_tuple"] += 1
            if real != a:
                bad += 1
                if bad <= 2:
                    run.tie_broken("translator", "generated _check_tuple vs the real one", "species %s exclude=%s tuple %s: real %s generated %s" % (S, ex, t, real, a))
        return len(cases)
    raise InfraError("unknown logic validation %s" % which)


class _Zero(object):
    """function id 0: the zero function (the models' convention for `zero()` / `nullfunc` / `ZeroPair`)"""
    fid = 0

    def __call__(self, r):
        return 0.0

    def deriv(self, r):
        return 0.0


FAKE_LABELS = ["Al", "Cu", "Zz", "B", "Ag", "a", "Na"]


def validate_eam_writer(run, which, n=10):
    """which in tabeam | tabeam_fs | setfl | setfl_fs: the regenerated whole-file writers against writeTABEAM / writeTABEAMFinnisSinclair / _writeSetFL on
    tracer functions and dyadic grids (text compared byte for byte, header lines, comments and the optional cutoff of the public setfl functions included)"""
    from atsim.potentials import Potential, EAMPotential
    ok, log = build_gen()
    if not ok:
        run.tie_broken("translator", "Gen/Logic.lean (%s writer)" % which, "the regenerated definitions (or their driver) do not build: " + log[-600:])
        return 0
    rng = run.rng
    fs = which.endswith("_fs")
    cases, reqs = [], []
    for _ in range(n):
        nel = rng.randint(1, 3)
        labels = rng.sample(FAKE_LABELS, nel)
        fid = [0]

        def nf(zero_ok=True):
            if zero_ok and rng.random() < 0.15:
                return 0
            fid[0] += 1
            return fid[0]
        els = []
        for sp in labels:
            dfs = [dict(to=t, fid=nf()) for t in labels]
            if fs and rng.random() < 0.3:
                rng.shuffle(dfs)
            if which == "tabeam_fs" and rng.random() < 0.1 and dfs:
                dfs.pop(rng.randrange(len(dfs)))          # a missing dictionary entry: the real writer raises KeyError
            if fs and rng.random() < 0.2:
                dfs.append(dict(to="Qq", fid=nf()))         # an entry for a species that is not tabulated
            els.append(dict(sp=sp, z=rng.randint(1, 90), mass=common.fq(Fr(rng.randint(2, 400), 2)), a0=common.fq(Fr(rng.randint(2, 20), 4)), lat=rng.choice(["fcc", "bcc"]),
                            embed=nf(), dens=nf(), densFS=dfs))
        pots = []
        for _k in range(rng.randint(0, 4)):
            a, b = rng.choice(labels), rng.choice(labels + ["Other"])
            pots.append(dict(a=a, b=b, fid=nf(zero_ok=False)))
        k = rng.randint(1, 4)
        nrho, nr = rng.randint(1, 11), rng.randint(1, 11)
        drho, dr = Fr(rng.randint(1, 9), 2 ** k), Fr(rng.randint(1, 9), 2 ** k)
        title = rng.choice(["", "t", "a title", "x" * 120])
        comments = rng.choice([[], ["one"], ["a", "b", "c"], ["a", "", "c", "dropped"], ["", "", ""]])
        cutoff = rng.choice([None, None, Fr(0), Fr(rng.randint(1, 40), 4)])
        req = dict(op=which if which.startswith("tabeam") else "setfl", fs=fs, els=els, pots=pots, nrho=nrho, drho=common.fq(drho), nr=nr, dr=common.fq(dr), title=title, comments=comments)
        if cutoff is not None:
            req["cutoff"] = common.fq(cutoff)
        reqs.append(req)
        cases.append((els, pots, nrho, drho, nr, dr, title, comments, cutoff))
    answers = query_gen(reqs)
    counts = query_gen([dict(r, op="writes_" + r["op"]) for r in reqs])
    bad = 0
    for (els, pots, nrho, drho, nr, dr, title, comments, cutoff), a, nw in zip(cases, answers, counts):
        tracers = {0: _Zero()}
        for e in els:
            for f in [e["embed"], e["dens"]] + [d["fid"] for d in e["densFS"]]:
                tracers.setdefault(f, Tracer(f))
        for p in pots:
            tracers.setdefault(p["fid"], Tracer(p["fid"]))
        eobjs = [EAMPotential(e["sp"], e["z"], float(Fr(e["mass"])), tracers[e["embed"]],
                              dict((d["to"], tracers[d["fid"]]) for d in e["densFS"]) if fs else tracers[e["dens"]], float(Fr(e["a0"])), e["lat"]) for e in els]
        pobjs = [Potential(p["a"], p["b"], tracers[p["fid"]]) for p in pots]
        buf = CountingIO()
        try:
            if which == "tabeam":
                from atsim.potentials import _dlpoly_writeTABEAM as m
                m.writeTABEAM(nrho, float(drho), nr, float(dr), eobjs, pobjs, buf, title)
            elif which == "tabeam_fs":
                from atsim.potentials import _dlpoly_writeTABEAM as m
                m.writeTABEAMFinnisSinclair(nrho, float(drho), nr, float(dr), eobjs, pobjs, buf, title)
            else:
                from atsim.potentials import _lammpsWriteEAM as m
                (m.writeSetFLFinnisSinclair if fs else m.writeSetFL)(nrho, float(drho), nr, float(dr), eobjs, pobjs, buf, list(comments), None if cutoff is None else float(cutoff))
            real = buf.getvalue()
        except KeyError:
            real = "raised"
        gen = a if a == "raised" else render(a, tracers)
        run.traces += 1
        run.dist["translator-validation/%s-writer" % which] += 1
        if _cls(buf.nwrites) != _cls(nw):
            bad += 1
            if bad <= 2:
                run.tie_broken("translator", "generated %s writer (destination mode) vs the real one" % which,
                               "%d element(s), grids %s: %d write call(s) reached the real destination, %d chunk(s) in the generated definition" % (len(els), (nrho, str(drho), nr, str(dr)), buf.nwrites, nw))
        if real != gen:
            bad += 1
            if bad <= 2:
                run.tie_broken("translator", "generated %s writer vs the real one" % which,
                               "elements %s pair potentials %s grids %s: %s" % ([(e["sp"], e["embed"], e["dens"], [(d["to"], d["fid"]) for d in e["densFS"]]) for e in els], pots, (nrho, str(drho), nr, str(dr)),
                                                                              "real %r generated %r" % (real[:80], str(gen)[:80]) if "raised" in (real, gen) else _first_diff(real, gen)))
    return len(cases)


class _FakeCfg(object):
    """what the duplicate checks read of a parsed configuration: section names in order, the keys of a section in order"""

    def __init__(self, sections):
        self._s = sections

    def has_section(self, name):
        return any(n == name for n, _ in self._s)

    def sections(self):
        return [n for n, _ in self._s]

    def __getitem__(self, name):
        return next(list(k) for n, k in self._s if n == name)


def validate_cfg_logic(run, which, n=200):
    """pair_species | dup_pairs | dup_table_forms: the regenerated definitions against ConfigParser._pair_species_func / _check_for_duplicate_pairs /
    _TableFormSection.check_for_duplicate_table_forms on random keys and section lists"""
    from atsim.potentials.config import _config_parser as cpm
    from atsim.potentials.config._common import ConfigParserException, ConfigParserDuplicateEntryException
    ok, log = build_gen()
    if not ok:
        run.tie_broken("translator", "Gen/Logic.lean (%s)" % which, "the regenerated definitions (or their driver) do not build: " + log[-600:])
        return 0
    rng = run.rng
    labels = ["A", "B", "Cc", "D"]

    def key():
        r = rng.random()
        a, b = rng.choice(labels), rng.choice(labels)
        pad = lambda x: rng.choice(["", " ", "  ", "\t"]) + x + rng.choice(["", " ", "\t "])
        if r < 0.7:
            return pad(a) + "-" + pad(b)
        return rng.choice([a, a + "-", "-" + b, a + "-" + b + "-" + a, " - ", "", a + " - ", "--", a + "--" + b])
    inst = object.__new__(cpm.ConfigParser)

    def real_pair(k):
        try:
            p = cpm.ConfigParser._pair_species_func(inst, k)
            return [p[0], p[1]]
        except ConfigParserException as e:
            return "blankSpecies" if "label is missing" in str(e) else "notTwoParts"
    def fs_key():
        r = rng.random()
        labs = labels + ["O2-", "U4+", "a-b"]
        a, b = rng.choice(labs), rng.choice(labs)
        pad = lambda x: rng.choice(["", " ", "  ", "\t"]) + x + rng.choice(["", " ", "\t "])
        if r < 0.7:
            return pad(a) + "->" + pad(b)
        return rng.choice([a, a + "->", "->" + b, a + "->" + b + "->" + a, " -> ", "", a + " - > " + b, "->->", a + "-" + b, a + ">-" + b, a + "-->" + b, a + "->>" + b, "-", ">"])

    def real_fs(k):
        import io as _io
        full = cpm.ConfigParser(_io.StringIO(""))
        try:
            t = full._parse_eam_fs_density_line(k, "as.constant 1.0")
            return [t.species[0], t.species[1]]          # (from_species, to_species) in this order
        except ConfigParserException as e:
            return "blankSpecies" if "label is missing" in str(e) else "notTwoParts"
    cases, reqs = [], []
    if which == "fs_species":
        for _ in range(n):
            k = fs_key()
            reqs.append(dict(op="fs_species", k=k))
            cases.append(k)
        real = [real_fs(k) for k in cases]
    elif which == "pair_species":
        for _ in range(n):
            k = key()
            reqs.append(dict(op="pair_species", k=k))
            cases.append(k)
        real = [real_pair(k) for k in cases]
    elif which == "dup_pairs":
        for _ in range(n):
            secs = []
            for name in rng.sample(["Pair", "EAM-ADP-Dipole", "EAM-ADP-Quadrupole", "EAM-Embed", "Tabulation"], rng.randint(0, 4)):
                keys = []
                for _k in range(rng.randint(0, 4)):
                    k = key() if (name != "Tabulation" and rng.random() < 0.08) else "%s-%s" % (rng.choice(labels), rng.choice(labels))
                    if k not in keys:
                        keys.append(k)          # (a section never holds the same key text twice: the INI reader refuses that before)
                secs.append((name, keys))
            reqs.append(dict(op="dup_pairs", sections=[dict(name=a, keys=b) for a, b in secs]))
            cases.append(secs)
        real = []
        for secs in cases:
            inst._config_parser = _FakeCfg(secs)
            try:
                cpm.ConfigParser._check_for_duplicate_pairs(inst)
                real.append("ok")
            except ConfigParserDuplicateEntryException:
                real.append("duplicatePair")
            except ConfigParserException as e:
                real.append("blankSpecies" if "label is missing" in str(e) else "notTwoParts")
    elif which == "dup_table_forms":
        T = cpm._TableFormSection
        for _ in range(n):
            names = []
            for _k in range(rng.randint(0, 5)):
                r = rng.random()
                lab = rng.choice(["t1", "t2", "T1", "x y"])
                nm = rng.choice(["Table-Form:%s", "Table-Form : %s", " Table-Form:%s ", "Table-Form:  %s", "Table-Form:%s\t"]) % lab if r < 0.8 else rng.choice(["Pair", "Table-Form", "Table-Forms:t1", "Potential-Form"])
                if nm not in names:
                    names.append(nm)
            tbl = [dict(name=nm, relevant=bool(T.is_relevant_section(nm)), label=T._parse_name(nm) if T.is_relevant_section(nm) else "") for nm in names]
            reqs.append(dict(op="dup_table_forms", names=tbl))
            cases.append(names)
        real = []
        for names in cases:
            try:
                T.check_for_duplicate_table_forms(_FakeCfg([(nm, []) for nm in names]))
                real.append("ok")
            except ConfigParserDuplicateEntryException:
                real.append("duplicateTableForm")
    else:
        raise InfraError("unknown configuration-logic validation %s" % which)
    bad = 0
    for c, r, a in zip(cases, real, query_gen(reqs)):
        run.traces += 1
        run.dist["translator-validation/%s" % which] += 1
        if r != a:
            bad += 1
            if bad <= 2:
                run.tie_broken("translator", "generated %s vs the real one" % which, "input %r: real %r generated %r" % (c, r, a))
    return len(cases)


def validate_table_reader(run, n=150):
    """the regenerated TableReaderBase._findIndex / getValue against the real methods: sorted tables with distinct and with repeated abscissae, queries on, between and
    outside the rows (dyadic numbers: every value exact)"""
    import atsim.potentials as ap
    ok, log = build_gen()
    if not ok:
        run.tie_broken("translator", "Gen/Logic.lean (table reader)", "the regenerated definitions (or their driver) do not build: " + log[-600:])
        return 0
    rng = run.rng
    cases, reqs = [], []
    for _ in range(n):
        m = rng.randint(1, 7)
        xs = sorted(rng.sample(range(-8, 24), m)) if rng.random() < 0.8 else sorted(rng.choice(range(-4, 8)) for _k in range(m))
        rows = sorted((Fr(x, 4), Fr(rng.randint(-40, 40), 8)) for x in xs)
        qs = [Fr(q, 8) for q in rng.sample(range(-24, 56), 12)] + [r[0] for r in rows]
        reqs.append(dict(op="table_reader", rows=[dict(x=common.fq(a), y=common.fq(b)) for a, b in rows], xs=[common.fq(q) for q in qs]))
        cases.append((rows, qs))
    bad = 0
    for (rows, qs), a in zip(cases, query_gen(reqs)):
        text = "".join("%r %r\n" % (float(x), float(y)) for x, y in rows)
        tr = ap.TableReader(io.StringIO(text)).datReader
        for q, (gi, gv) in zip(qs, a):
            try:
                ri, rv = tr._findIndex(float(q)), tr.getValue(float(q))
            except ZeroDivisionError:
                continue          # two rows with one abscissa and a query between them: outside the property (the model divides by zero to 0; recorded by C18 itself)
            run.traces += 1
            run.dist["translator-validation/table_reader"] += 1
            # (the index is compared exactly; the interpolated value up to double rounding of the slope, which is not dyadic in general)
            if ri != gi or abs(rv - float(Fr(gv))) > 1e-12 * (1.0 + abs(rv)):
                bad += 1
                if bad <= 2:
                    run.tie_broken("translator", "generated _findIndex / getValue vs the real ones", "rows %s x=%s: real (%r, %r) generated (%r, %s)" % ([(str(x), str(y)) for x, y in rows], q, ri, rv, gi, gv))
    return len(cases)


def validate_cli_species(run, n=120):
    """the regenerated species choice of potable's `_do_tabulation` (which list, which mode, or no view at all) against the real function behind the real argument parser:
    `--include-species` / `--exclude-species` with no, one or several labels, or neither; the call of `_make_config_parser` is intercepted and its last two arguments compared"""
    import sys as _sys
    import atsim.potentials.tools.potable as pt
    ok, log = build_gen()
    if not ok:
        run.tie_broken("translator", "Gen/Logic.lean (species choice)", "the regenerated definitions (or their driver) do not build: " + log[-600:])
        return 0
    rng = run.rng
    labels = ["Al", "O", "O2-", "Cu", "Pu"]
    cases = []
    for _ in range(n):
        r = rng.random()
        if r < 0.2:
            cases.append((None, None))
        elif r < 0.6:
            cases.append((rng.sample(labels, rng.randint(0, 3)), None))
        else:
            cases.append((None, rng.sample(labels, rng.randint(0, 3))))
    answers = query_gen([dict(op="cli_species", include=i, exclude=e) for i, e in cases])

    class _Stop(Exception):
        pass
    captured = {}

    def _capture(cfg_file, overrides, additional, remove, species, exclude_flag):
        captured["v"] = [species, bool(exclude_flag)]
        raise _Stop()
    orig, old_argv = pt._make_config_parser, _sys.argv
    bad = 0
    try:
        pt._make_config_parser = _capture
        for (inc, exc), ans in zip(cases, answers):
            argv = ["potable", os.devnull, "OUT"]
            if inc is not None:
                argv += ["--include-species"] + inc
            if exc is not None:
                argv += ["--exclude-species"] + exc
            _sys.argv = argv
            parser, args = pt._parse_command_line()
            try:
                pt._do_tabulation(parser, args)
                real = "no-call"
            except _Stop:
                real = captured["v"]
            finally:
                try:
                    args.config_file.close()
                except Exception:
                    pass
            run.traces += 1
            run.dist["translator-validation/cli_species"] += 1
            if real != ans:
                bad += 1
                if bad <= 2:
                    run.tie_broken("translator", "generated species choice vs _do_tabulation", "%s: real %s generated %s" % (argv[3:], real, ans))
    finally:
        pt._make_config_parser, _sys.argv = orig, old_argv
    return len(cases)


def validate_cli_operations(run, n=200):
    """the regenerated command-line layer (_create_override_tuple, _item_id, the ordered dictionary of _make_config_parser) against the real function, whose final
    `ConfigParser(...)` call is intercepted: the two lists it is handed are compared (options with ':' and '=' in sections and values, whitespace variants of keys,
    repeated items, malformed options)"""
    import atsim.potentials.tools.potable as pt
    ok, log = build_gen()
    if not ok:
        run.tie_broken("translator", "Gen/Logic.lean (command-line layer)", "the regenerated definitions (or their driver) do not build: " + log[-600:])
        return 0
    rng = run.rng
    secs = ["Pair", "Potential-Form", "Table-Form:tab", "Variables", "Notes"]
    keys = ["A-B", "A - B", "f(r,a)", "f(r, a)", "f (r ,\ta)", "x", "nr"]
    vals = ["as.buck 1.0 0.3 0.0", "a=b", "if(r >= 1, a, 2*a)", "", "x:y", " padded "]

    def opt(has_value):
        r = rng.random()
        if r < 0.06:
            return rng.choice(["nocolon", "Pair", "=v", "Pair:A-B" if has_value else "nocolon"])        # malformed (no '=' where one is needed, no ':')
        t = "%s:%s" % (rng.choice(secs), rng.choice(keys))
        return t + ("=" + rng.choice(vals) if has_value else "")

    def group(has_value):
        if rng.random() < 0.25:
            return None
        return [[opt(has_value) for _ in range(rng.randint(0, 3))] for _g in range(rng.randint(0, 3))]
    cases = [(group(True), group(True), group(False)) for _ in range(n)]
    answers = query_gen([dict(op="cli_operations", overrides=o, additional=a, removes=r) for o, a, r in cases])
    captured = {}

    class _Capture(object):
        def __init__(self, fp, overrides=None, additional=None):
            captured["o"], captured["a"] = overrides, additional
    orig = pt.ConfigParser
    bad = 0
    try:
        pt.ConfigParser = _Capture
        for (o, a, r), ans in zip(cases, answers):
            try:
                pt._make_config_parser(None, o, a, r, None, None)
                real = dict(overrides=[[t.section, t.key, t.value] for t in captured["o"]], additional=[[t.section, t.key, t.value] for t in captured["a"]])
            except ValueError:
                real = "malformedOption"
            run.traces += 1
            run.dist["translator-validation/cli_operations"] += 1
            if real != ans:
                bad += 1
                if bad <= 2:
                    run.tie_broken("translator", "generated command-line layer vs _make_config_parser", "-e %s -a %s -r %s: real %s generated %s" % (o, a, r, real, ans))
    finally:
        pt.ConfigParser = orig
    return len(cases)


def validate_tabulation_objects(run, kinds=("lammps", "dlpoly", "setfl", "setfl_fs", "tabeam", "tabeam_fs", "adp"), n=8):
    """the regenerated `write` methods of the tabulation objects (with their `dr` / `drho` properties) against the real classes: text byte for byte and the number of
    `write` calls reaching the destination; cutoffs chosen so that the steps are dyadic"""
    from atsim.potentials import Potential, EAMPotential
    from atsim.potentials import pair_tabulation as ptab, eam_tabulation as etab
    ok, log = build_gen()
    if not ok:
        run.tie_broken("translator", "Gen/Logic.lean (tabulation objects)", "the regenerated definitions (or their driver) do not build: " + log[-600:])
        return 0
    rng = run.rng
    cases, reqs = [], []
    for which in kinds:
        for _ in range(n):
            fs = which.endswith("_fs")
            k = rng.randint(1, 4)
            nr = rng.choice([8, 12, 16, 10, 7]) if which == "dlpoly" else rng.randint(3 if which == "lammps" else 2, 11)      # (LAMMPS with nr = 2 divides 0 by 0: outside C01's domain)
            cut = Fr(max(nr - 4, 1), 2 ** k) if which == "dlpoly" else Fr(nr - 1, 2 ** k) * rng.randint(1, 3)
            nrho = rng.randint(2, 9)
            cutrho = Fr(nrho - 1, 2 ** rng.randint(1, 4)) * rng.randint(1, 3)
            labels = rng.sample(FAKE_LABELS, rng.randint(1, 3))
            fid = [0]

            def nf():
                fid[0] += 1
                return fid[0]
            els = [dict(sp=sp, z=rng.randint(1, 90), mass=common.fq(Fr(rng.randint(2, 400), 2)), a0=common.fq(Fr(rng.randint(2, 20), 4)), lat="fcc",
                        embed=nf(), dens=nf(), densFS=[dict(to=t, fid=nf()) for t in labels]) for sp in labels]
            mk = lambda: [dict(a=rng.choice(labels), b=rng.choice(labels), fid=nf()) for _k in range(rng.randint(0, 3))]
            pots, dip, quad = mk(), mk(), mk()
            if which in ("lammps", "dlpoly"):
                pots = pots or [dict(a="A", b="B", fid=nf())]
            reqs.append(dict(op="tab_write", which=which, nr=nr, cut=common.fq(cut), nrho=nrho, cutrho=common.fq(cutrho), els=els, pots=pots, dipoles=dip, quadrupoles=quad))
            cases.append((which, nr, cut, nrho, cutrho, els, pots, dip, quad))
    bad = 0
    for (which, nr, cut, nrho, cutrho, els, pots, dip, quad), a in zip(cases, query_gen(reqs)):
        fs = which.endswith("_fs")
        tracers = {0: _Zero()}
        for e in els:
            for f in [e["embed"], e["dens"]] + [d["fid"] for d in e["densFS"]]:
                tracers.setdefault(f, Tracer(f))
        for p in pots + dip + quad:
            tracers.setdefault(p["fid"], Tracer(p["fid"]))
        eobjs = [EAMPotential(e["sp"], e["z"], float(Fr(e["mass"])), tracers[e["embed"]],
                              dict((d["to"], tracers[d["fid"]]) for d in e["densFS"]) if fs else tracers[e["dens"]], float(Fr(e["a0"])), e["lat"]) for e in els]
        mkp = lambda l: [Potential(p["a"], p["b"], tracers[p["fid"]]) for p in l]
        buf = CountingIO()
        try:
            if which == "lammps":
                ptab.LAMMPS_PairTabulation(mkp(pots), float(cut), nr).write(buf)
            elif which == "dlpoly":
                ptab.DLPoly_PairTabulation(mkp(pots), float(cut), nr).write(buf)
            elif which == "adp":
                etab.ADP_EAMTabulation(mkp(pots), eobjs, mkp(dip), mkp(quad), float(cut), nr, float(cutrho), nrho).write(buf)
            else:
                cls = dict(setfl=etab.SetFL_EAMTabulation, setfl_fs=etab.SetFL_FS_EAMTabulation, tabeam=etab.TABEAM_EAMTabulation, tabeam_fs=etab.TABEAM_FinnisSinclair_EAMTabulation)[which]
                cls(mkp(pots), eobjs, float(cut), nr, float(cutrho), nrho).write(buf)
            real = buf.getvalue()
        except Exception as e:
            real = "raised" if type(e).__name__ in ("WritePotentialException", "KeyError") else "raised %s" % type(e).__name__
        gen = a["toks"] if a["toks"] == "raised" else render(a["toks"], tracers)
        run.traces += 1
        run.dist["translator-validation/%s-tabulation-object" % which] += 1
        if real != gen or _cls(buf.nwrites) != _cls(a["writes"]):
            bad += 1
            if bad <= 2:
                run.tie_broken("translator", "generated %s tabulation object's write vs the real one" % which,
                               "nr %s cutoff %s nrho %s cutoff_rho %s, %d element(s): %s; write calls real %d generated %d" % (
                                   nr, cut, nrho, cutrho, len(els), "same text" if real == gen else ("real %r generated %r" % (real[:80], str(gen)[:80]) if "raised" in (real[:6], str(gen)[:6]) else _first_diff(real, gen)),
                                   buf.nwrites, a["writes"]))
    return len(cases)


def validate_eam_builder(run, n=60):
    """the regenerated EAM_Potential_Builder (zero-filling and strict) against the real class on generated potable models: which elements are built, in which order,
    with which atomic number / mass / lattice constant / lattice type (reference data, [Species] overrides, defaults) and which functions (zero where undeclared)"""
    from atsim.potentials.config import ConfigParser
    from atsim.potentials.config._potential_form_registry import Potential_Form_Registry
    from atsim.potentials.config._modifier_registry import Modifier_Registry
    from atsim.potentials.config._eam_potential_builder import EAM_Potential_Builder
    from atsim.potentials.config._common import ConfigurationException
    from atsim.potentials.referencedata import Reference_Data, Reference_Data_Exception
    ok, log = build_gen()
    if not ok:
        run.tie_broken("translator", "Gen/Logic.lean (EAM builder)", "the regenerated definitions (or their driver) do not build: " + log[-600:])
        return 0
    rng = run.rng
    pool = ["Al", "Cu", "Fe", "Zn", "Sn", "Xx", "Qq", "Mg"]
    cases, reqs = [], []
    for _ in range(n):
        labels = rng.sample(pool, rng.randint(1, 5))
        emb = [l for l in labels if rng.random() < 0.75]
        den = [l for l in labels if rng.random() < 0.75]
        rng.shuffle(emb)
        rng.shuffle(den)
        fid = [0]

        def nf():
            fid[0] += 1
            return fid[0]
        erows = [(l, nf()) for l in emb]
        drows = [(l, nf()) for l in den]
        species = {}
        for l in labels:
            if l in ("Xx", "Qq"):
                props = {}
                if rng.random() < 0.85:
                    props["atomic_number"] = rng.randint(1, 99)
                if rng.random() < 0.85:
                    props["atomic_mass"] = rng.randint(2, 400) / 2.0
                if rng.random() < 0.5:
                    props["lattice_constant"] = rng.randint(2, 20) / 4.0
                if rng.random() < 0.5:
                    props["lattice_type"] = rng.choice(["bcc", "hcp"])
                if props:
                    species[l] = props
            elif rng.random() < 0.3:
                species[l] = {"atomic_mass": rng.randint(2, 400) / 2.0}
        add_undefined = rng.random() < 0.8
        text = "[Tabulation]\ntarget : setfl\ncutoff : 4.0\nnr : 8\ncutoff_rho : 2.0\nnrho : 4\n\n[Pair]\n\n[EAM-Embed]\n"
        text += "".join("%s : >=0 as.polynomial %d.0 1.0\n" % (l, 64 * f) for l, f in erows) + "\n[EAM-Density]\n"
        text += "".join("%s : >=0 as.polynomial %d.0 1.0\n" % (l, 64 * f) for l, f in drows)
        if species:
            text += "\n[Species]\n" + "".join("%s.%s : %s\n" % (l, k, v) for l, pr in species.items() for k, v in pr.items())
        cp = ConfigParser(io.StringIO(text))
        rd = Reference_Data(cp.species)

        def ref(l, what):
            try:
                return rd.get(l, what)
            except Reference_Data_Exception:
                return None
        meta = []
        for l in labels:
            row = dict(sp=l)
            for key, what, conv in (("z", "atomic_number", int), ("mass", "atomic_mass", lambda v: common.fq(Fr(v))), ("a0", "lattice_constant", lambda v: common.fq(Fr(v))), ("lat", "lattice_type", str)):
                v = ref(l, what)
                if v is not None:
                    row[key] = conv(v)
            meta.append(row)
        reqs.append(dict(op="eam_builder", embed=[dict(sp=l, fid=f) for l, f in erows], density=[dict(sp=l, fid=f) for l, f in drows], meta=meta, add_undefined=add_undefined,
                         reverse=rng.random() < 0.5))
        cases.append((text, cp, rd, add_undefined))
    bad = 0
    for (text, cp, rd, add_undefined), a in zip(cases, query_gen(reqs)):
        try:
            b = EAM_Potential_Builder(cp, Potential_Form_Registry(cp, register_standard=True), Modifier_Registry(), rd, add_undefined=add_undefined)
            real = []
            for e in b.eam_potentials:
                dec = lambda f: int(round((f(1.0) - 1.0) / 64.0)) if f(1.0) != 0.0 else 0
                real.append([e.species, int(e.atomicNumber), common.fq(Fr(e.mass)), common.fq(Fr(e.latticeConstant)), str(e.latticeType), dec(e.embeddingFunction), dec(e.electronDensityFunction)])
        except ConfigurationException as e:
            m = str(e)
            real = "speciesMismatch" if "do not match" in m else ("noMass" if "atomic mass" in m else ("noAtomicNumber" if "atomic number" in m else "other: " + m[:80]))
        run.traces += 1
        run.dist["translator-validation/eam_builder"] += 1
        if real != a:
            bad += 1
            if bad <= 2:
                run.tie_broken("translator", "generated EAM_Potential_Builder vs the real one", "model %r (add_undefined=%s): real %s generated %s" % (text[95:400], add_undefined, real, a))
    return len(cases)


def validate_modifiers(run, n=60):
    """the regenerated sum / product / pow modifiers (`_modifiers.py`: `_modifier_from_func_reduce` and its three callers) against the real functions: constant
    argument callables whose values identify them (sum: distinct powers of two, product: distinct primes, pow: small bases and exponents), the real
    atsim.potentials.plus / product / pow as the combinators; the value of the real modifier at a point against the generated fold's value"""
    import atsim.potentials.config
    from atsim.potentials import _modifiers
    ok, log = build_gen()
    if not ok:
        run.tie_broken("translator", "Gen/Logic.lean (modifiers)", "the regenerated definitions (or their driver) do not build: " + log[-600:])
        return 0
    rng = run.rng

    class Builder(object):
        def __init__(self):
            self.made = []

        def create_potential_function(self, pfi):
            self.made.append(pfi)
            v = float(pfi)
            return lambda r: v
    cases, reqs = [], []
    for _ in range(n):
        which = rng.choice(["sum", "product", "pow"])
        if which == "sum":
            ids = rng.sample([1, 2, 4, 8, 16, 32, 64], rng.randint(0 if rng.random() < 0.1 else 1, 6))
        elif which == "product":
            ids = rng.sample([2, 3, 5, 7, 11, 13], rng.randint(0 if rng.random() < 0.1 else 1, 6))
        else:
            ids = [rng.choice([2, 3, 4])] + [rng.choice([1, 2, 3]) for _ in range(rng.randint(0, 2))]
        cases.append((which, ids))
        reqs.append(dict(op="modifiers", which=which, ids=ids))
    bad = 0
    for (which, ids), a in zip(cases, query_gen(reqs)):
        b = Builder()
        try:
            f = getattr(_modifiers, which)(list(ids), b)
            real = int(f(1.5)) if float(f(1.5)) == int(f(1.5)) else f(1.5)
            if b.made != ids:
                real = "callables made for %s" % (b.made,)
        except TypeError:
            real = "noArguments"
        run.traces += 1
        run.dist["translator-validation/modifiers/%s" % which] += 1
        if real != a:
            bad += 1
            if bad <= 2:
                run.tie_broken("translator", "generated %s() modifier vs the real one" % which, "arguments with values %s: real %s generated %s" % (ids, real, a))
    return len(cases)


def validate_register_each_other(run, n=12):
    """the regenerated Potential_Form_Registry._register_with_each_other against the real registry: [Potential-Form] and [Table-Form] entries in random number and
    order; what each custom form's symbol table holds afterwards (the labels registered with it) and the order of the register_function calls (recorded by wrapping
    the method) against the generated call list"""
    import atsim.potentials.config
    from atsim.potentials.config import ConfigParser
    from atsim.potentials.config._potential_form_registry import Potential_Form_Registry
    from atsim.potentials.config._cexprtk_potential_function import _Cexptrk_Potential_Function
    from atsim.potentials.config._python_potential_function import _Python_Potential_Function
    ok, log = build_gen()
    if not ok:
        run.tie_broken("translator", "Gen/Logic.lean (registry)", "the regenerated definitions (or their driver) do not build: " + log[-600:])
        return 0
    rng = run.rng
    cases, reqs = [], []
    for _ in range(n):
        ntab, ncus = rng.randint(0, 2), rng.randint(0, 5)
        tabs = ["tb%d" % i for i in range(ntab)]
        cus = ["cf%d" % i for i in range(ncus)]
        rng.shuffle(cus)
        text = "[Pair]\n\n" + "".join("[Table-Form:%s]\ninterpolation : cubic_spline\nx : 0 1 2 3\ny : 0 1 4 9\n\n" % t for t in tabs)
        text += "[Potential-Form]\n" + "".join("%s(r, A) : A*r + %d\n" % (c, i) for i, c in enumerate(cus))
        cases.append((text, tabs + cus))
        reqs.append(dict(op="register_each_other", n=len(tabs) + len(cus)))
    bad = 0
    for (text, labels), a in zip(cases, query_gen(reqs)):
        calls = []
        saved = [(c, c.register_function) for c in (_Cexptrk_Potential_Function, _Python_Potential_Function)]

        def wrap(orig):
            def register_function(self, func):
                calls.append((self._potential_form_tuple.signature.label if hasattr(self._potential_form_tuple, "signature") else self._potential_form_tuple.name,
                              func._potential_form_tuple.signature.label if hasattr(func._potential_form_tuple, "signature") else func._potential_form_tuple.name))
                return orig(self, func)
            return register_function
        try:
            for c, o in saved:
                c.register_function = wrap(o)
            reg = Potential_Form_Registry(ConfigParser(io.StringIO(text)))
        finally:
            for c, o in saved:
                c.register_function = o
        order = list(reg._potential_forms.keys())
        real = [[order.index(x), order.index(y)] for x, y in calls]
        held = {l: sorted(k for k in reg[l].potential_function._local_symbol_table.functions.keys() if k in order) for l in order
                if isinstance(reg[l].potential_function, _Cexptrk_Potential_Function)}
        gen_held = {l: sorted(order[y] for x, y in a if order[x] == l) for l in held}
        run.traces += 1
        run.dist["translator-validation/register_with_each_other/n=%d" % len(order)] += 1
        if real != a or held != gen_held or sorted(order) != sorted(labels):
            bad += 1
            if bad <= 2:
                run.tie_broken("translator", "generated _register_with_each_other vs the real registry", "forms %s: real calls %s generated %s; symbol tables hold %s, generated %s"
                               % (order, real, a, held, gen_held))
    return len(cases)


def validate_pair_builder(run, n=40):
    """the regenerated Potential_Form_Builder (`_make_multi_range_tuple`, `create_potential_function`) and Pair_Potentials_From_Tuples_Builder (`_create_potential`,
    `_init_potentials`) against the real classes on generated definition trees (the real namedtuples: form instances and modifiers nested to depth 2, 1..4 ranges with
    and without starts, names the registries know or do not know, factories that raise ConfigurationException); the registries are dictionaries of recording factories
    and `create_Multi_Range_Potential_Form` of the builder's module is replaced by a recorder, so that what is compared is the Multi_Range_Defn list each row's
    callable was made from (range types, starts, which factory with how many arguments), the rows' species and order, and the class of the error"""
    import atsim.potentials.config
    from atsim.potentials.config import _potential_form_builder as pfbmod
    from atsim.potentials.config._pair_potential_builder import Pair_Potentials_From_Tuples_Builder
    from atsim.potentials.config._common import (PotentialFormInstanceTuple, PotentialModifierTuple, MultiRangeDefinitionTuple, PairPotentialTuple, SpeciesTuple,
                                                  ConfigurationException, Unknown_Modifier_Exception)
    ok, log = build_gen()
    if not ok:
        run.tie_broken("translator", "Gen/Logic.lean (form builder)", "the regenerated definitions (or their driver) do not build: " + log[-600:])
        return 0
    rng = run.rng

    def gen_inst(ctr, depth, ranges, state):
        """-> (real tuple, json) for a chain of `ranges` range definitions"""
        ctr[0] += 1
        nid = ctr[0]
        start = None
        if rng.random() < 0.7:
            start = (rng.choice([">", ">="]), rng.randint(0, 40))
        nxt = gen_inst(ctr, depth, ranges - 1, state) if ranges > 1 else (None, None)
        rstart = MultiRangeDefinitionTuple(start[0], float(start[1])) if start else None
        jstart = dict(rt=start[0], start=str(start[1])) if start else None
        known = rng.random() < state["p_known"]
        fails = known and rng.random() < state["p_fail"]
        if depth > 0 and rng.random() < 0.35:
            name = "m%d" % nid
            args = [gen_inst(ctr, depth - 1, 1, state) for _ in range(rng.randint(1, 3))]
            if known:
                state["modifiers"].append(name)
            if fails:
                state["failing"].append(name)
            return (PotentialModifierTuple(name, [a[0] for a in args], rstart, nxt[0]),
                    dict(mod=True, name=name, params=[], args=[a[1] for a in args], start=jstart, next=nxt[1]))
        name = "f%d" % nid
        params = [rng.randint(-8, 8) / 4.0 for _ in range(rng.randint(0, 4))]
        if known:
            state["forms"].append(name)
        if fails:
            state["failing"].append(name)
        return (PotentialFormInstanceTuple(name, params, rstart, nxt[0]),
                dict(mod=False, name=name, params=[common.fq(Fr(p)) for p in params], args=[], start=jstart, next=nxt[1]))
    cases, reqs = [], []
    for _ in range(n):
        mode = rng.random()
        state = dict(forms=[], modifiers=[], failing=[], p_known=1.0 if mode < 0.6 else 0.9, p_fail=0.0 if mode < 0.8 else 0.12)
        ctr = [0]
        rows, jrows = [], []
        for i in range(rng.randint(0 if rng.random() < 0.05 else 1, 4)):
            a, b = rng.choice(["Al", "O", "U", "Gd"]), rng.choice(["Al", "O", "U", "Gd"])
            real, js = gen_inst(ctr, 2, rng.randint(1, 4), state)
            rows.append(PairPotentialTuple(SpeciesTuple(a, b), real))
            jrows.append(dict(a=a, b=b, inst=js))
        cases.append((rows, state))
        reqs.append(dict(op="pair_builder", forms=state["forms"], modifiers=state["modifiers"], failing=state["failing"], rows=jrows))
    bad = 0
    saved = pfbmod.create_Multi_Range_Potential_Form
    for (rows, state), a in zip(cases, query_gen(reqs)):
        class Token(object):
            def __init__(self, code):
                self.code = code

        def factory(name, modifier):
            nid = int(name[1:])

            def make(*args):
                if name in state["failing"]:
                    raise ConfigurationException("factory %s refuses" % name)
                return Token(nid * 10 + (len(args[0]) if modifier else len(args)))
            return make
        forms = {nm: factory(nm, False) for nm in state["forms"]}
        mods = {nm: factory(nm, True) for nm in state["modifiers"]}

        def recorder(*tuples):
            code = 0
            for t in tuples:
                sc = 0 if t.start == float("-inf") else int(t.start) + 1
                code = code * 10000000 + ((t.potential_form.code * 100 + sc) * 4 + {">": 1, ">=": 2}.get(t.range_type, 3)) + 1
            return Token(code)
        pfbmod.create_Multi_Range_Potential_Form = recorder
        try:
            pots = Pair_Potentials_From_Tuples_Builder(rows, forms, mods).potentials
            real = [[p.speciesA, p.speciesB, p.potentialFunction.code] for p in pots]
        except Unknown_Modifier_Exception as e:
            real = "unknownModifier"
        except ConfigurationException as e:
            m = str(e)
            real = "unknownForm" if m.startswith("Unknown potential form") else ("problemDefining" if m.startswith("Problem defining") else "other: " + m[:80])
        finally:
            pfbmod.create_Multi_Range_Potential_Form = saved
        run.traces += 1
        run.dist["translator-validation/pair_builder/%s" % (real if isinstance(real, str) else "ok rows=%d" % len(real))] += 1
        if real != a:
            bad += 1
            if bad <= 2:
                run.tie_broken("translator", "generated form builder / pair builder vs the real classes", "rows %r (known forms %s, modifiers %s, failing %s): real %s generated %s"
                               % (rows, state["forms"], state["modifiers"], state["failing"], real, a))
    return len(cases)


def validate_read_from_parser(run, n=40):
    """the regenerated Configuration.read_from_parser against the real method: a Configuration whose factory table is replaced by recording factories (the real
    table's names or others), a parser object reporting a target or none"""
    import atsim.potentials.config
    from atsim.potentials.config import Configuration
    from atsim.potentials.config._common import ConfigurationException
    from atsim.potentials.config._tabulation_factories import TABULATION_FACTORIES
    ok, log = build_gen()
    if not ok:
        run.tie_broken("translator", "Gen/Logic.lean (Configuration)", "the regenerated definitions (or their driver) do not build: " + log[-600:])
        return 0
    rng = run.rng
    real_names = list(TABULATION_FACTORIES.keys())
    cases, reqs = [], []
    for _ in range(n):
        names = rng.sample(real_names, rng.randint(0, len(real_names))) if rng.random() < 0.7 else real_names[:]
        if rng.random() < 0.2 and "LAMMPS" in names:
            names.remove("LAMMPS")
        failing = [x for x in names if rng.random() < 0.15]
        target = rng.choice([None, None] + real_names + ["lammps", "nonsense", "", "LAMMPS "])
        cases.append((names, failing, target))
        reqs.append(dict(op="read_from_parser", factories=names, failing=failing, target=target))
    bad = 0
    for (names, failing, target), a in zip(cases, query_gen(reqs)):
        class Fac(object):
            def __init__(self, i, nm):
                self.i, self.nm = i, nm

            def create_tabulation(self, cp):
                if self.nm in failing:
                    raise ConfigurationException("factory refuses")
                return self.i

        class Cp(object):
            class tabulation(object):
                pass
        Cp.tabulation.target = target
        c = Configuration()
        c._tabulation_factories = dict((nm, Fac(i, nm)) for i, nm in enumerate(names))
        import logging
        logging.disable(logging.CRITICAL)
        try:
            real = c.read_from_parser(Cp())
        except ConfigurationException as e:
            real = "unknownTarget" if "unknown tabulation target" in str(e) else "factory"
        finally:
            logging.disable(logging.NOTSET)
        run.traces += 1
        run.dist["translator-validation/read_from_parser/%s" % (real if isinstance(real, str) else "ok")] += 1
        if real != a:
            bad += 1
            if bad <= 2:
                run.tie_broken("translator", "generated Configuration.read_from_parser vs the real method", "factories %s failing %s target %r: real %s generated %s" % (names, failing, target, real, a))
    return len(cases)


def validate_eam_builder_fs(run, n=60):
    """the regenerated EAM_Potential_Builder_FS (zero-filling and strict; the four methods the subclass overrides and the inherited ones as they run on it) against the
    real class on generated Finnis-Sinclair potable models: which elements are built, in which order, with which reference data and embedding function, and WHICH
    FUNCTION STANDS UNDER WHICH NEIGHBOUR SPECIES in each element's density dictionary (zero where undeclared)"""
    import atsim.potentials.config
    from atsim.potentials.config import ConfigParser
    from atsim.potentials.config._potential_form_registry import Potential_Form_Registry
    from atsim.potentials.config._modifier_registry import Modifier_Registry
    from atsim.potentials.config._eam_potential_builder import EAM_Potential_Builder_FS
    from atsim.potentials.config._common import ConfigurationException
    from atsim.potentials.referencedata import Reference_Data, Reference_Data_Exception
    ok, log = build_gen()
    if not ok:
        run.tie_broken("translator", "Gen/Logic.lean (Finnis-Sinclair builder)", "the regenerated definitions (or their driver) do not build: " + log[-600:])
        return 0
    rng = run.rng
    pool = ["Al", "Cu", "Fe", "Zn", "Sn", "Xx", "Qq", "Mg"]
    cases, reqs = [], []
    for _ in range(n):
        labels = rng.sample(pool, rng.randint(1, 4))
        emb = [l for l in labels if rng.random() < 0.75]
        rng.shuffle(emb)
        combos = [(a, b) for a in labels for b in labels]
        rng.shuffle(combos)
        den = [c for c in combos if rng.random() < 0.55]
        fid = [0]

        def nf():
            fid[0] += 1
            return fid[0]
        erows = [(l, nf()) for l in emb]
        drows = [(a, b, nf()) for a, b in den]
        species = {}
        for l in labels:
            if l in ("Xx", "Qq"):
                props = {}
                if rng.random() < 0.85:
                    props["atomic_number"] = rng.randint(1, 99)
                if rng.random() < 0.85:
                    props["atomic_mass"] = rng.randint(2, 400) / 2.0
                if rng.random() < 0.5:
                    props["lattice_constant"] = rng.randint(2, 20) / 4.0
                if rng.random() < 0.5:
                    props["lattice_type"] = rng.choice(["bcc", "hcp"])
                if props:
                    species[l] = props
            elif rng.random() < 0.3:
                species[l] = {"atomic_mass": rng.randint(2, 400) / 2.0}
        add_undefined = rng.random() < 0.8
        text = "[Tabulation]\ntarget : setfl_fs\ncutoff : 4.0\nnr : 8\ncutoff_rho : 2.0\nnrho : 4\n\n[Pair]\n\n[EAM-Embed]\n"
        text += "".join("%s : >=0 as.polynomial %d.0 1.0\n" % (l, 64 * f) for l, f in erows) + "\n[EAM-Density]\n"
        text += "".join("%s->%s : >=0 as.polynomial %d.0 1.0\n" % (a, b, 64 * f) for a, b, f in drows)
        if species:
            text += "\n[Species]\n" + "".join("%s.%s : %s\n" % (l, k, v) for l, pr in species.items() for k, v in pr.items())
        cp = ConfigParser(io.StringIO(text))
        rd = Reference_Data(cp.species)

        def ref(l, what):
            try:
                return rd.get(l, what)
            except Reference_Data_Exception:
                return None
        meta = []
        for l in labels:
            row = dict(sp=l)
            for key, what, conv in (("z", "atomic_number", int), ("mass", "atomic_mass", lambda v: common.fq(Fr(v))), ("a0", "lattice_constant", lambda v: common.fq(Fr(v))), ("lat", "lattice_type", str)):
                v = ref(l, what)
                if v is not None:
                    row[key] = conv(v)
            meta.append(row)
        reqs.append(dict(op="eam_builder_fs", embed=[dict(sp=l, fid=f) for l, f in erows], density=[{"from": a, "to": b, "fid": f} for a, b, f in drows], meta=meta,
                         add_undefined=add_undefined, reverse=rng.random() < 0.5))
        cases.append((text, cp, rd, add_undefined))
    bad = 0
    for (text, cp, rd, add_undefined), a in zip(cases, query_gen(reqs)):
        try:
            b = EAM_Potential_Builder_FS(cp, Potential_Form_Registry(cp, register_standard=True), Modifier_Registry(), rd, add_undefined=add_undefined)
            real = []
            dec = lambda f: int(round((f(1.0) - 1.0) / 64.0)) if f(1.0) != 0.0 else 0
            for e in b.eam_potentials:
                real.append([e.species, int(e.atomicNumber), common.fq(Fr(e.mass)), common.fq(Fr(e.latticeConstant)), str(e.latticeType), dec(e.embeddingFunction),
                             [[k, dec(v)] for k, v in sorted(e.electronDensityFunction.items())]])
        except ConfigurationException as e:
            m = str(e)
            real = "speciesMismatch" if "do not match" in m else ("noMass" if "atomic mass" in m else ("noAtomicNumber" if "atomic number" in m else "other: " + m[:80]))
        except KeyError:
            real = "keyError"
        run.traces += 1
        run.dist["translator-validation/eam_builder_fs/%s" % (real if isinstance(real, str) else "ok n=%d" % len(real))] += 1
        if real != a:
            bad += 1
            if bad <= 2:
                run.tie_broken("translator", "generated EAM_Potential_Builder_FS vs the real one", "model %r (add_undefined=%s): real %s generated %s" % (text[98:420], add_undefined, real, a))
    return len(cases)


def validate_create_tabulation(run, n=60):
    """the regenerated create_tabulation of the pair, DL_POLY, LAMMPS and EAM factories (with extract_potential_objects / extract_tabulation_args) against the real
    methods: fresh factory objects of the real classes whose tabulation class is a recorder, a parser object that reports [Tabulation] values (each present or None),
    the pair-object and EAM builders replaced by stand-ins that return lists or raise: the recorded constructor arguments (which value in which position) or the error"""
    import atsim.potentials.config
    from atsim.potentials.config import _tabulation_factories as tf
    from atsim.potentials.config._common import ConfigurationException
    ok, log = build_gen()
    if not ok:
        run.tie_broken("translator", "Gen/Logic.lean (factories)", "the regenerated definitions (or their driver) do not build: " + log[-600:])
        return 0
    rng = run.rng
    cases, reqs = [], []
    for _ in range(n):
        which = rng.choice(["pair", "dlpoly", "lammps", "eam", "adp"])
        sec = dict(cutoff=rng.choice([None, 2.5, 12.0, 0.5]), nr=rng.choice([None, 1, 2, 3, 4, 5, 8, 12, 1000, 1001]),
                   cutoff_rho=rng.choice([None, 50.0, 3.25]), nrho=rng.choice([None, 7, 500]))
        pf, bf = rng.random() < 0.12, rng.random() < 0.12
        sfail = [nm for nm in ("EAM-ADP-Dipole", "EAM-ADP-Quadrupole") if rng.random() < 0.1]
        cases.append((which, sec, pf, bf, sfail))
        reqs.append(dict(op="create_tabulation", which=which, pair_fails=pf, builder_fails=bf, sections_fail=sfail,
                         **dict((k, (None if v is None else (common.fq(Fr(v)) if k.startswith("cutoff") else v))) for k, v in sec.items())))
    bad = 0
    saved = (tf._create_pair_objects, tf.Potential_Form_Registry, tf.Modifier_Registry, tf.Reference_Data, tf.Pair_Potentials_From_Tuples_Builder)
    import logging
    logging.disable(logging.CRITICAL)
    try:
        tf.Potential_Form_Registry = lambda *a, **k: "pfr"
        tf.Modifier_Registry = lambda *a, **k: "mr"
        tf.Reference_Data = lambda *a, **k: "rd"
        for (which, sec, pf, bf, sfail), a in zip(cases, query_gen(reqs)):
            class Pot(object):
                speciesA, speciesB = "A", "B"

            class Eam(object):
                species = "X"
                electronDensityFunction = None

            def pair_objects(pfr, mr, cp):
                if pf:
                    raise ConfigurationException("pair builder refuses")
                return [Pot(), Pot()]

            class Builder(object):
                def __init__(self, cp, pfr, mr, rd):
                    if bf:
                        raise ConfigurationException("EAM builder refuses")
                    self.eam_potentials = [Eam(), Eam(), Eam()]

            def recorder(*args):
                return [len(x) if isinstance(x, list) else x for x in args]
            tf._create_pair_objects = pair_objects

            class SectionBuilder(object):
                # stands for Pair_Potentials_From_Tuples_Builder in the ADP factory: the objects of the section whose tuples it is handed
                def __init__(self, tuples, pfr, mr, section_name):
                    if tuples != "tuples of " + section_name:
                        raise AssertionError("the builder was handed %r for %r" % (tuples, section_name))
                    if section_name in sfail:
                        raise ConfigurationException("section builder refuses")
                    self.potentials = [Pot()] * {"EAM-ADP-Dipole": 1, "EAM-ADP-Quadrupole": 4}.get(section_name, 0)
            tf.Pair_Potentials_From_Tuples_Builder = SectionBuilder

            class Cp(object):
                species = {}

                class tabulation(object):
                    pass

                def parse_pair_like(self, section_name):
                    return "tuples of " + section_name
            for k, v in sec.items():
                setattr(Cp.tabulation, k, v)
            fac = {"pair": lambda: tf.PairTabulationFactory("t", recorder), "dlpoly": lambda: tf.DLPOLY_PairTabulationFactory("t", recorder),
                   "lammps": lambda: tf.LAMMPS_PairTabulationFactory("t", recorder), "eam": lambda: tf.EAMTabulationFactory("t", recorder, Builder),
                   "adp": lambda: tf.ADP_EAMTabulationFactory("t", recorder, Builder)}[which]()
            try:
                real = [common.fq(Fr(x)) for x in fac.create_tabulation(Cp())]
            except ConfigurationException as e:
                m = str(e)
                real = ("notMultipleOfFour" if "divisible by 4" in m else "fourRowsOrFewer" if "more than 4 rows" in m else "fewerThanThreePoints" if "at least two rows" in m
                        else "other" if "refuses" in m else "unexpected: " + m[:60])
            run.traces += 1
            run.dist["translator-validation/create_tabulation/%s/%s" % (which, real if isinstance(real, str) else "ok")] += 1
            if real != a:
                bad += 1
                if bad <= 2:
                    run.tie_broken("translator", "generated create_tabulation vs the real factories", "%s factory, [Tabulation] %s, pair builder fails %s, EAM builder fails %s, ADP sections failing %s: real %s generated %s"
                                   % (which, sec, pf, bf, sfail, real, a))
    finally:
        tf._create_pair_objects, tf.Potential_Form_Registry, tf.Modifier_Registry, tf.Reference_Data, tf.Pair_Potentials_From_Tuples_Builder = saved
        logging.disable(logging.NOTSET)
    return len(cases)


def validate_raw_parser(run, files, n=60):
    """the regenerated _RawConfigParser.has_option (+ _own_option, optionxform) against the real parser on generated files: for every section and `[Variables]`, the keys
    of the file as written and with blanks / tabs moved around, keys of OTHER sections and of `[Variables]` asked of each section (a variable is not an option of another
    section), unknown sections.  `files`: [(text, lines)] as the C14 / C15 generators produce them"""
    import atsim.potentials.config
    from atsim.potentials.config import ConfigParser
    ok, log = build_gen()
    if not ok:
        run.tie_broken("translator", "Gen/Logic.lean (raw parser)", "the regenerated definitions (or their driver) do not build: " + log[-600:])
        return 0
    rng = run.rng
    files = files[:n]
    plans, reqs = [], []
    for text, lines, secs in files:
        keys = [(s, k) for s, kvs in secs.items() for k, v in kvs]
        qs = []
        for s in list(secs.keys()) + ["Variables", "Nope", ""]:
            for (s2, k) in keys:
                if s2 == s or rng.random() < 0.25:
                    qs.append([s, k])
                    if rng.random() < 0.5:
                        qs.append([s, " " + k.replace("-", " -\t") + "\t"])
        plans.append((text, qs))
        reqs.append(dict(op="raw_has_option", lines=lines, queries=qs))
    bad = 0
    for (text, qs), a in zip(plans, query_gen(reqs)):
        raw = ConfigParser(io.StringIO(text)).raw_config_parser
        real_has = [bool(raw.has_option(s, k)) for s, k in qs]
        real_x = [raw.optionxform(k) for s, k in qs]
        real_opts = []
        for s, k in qs:
            try:
                real_opts.append(list(raw.options(s)))
            except configparser.NoSectionError:
                real_opts.append("noSection")
        run.traces += 1
        run.dist["translator-validation/raw_has_option"] += 1
        run.dist["translator-validation/raw_options/%s" % ("some-absent" if "noSection" in real_opts else "all-present")] += 1
        if a.get("options") != real_opts:
            bad += 1
            if bad <= 2:
                do = [(q[0], r_, g_) for q, r_, g_ in zip(qs, real_opts, a.get("options") or []) if r_ != g_][:3]
                run.tie_broken("translator", "generated _RawConfigParser.options vs the real parser", "file %r: options differs on %s" % (text[:300], do))
        if a.get("has") != real_has or a.get("xform") != real_x:
            bad += 1
            if bad <= 2:
                diff = [(q, r_, g_) for q, r_, g_ in zip(qs, real_has, a.get("has") or []) if r_ != g_][:4]
                dx = [(q[1], r_, g_) for q, r_, g_ in zip(qs, real_x, a.get("xform") or []) if r_ != g_][:4]
                run.tie_broken("translator", "generated _RawConfigParser.has_option / optionxform vs the real parser", "file %r: has_option differs on %s, optionxform on %s" % (text[:300], diff, dx))
    return len(plans)


def validate_spline_modifier(run, n=80):
    """the regenerated spline() modifier against the real function: argument lists of 0-2 definitions of 1-5 parts (the real namedtuples), spline keywords right and wrong,
    modifiers in the middle, starts in and out of order, parameters the two spline factories accept and refuse; the form builder is a stand-in that names what it is
    handed, `Spline_Point`, `Exp_Spline`, `Buck4_Spline` and `Custom_SplinePotential` of the modifiers' module are recorders (the second may raise ArithmeticError /
    ImportError): which part became the start potential (with or without a next part), which the end potential (start made minus infinity), the detach and attach
    separations, the spline type and r_min - or the class of the error"""
    import atsim.potentials.config
    from atsim.potentials import _modifiers as mods
    from atsim.potentials.config._common import (PotentialFormInstanceTuple, PotentialModifierTuple, MultiRangeDefinitionTuple, ConfigurationException)
    ok, log = build_gen()
    if not ok:
        run.tie_broken("translator", "Gen/Logic.lean (spline modifier)", "the regenerated definitions (or their driver) do not build: " + log[-600:])
        return 0
    rng = run.rng

    def gen_chain(nparts, ctr):
        parts = []
        starts = sorted(rng.sample([x / 4.0 for x in range(0, 40)], nparts))
        if rng.random() < 0.25 and nparts >= 2:
            i_ = rng.randrange(nparts - 1)
            starts[i_], starts[i_ + 1] = starts[i_ + 1], starts[i_] if rng.random() < 0.7 else starts[i_ + 1]
        for i in range(nparts):
            ctr[0] += 1
            kind = "form"
            name = "as.f%d" % ctr[0]
            params = [float(ctr[0])]
            if i == 1:
                r = rng.random()
                if r < 0.4:
                    name, params = "exp_spline", ([] if rng.random() < 0.85 else [1.0])
                elif r < 0.8:
                    lo, hi = starts[1], starts[2] if nparts > 2 else starts[1] + 1.0
                    rm = rng.choice([(lo + hi) / 2.0, lo, hi + 0.25, lo - 0.5])
                    name, params = "buck4_spline", ([rm] if rng.random() < 0.85 else [rm, 1.0])
                elif r < 0.9:
                    kind = "modifier"
                    name = "sum"
                else:
                    name = "cubic_spline"
            parts.append((kind, name, params, (rng.choice([">", ">="]), starts[i])))
        real, js = None, None
        for kind, name, params, (rt, st) in reversed(parts):
            rstart = MultiRangeDefinitionTuple(rt, st)
            if kind == "modifier":
                real = PotentialModifierTuple(name, [], rstart, real)
            else:
                real = PotentialFormInstanceTuple(name, params, rstart, real)
            js = dict(mod=(kind == "modifier"), name=name, params=[common.fq(Fr(p)) for p in params], start=dict(rt=rt, start=common.fq(Fr(st))), next=js)
        return real, js
    cases, reqs = [], []
    for _ in range(n):
        ctr = [0]
        nargs = rng.choice([1] * 12 + [0, 2])
        args = [gen_chain(rng.choice([3] * 9 + [1, 2, 4, 5]), ctr) for _ in range(nargs)]
        fault = rng.choice([None] * 8 + ["arithmetic", "import"])
        cases.append(([a[0] for a in args], fault))
        reqs.append(dict(op="spline_modifier", forms=[a[1] for a in args], fault=fault))
    bad = 0
    saved = (mods.Spline_Point, mods.Exp_Spline, mods.Buck4_Spline, mods.Custom_SplinePotential)
    enc = lambda q: int(Fr(q) * 1000)
    try:
        for (forms, fault), a in zip(cases, query_gen(reqs)):
            class Builder(object):
                def create_potential_function(self, p):
                    nid = int(p.parameters[0]) if getattr(p, "parameters", None) else 0
                    return nid * 4 + (2 if p.next is not None else 0) + (1 if (p.start.start == float("-inf") and p.start.range_type == ">") else 0)

            class Point(object):
                def __init__(self, f, r):
                    self.f, self.r = f, r

            def exp(d, at):
                if fault == "arithmetic":
                    raise ZeroDivisionError("float division by zero")
                if fault == "import":
                    raise ImportError("No module named scipy")
                return ((((1 * 1000 + d.f) * 100000 + enc(d.r)) * 1000 + at.f) * 100000 + enc(at.r))

            def b4(d, at, rm):
                if fault == "arithmetic":
                    raise ValueError("math domain error")
                if fault == "import":
                    raise ImportError("No module named scipy")
                return (((((2 * 1000 + d.f) * 100000 + enc(d.r)) * 1000 + at.f) * 100000 + enc(at.r)) * 100000 + enc(rm))
            mods.Spline_Point, mods.Exp_Spline, mods.Buck4_Spline, mods.Custom_SplinePotential = Point, exp, b4, (lambda c: c)
            try:
                real = mods.spline(list(forms), Builder())
            except ConfigurationException as e:
                m = str(e)
                real = ("notOneArgument" if "single multi range" in m else "onlyOne" if "only one specified" in m else "middleIsModifier" if "The modifier '" in m
                        else "unknownSplineType" if "was found instead" in m else "onlyTwo" if "only two specified" in m else "moreThanThree" if "more than three" in m
                        else "firstNotBelowSecond" if "less than start of 2nd" in m else "secondNotBelowThird" if "less than start of 3rd" in m
                        else "cannotJoin" if "cannot join" in m else "needsPackage" if "additional package" in m else "config")
            except Exception as e:
                real = "internal: %s: %s" % (type(e).__name__, e)
            run.traces += 1
            run.dist["translator-validation/spline_modifier/%s" % (real if isinstance(real, str) else "ok")] += 1
            if fault is not None and not isinstance(a, str):
                a = {"arithmetic": "cannotJoin", "import": "needsPackage"}[fault]      # (the driver's factories do not raise these two; the generated clauses are shown by the tie)
            if real != a:
                bad += 1
                if bad <= 2:
                    run.tie_broken("translator", "generated spline() modifier vs the real function", "arguments %r (fault %s): real %s generated %s" % (forms, fault, real, a))
    finally:
        mods.Spline_Point, mods.Exp_Spline, mods.Buck4_Spline, mods.Custom_SplinePotential = saved
    return len(cases)


def validate_trans_modifier(run, n=60):
    """the regenerated trans() modifier against the real function: 0-3 argument definitions (the real namedtuples; first arguments with and without further ranges and
    with either range marker, second arguments that are `as.constant` with 0-2 parameters, another form, or a modifier); the form builder is a stand-in whose callable
    tells what it was built from; the returned closure is evaluated (value, deriv, deriv2) to read off the shift"""
    import atsim.potentials.config
    from atsim.potentials import _modifiers as mods
    from atsim.potentials.config._common import (PotentialFormInstanceTuple, PotentialModifierTuple, MultiRangeDefinitionTuple, ConfigurationException)
    ok, log = build_gen()
    if not ok:
        run.tie_broken("translator", "Gen/Logic.lean (trans modifier)", "the regenerated definitions (or their driver) do not build: " + log[-600:])
        return 0
    rng = run.rng
    cases, reqs = [], []
    for _ in range(n):
        nargs = rng.choice([2] * 10 + [0, 1, 3])
        forms, js = [], []
        for i in range(nargs):
            rt, st = rng.choice([">", ">="]), rng.randint(0, 12) / 4.0
            nxt, jn = None, None
            if i == 0 and rng.random() < 0.4:
                nxt = PotentialFormInstanceTuple("as.other", [50.0], MultiRangeDefinitionTuple(">", st + 1.0), None)
                jn = dict(mod=False, name="as.other", params=["50"], start=dict(rt=">", start=common.fq(Fr(st + 1.0))), next=None)
            if i == 1:
                r = rng.random()
                if r < 0.7:
                    name, params, mod = "as.constant", [rng.randint(-8, 8) / 4.0], False
                    if rng.random() < 0.2:
                        params = rng.choice([[], params + [1.0]])
                elif r < 0.85:
                    name, params, mod = "as.polynomial", [1.0], False
                else:
                    name, params, mod = "sum", [], True
            else:
                name, params, mod = "as.first", [float(10 + i)], False
            rs = MultiRangeDefinitionTuple(rt, st)
            forms.append(PotentialModifierTuple(name, [], rs, nxt) if mod else PotentialFormInstanceTuple(name, params, rs, nxt))
            js.append(dict(mod=mod, name=name, params=[common.fq(Fr(p)) for p in params], start=dict(rt=rt, start=common.fq(Fr(st))), next=jn))
        cases.append(forms)
        reqs.append(dict(op="trans_modifier", forms=js))
    bad = 0
    for forms, a in zip(cases, query_gen(reqs)):
        class Builder(object):
            def create_potential_function(self, p):
                code = int(p.parameters[0]) * 4 + (2 if p.next is not None else 0) + (1 if p.start.range_type == ">=" else 0)

                def f(r):
                    return code * 1000.0 + r
                f.deriv = lambda r: 7000.0 + r
                f.deriv2 = lambda r: 9000.0 + r
                return f
        try:
            t = mods.trans(list(forms), Builder())
            v = t(0.0)
            code = int(v // 1000)
            X = v - code * 1000.0
            if X > 500:
                code, X = code + 1, X - 1000.0
            okd = hasattr(t, "deriv") and hasattr(t, "deriv2") and t.deriv(0.25) == 7000.0 + 0.25 + X and t.deriv2(0.5) == 9000.0 + 0.5 + X
            real = [code, common.fq(Fr(X))] if okd else "derivatives not carried over"
        except ConfigurationException as e:
            m = str(e)
            real = "notTwoArguments" if "only accepts two arguments" in m else "secondNotConstant" if "must be 'as.constant'" in m else "notOneParameter" if "exactly one parameter" in m else "config: " + m[:60]
        except Exception as e:
            real = "internal: %s: %s" % (type(e).__name__, e)
        run.traces += 1
        run.dist["translator-validation/trans_modifier/%s" % (real if isinstance(real, str) else "ok")] += 1
        if real != a:
            bad += 1
            if bad <= 2:
                run.tie_broken("translator", "generated trans() modifier vs the real function", "arguments %r: real %s generated %s" % (forms, real, a))
    return len(cases)


def validate_reference_get(run, n=40):
    """the regenerated Reference_Data.get against the real method: the real built-in element table (a sample of its rows, every property), [Species]-style extra data
    that overrides some properties of elements, describes labels that are not elements, or is absent; queries for every combination incl. unknown labels / properties"""
    import atsim.potentials.config
    from atsim.potentials.referencedata import Reference_Data
    from atsim.potentials.referencedata._data import reference_data
    from atsim.potentials.referencedata._reference_data import Unknown_Species_Exception, Unknown_Property_Exception
    ok, log = build_gen()
    if not ok:
        run.tie_broken("translator", "Gen/Logic.lean (reference data)", "the regenerated definitions (or their driver) do not build: " + log[-600:])
        return 0
    rng = run.rng
    elements = sorted(reference_data.keys())
    cases, reqs = [], []
    for _ in range(n):
        els = rng.sample(elements, 4)
        vals, ids = {}, [0]

        def vid(v):
            ids[0] += 1
            vals[ids[0]] = v
            return ids[0]
        builtin = [[e, [[k_, vid(v_)] for k_, v_ in reference_data[e]._asdict().items()]] for e in els]
        props = [k_ for k_, _ in builtin[0][1]]
        extra_py, extra_js = {}, []
        for lab in rng.sample(els, rng.randint(0, 3)) + rng.sample(["Xx", "Qq"], rng.randint(0, 2)):
            d_ = {}
            for k_ in rng.sample(props + ["charge", "covalent_radius"], rng.randint(0, 3)):
                d_[k_] = rng.randint(1000, 9999) / 8.0
            extra_py[lab] = d_
            extra_js.append([lab, [[k_, vid(v_)] for k_, v_ in d_.items()]])
        queries = [[s_, p_] for s_ in els + ["Xx", "Qq", "Zz"] for p_ in props + ["charge", "nosuch"]]
        cases.append((extra_py, queries, vals))
        reqs.append(dict(op="reference_get", builtin=builtin, extra=extra_js, queries=queries))
    bad = 0
    for (extra_py, queries, vals), a in zip(cases, query_gen(reqs)):
        rd = Reference_Data(extra_py)
        real = []
        for s_, p_ in queries:
            try:
                real.append(rd.get(s_, p_))
            except Unknown_Species_Exception:
                real.append("unknownSpecies")
            except Unknown_Property_Exception:
                real.append("unknownProperty")
            except Exception as e:
                real.append("internal: %s" % type(e).__name__)
        gen = [x if isinstance(x, str) else vals[x] for x in a]
        run.traces += 1
        run.dist["translator-validation/reference_get"] += 1
        if real != gen:
            bad += 1
            if bad <= 2:
                run.tie_broken("translator", "generated Reference_Data.get vs the real method", "extra data %s: %s" % (extra_py, [(q, r_, g_) for q, r_, g_ in zip(queries, real, gen) if r_ != g_][:4]))
    return len(cases)


def validate_parse_params_section(run, files, n=60):
    """the regenerated ConfigParser._parse_params_section against the real method on generated files (`files` as for validate_raw_parser): every section of the file,
    sections that are absent, and sections made EMPTY; the line parser is a stand-in that returns (key, value) and refuses keys holding 'bad'"""
    import atsim.potentials.config
    from atsim.potentials.config import ConfigParser
    from atsim.potentials.config._common import ConfigParserException
    ok, log = build_gen()
    if not ok:
        run.tie_broken("translator", "Gen/Logic.lean (section parsing)", "the regenerated definitions (or their driver) do not build: " + log[-600:])
        return 0
    rng = run.rng
    plans, reqs = [], []
    for text, lines, secs in files[:n]:
        names = list(secs.keys()) + ["Nope"]
        # one section emptied, one key made unparsable
        text2, lines2 = text, [list(l) for l in lines]
        victim = rng.choice([s_ for s_ in secs if s_ not in ("Tabulation", "Variables")] or ["Tabulation"])
        mode = rng.choice(["empty", "bad", "asis"])
        if mode == "empty":
            lines2 = [l for l in lines2 if not (l[0] == "kv" and _section_of(lines, l) == victim)]
        elif mode == "bad":
            done = False
            for l in lines2:
                if l[0] == "kv" and _section_of(lines, l) == victim and not done:
                    l[1] = "bad" + l[1].strip()
                    done = True
        text2 = _render_lines(lines2)
        for s_ in names:
            if s_ == "Variables":
                continue
            plans.append((text2, s_))
            reqs.append(dict(op="parse_params_section", lines=lines2, section=s_))
    bad = 0
    for (text2, s_), a in zip(plans, query_gen(reqs)):
        def parse_line(k, v):
            if "bad" in k:
                raise ConfigParserException("bad line")
            return [k, v]
        try:
            cp = ConfigParser(io.StringIO(text2))
            real = cp._parse_params_section(s_, parse_line)
        except ConfigParserException as e:
            real = "missingSection" if "does not contain" in str(e) else "badLine"
        run.traces += 1
        run.dist["translator-validation/parse_params_section/%s" % (real if isinstance(real, str) else ("empty" if not real else "ok"))] += 1
        if real != a:
            bad += 1
            if bad <= 2:
                run.tie_broken("translator", "generated _parse_params_section vs the real method", "file %r section %r: real %s generated %s" % (text2[:300], s_, str(real)[:200], str(a)[:200]))
    return len(plans)


def _section_of(lines, line):
    cur = None
    for l in lines:
        if l[0] == "sec":
            cur = l[1]
        if l is line or l == line:
            return cur
    return cur


def _render_lines(lines):
    out = []
    for l in lines:
        out.append("[%s]" % l[1] if l[0] == "sec" else "%s : %s" % (l[1], l[2]))
    return "\n".join(out) + "\n"
