"""Validation of the LOGIC / WRITER translator (translator/py2lean_logic.py): the regenerated Lean definitions of Gen/Logic.lean are run on concrete inputs
through their own driver (lean/MainGen.lean) and compared with the real Python functions they were translated from.

For the table writers the Lean side returns the TOKENS the generated writer emits - (format text, arguments) per print/write call - and this module renders
them with Python's own `%` / `str.format` and compares the text byte for byte with what the real writer wrote for the same potentials and grid.  Potentials
are tracer callables on dyadic grids, so every abscissa and value is exact.  A disagreement is a broken TRANSLATOR tie (the theorems about the generated
definitions would then be about something the code does not do); it is never by itself a property violation."""
import io
import json
import os
from fractions import Fraction as Fr

import common
from common import LEAN_DIR, InfraError


def build_gen():
    """-> (ok, log)"""
    with common._Lock():
        rc, out, err = common._run(["lake", "build", "AtsimModel.Driver.GenLogic"], cwd=LEAN_DIR)
    return rc == 0, (out + err)[-3000:]


def query_gen(reqs, timeout=900):
    if not reqs:
        return []
    inp = "\n".join(json.dumps(r, separators=(",", ":")) for r in reqs) + "\n"
    rc, out, err = common._run(["lake", "env", "lean", "--run", "MainGen.lean"], cwd=LEAN_DIR, inp=inp, timeout=timeout)
    lines = [l for l in out.split("\n") if l.strip()]
    if rc != 0 or len(lines) != len(reqs):
        raise InfraError("generated-definitions driver failed rc=%s answers=%d/%d\n%s" % (rc, len(lines), len(reqs), (err or out)[-2000:]))
    res = []
    for i, l in enumerate(lines):
        j = json.loads(l)
        if "ok" not in j:
            raise InfraError("generated-definitions driver rejected request %d: %s" % (i, j.get("error")))
        res.append(j["ok"])
    return res


class Tracer(object):
    """f(r) = 16*fid + r, f'(r) = fid + r/4 : exact on dyadic grids, different for every potential"""

    def __init__(self, fid):
        self.fid = fid

    def __call__(self, r):
        return 16.0 * self.fid + r

    def deriv(self, r):
        return self.fid + r / 4.0


def _value(v, tracers):
    k = v[0]
    if k == "i":
        return int(v[1])
    if k == "q":
        return float(Fr(v[1]))
    if k == "s":
        return v[1]
    if k == "f":
        what, fid, x = v[1], int(v[2]), float(Fr(v[3]))
        f = tracers[fid]
        if what == "energy":
            return f(x)
        if what == "force":
            return -f.deriv(x)
        if what == "r*force":
            return x * (-f.deriv(x))
        raise InfraError("unknown opaque value %s" % what)
    if k == "r":
        x = _value(v[1], tracers)
        return 0.0 if abs(x) < 1e-99 else x
    if k == "x":
        return float(Fr(v[1])) * _value(v[2], tracers)
    raise InfraError("unknown value kind %s" % k)


def render(tokens, tracers):
    out = []
    for fmt, args in tokens:
        vals = [_value(a, tracers) for a in args]
        if fmt == "<os.linesep>":
            out.append(os.linesep)
        elif "{" in fmt:
            out.append(fmt.format(*vals))
        elif vals:
            out.append(fmt % tuple(vals))
        else:
            out.append(fmt)
    return "".join(out)


def _first_diff(a, b):
    n = min(len(a), len(b))
    i = next((k for k in range(n) if a[k] != b[k]), n)
    return "at character %d: real ...%r... generated ...%r..." % (i, a[max(0, i - 30):i + 30], b[max(0, i - 30):i + 30])


def validate_writer(run, which, n=12):
    """which in lammps | dlpoly | gulp.  Records broken translator ties on `run`; returns the number of comparisons made."""
    from atsim.potentials import Potential
    ok, log = build_gen()
    if not ok:
        run.tie_broken("translator", "Gen/Logic.lean (%s writer)" % which, "the regenerated definitions (or their driver) do not build: " + log[-600:])
        return 0
    rng = run.rng
    cases, reqs = [], []
    for _ in range(n):
        npots = rng.randint(1, 3)
        pots = [dict(a="S%d" % i, b=rng.choice(["O", "S0", "Xx"]), fid=i + 1) for i in range(npots)]
        k = rng.randint(1, 5)
        if which == "lammps":
            N = rng.randint(2, 40)
            minr = Fr(rng.randint(1, 40), 2 ** k)
            maxr = minr + (N - 1) * Fr(rng.randint(1, 9), 2 ** k)
            reqs.append(dict(op="lammps", pots=pots, minr=common.fq(minr), maxr=common.fq(maxr), n=N))
            cases.append((pots, minr, maxr, N))
        elif which == "dlpoly":
            N = rng.choice([8, 12, 16, 20, 40, 10, 13, 7])
            cut = Fr(max(N - 4, 1), 2 ** k)
            reqs.append(dict(op="dlpoly", pots=pots, cut=common.fq(cut), n=N))
            cases.append((pots, cut, N))
        else:
            N = rng.randint(2, 40)
            cut = Fr(N - 1, 2 ** k)
            reqs.append(dict(op="gulp", pots=pots, cut=common.fq(cut), n=N))
            cases.append((pots, cut, N))
    answers = query_gen(reqs)
    bad = 0
    for c, a in zip(cases, answers):
        pots = c[0]
        tracers = dict((p["fid"], Tracer(p["fid"])) for p in pots)
        objs = [Potential(p["a"], p["b"], tracers[p["fid"]]) for p in pots]
        buf = io.StringIO()
        try:
            if which == "lammps":
                from atsim.potentials import _lammps_writeTABLE as m
                m.writePotentials(objs, float(c[1]), float(c[2]), c[3], buf)
            elif which == "dlpoly":
                from atsim.potentials import _dlpoly_writeTABLE as m
                m.writePotentials(objs, float(c[1]), c[2], buf)
            else:
                from atsim.potentials.pair_tabulation import GULP_PairTabulation
                GULP_PairTabulation(objs, float(c[1]), c[2]).write(buf)
            real = buf.getvalue()
        except Exception as e:
            real = "raised"
            if which != "dlpoly" or type(e).__name__ != "WritePotentialException":
                real = "raised %s" % type(e).__name__
        gen = a if a == "raised" else render(a, tracers)
        run.traces += 1
        run.dist["translator-validation/%s-writer" % which] += 1
        if real != gen:
            bad += 1
            if bad <= 2:
                run.tie_broken("translator", "generated %s writer vs the real one" % which,
                               "potentials %s grid %s: %s" % (pots, [str(x) for x in c[1:]], "real %r generated %r" % (real[:80], str(gen)[:80]) if "raised" in (real, gen) else _first_diff(real, gen)))
    return len(cases)


def validate_logic(run, which, n=200):
    """range_search (+ setter) and check_tuple: generated definitions vs the real methods on random inputs"""
    ok, log = build_gen()
    if not ok:
        run.tie_broken("translator", "Gen/Logic.lean (%s)" % which, "the regenerated definitions (or their driver) do not build: " + log[-600:])
        return 0
    rng = run.rng
    if which == "range_search":
        from atsim.potentials import create_Multi_Range_Potential_Form, Multi_Range_Defn
        cases, reqs = [], []
        for _ in range(n):
            m = rng.randint(1, 5)
            defs = [dict(t=rng.choice([">", ">="]), s=2 * rng.randint(0, 4), f=i + 1) for i in range(m)]
            rs = list(range(-1, 10))
            reqs.append(dict(op="range_search", defs=defs, rs=rs))
            cases.append((defs, rs))
        bad = 0
        for (defs, rs), a in zip(cases, query_gen(reqs)):
            f = create_Multi_Range_Potential_Form(*[Multi_Range_Defn(d["t"], float(d["s"]), (lambda r, k=d["f"]: float(k))) for d in defs])
            real = []
            for r in rs:
                t = f._range_search(float(r))
                real.append(None if t is None else int(t.potential_form(0.0)))
            run.traces += 1
            run.dist["translator-validation/range_search"] += 1
            if real != a:
                bad += 1
                if bad <= 2:
                    run.tie_broken("translator", "generated range_defns setter + _range_search vs the real ones", "definitions %s, r = %s: real %s generated %s" % (defs, rs, real, a))
        return len(cases)
    if which == "check_tuple":
        from atsim.potentials.config import ConfigParser, FilteredConfigParser
        cp = ConfigParser(io.StringIO("[Pair]\nA-B : as.zero\n"))
        pool = ["A", "B", "C", "Dd", "E"]
        cases, reqs = [], []
        for _ in range(n):
            S = rng.sample(pool, rng.randint(0, 4))
            ex = rng.random() < 0.5
            t = [rng.choice(pool) for _ in range(rng.randint(0, 3))]
            reqs.append(dict(op="check_tuple", S=S, exclude=ex, t=t))
            cases.append((S, ex, t))
        bad = 0
        for (S, ex, t), a in zip(cases, query_gen(reqs)):
            v = FilteredConfigParser(cp, exclude=S) if ex else FilteredConfigParser(cp, include=S)
            if ex and not S:
                continue          # (the constructor maps an empty exclude list to "no filter": same outcome, other route)
            real = v._check_tuple(tuple(t))
            run.traces += 1
            run.dist["translator-validation/check_tuple"] += 1
            if real != a:
                bad += 1
                if bad <= 2:
                    run.tie_broken("translator", "generated _check_tuple vs the real one", "species %s exclude=%s tuple %s: real %s generated %s" % (S, ex, t, real, a))
        return len(cases)
    raise InfraError("unknown logic validation %s" % which)
