#!/usr/bin/env python3
"""Writes MANIFEST.json from the table below (kept as a script so the manifest is always schema-valid)."""
import json, os
ROOT = os.path.dirname(os.path.dirname(os.path.abspath(__file__)))

NOTE_COMMON = ("Trusted: Lean 4.33 kernel + Mathlib single modules; axioms audited each run to be within propext/Classical.choice/Quot.sound "
               "(no sorry, native_decide, bv_decide or own axioms); the hand-written model is tied to /repo's current working tree by the "
               "correspondence run of this check (real code imported in-process), generated definitions by translator/py2lean.py. ")

CHECKS = {
 "C01": dict(
    text="Theorems C01_holds/C01_determined (Lean): for every list of potentials, cutoff and nr>=3 the model of LAMMPS_PairTabulation.write "
         "emits one block per potential with header (N=nr-1, lo=dr, hi=cutoff), rows 1..N on the grid n*cutoff/(nr-1), own energy/force slots, "
         "and any output satisfying the predicate IS the model output. The model is tied to the code by a tracer correspondence over five routes "
         "(class, writePotentials, Configuration, potable entry point, default target) plus a real-function numerical stream.",
    ref="4 C01", technique="Lean 4 theorem about hand model + differential correspondence (tracer potentials) against the real writer",
    note=NOTE_COMMON + "Not modelled: binary64 rounding (tested to printed precision by the real stream); parametricity of the writer in the callables."),
 "C02": dict(
    text="Theorems C02_holds (Lean): for every non-empty list of potentials, every cutoff and every row count, the model of the DL_POLY TABLE writer rejects "
         "row counts not divisible by four and otherwise emits header (delpot=cutoff/(ngrid-4), cutpot, ngrid) and per potential exactly ngrid energies then "
         "ngrid -r dV/dr values in records of four at k*delpot (C02_accum, C02_header, C02_block, C02_record_count). Tied to the code by a tracer correspondence over "
         "five routes incl. fixed-width layout checks, plus a real-function stream at 8 significant digits.",
    ref="4 C02", technique="Lean 4 theorem about hand model + differential correspondence (tracer potentials, fixed-width tokeniser)",
    note=NOTE_COMMON + "Not modelled: floating-point accumulation r += delpot (tested to printed precision), nr = 4 (division by zero) excluded from the domain."),
 "C03": dict(
    text="Theorems (Lean, element lists of any length): header names/ntypes, grid numbers (C03_header_grid, C03_grid_tab), element blocks with own metadata and exactly "
         "Nrho/Nr samples at i*step (C03_element_blocks, sampled_get), n(n+1)/2 pair blocks in lower-triangular order (lowerTri_*, C03_pair_count, C03_pair_block), lookup "
         "independent of declaration orientation and zero when undeclared (C03_pair_lookup_found/_missing, pairKey_comm), r*phi slots (C03_pair_slots), metadata precedence "
         "(C03_metadata_*). Tied to the code by tracer correspondence through writeSetFL, SetFL_EAMTabulation, potable setfl/lammps_eam_alloy and the potable entry point, "
         "including the model of the EAM builder and reference data.",
    ref="4 C03", technique="Lean 4 theorems about hand model (writer + builder + reference data) + differential correspondence",
    note=NOTE_COMMON + "The header's fifth number and comment lines are not constrained by the property and not compared; set iteration order of zero-filled species is an explicit parameter (C12)."),
 "C04": dict(
    text="Theorems (Lean): C04_setfl_slot (LAMMPS eam/fs consumer reads exactly dens[central][neighbour] for any Nodup element list), C04_tabeam_slot, C04_excel_cols, "
         "C04_builder (A->B stored as dens[A][B], zero otherwise, any entry order), C04_zero_fill, C04_cluster. Consumer conventions are specification text. Tied to the code by "
         "asymmetric tracer models through setfl_fs, DL_POLY_EAM_fs and excel_eam_fs (API and potable) plus an independent toy-cluster recomputation from the files.",
    ref="4 C04", technique="Lean 4 theorems (slot routing vs consumer rules) + differential correspondence on asymmetric Finnis-Sinclair models",
    note=NOTE_COMMON + "Trusted: the consumer conventions of LAMMPS eam/fs, DL_POLY EEAM and the Excel sheet as written in Props/C04.lean; openpyxl storage."),
 "C05": dict(
    text="Theorems (Lean, any number of elements): declared count = emitted blocks = n(n+5)/2 (EAM) and 3n(n+1)/2 (EEAM) (C05_count_eam/_eeam, tri_length), one pair block per "
         "unordered pair found in either declaration order or zero (tri_complete, tri_nodup, tri_no_reversal, C05_pair_block), header n/0/(n-1)*step followed by exactly n values "
         "of the block's function in records of <= 4 (C05_header_body, rowsOf4_*). Tied to the code by tracer correspondence through writeTABEAM(FinnisSinclair), the tabulation "
         "classes and potable DL_POLY_EAM(_fs).",
    ref="4 C05", technique="Lean 4 theorems about hand model + differential correspondence",
    note=NOTE_COMMON + "pairKeys is modelled as the triangular enumeration of the sorted element list; that this is what sorted(set(...)) yields is part of the correspondence. Nodup element lists only."),
 "C08": dict(
    text="Theorems (Lean): C08_select (distinct starts, any listing order: the transcription of _range_search after the stable sort satisfies the selection relation), "
         "C08_select_ties (tie rule for every list in which no two ranges share both start and marker), C08_order_independent, C08_below_first, C08_potable_default, C08_tie_mixed; "
         "the duplicate-(marker,start) order dependence is a proved defect witness (C08_full_fails) and a recorded finding. Tied to the code by exhaustive small-scope and random "
         "correspondence (value, deriv, deriv2; API and potable), with the selection rule also evaluated directly on the implementation.",
    ref="4 C08", technique="Lean 4 proof by loop invariant over a line-by-line transcription + exhaustive small-scope correspondence",
    note=NOTE_COMMON + "The model works on the ranks of starts and r (only their order matters)."),
 "C11": dict(
    text="Theorems (Lean): decision table of _init_cutoff in exact arithmetic (C11_rejects_*, C11_nr_dr, C11_cutoff_nr, C11_cutoff_dr, C11_defaults, C11_grid_*), truthiness "
         "defect witnesses of the shipped logic and their repair (C11_truthy_witness_*, C11_fixed_*), IEEE witness of the truncation defect by kernel evaluation (C11_trunc_witness), "
         "and under the standard floating-point model C11_quotient_close / C11_round_exact / C11_snap_fires: the repaired row-count rule gives exactly k+1 rows for every k <= 2^48. "
         "Tied to the code by a decimal-lattice sweep compared bit for bit with the Lean Float transcription, the full presence/sign table for both grids, defaults, and row counts of written tables.",
    ref="4 C11", technique="Lean 4 theorems (case analysis + real-analysis error bound) + bit-exact Float correspondence sweep",
    note=NOTE_COMMON + "Trusted: Lean Float = IEEE binary64 with correctly rounded + - * / (decide +kernel witnesses), Python float(str) correctly rounded; RelErr model of rounding for the real-number theorems."),
}

NOT_APPLICABLE = {}

def main():
    props = [json.loads(l)["id"] for l in open(os.path.join(ROOT, "properties.jsonl"))]
    checks = []
    for pid in props:
        if pid not in CHECKS:
            continue
        c = CHECKS[pid]
        checks.append(dict(
            property_id=pid,
            quick_cmd="./check %s --tier quick" % pid,
            thorough_cmd="./check %s --tier thorough" % pid,
            evidence_file="evidence/%s.json" % pid,
            replay_cmd_template="./check %s --replay {path}" % pid,
            engine="lean-proof+correspondence",
            level_claimed=dict(category=c.get("category", "proof"), text=c["text"], design_ref=c["ref"]),
            level_note=c["note"],
            technique=c["technique"]))
    na = []
    for pid in props:
        if pid not in CHECKS:
            na.append(dict(property_id=pid, reason=NOT_APPLICABLE.get(pid, "check not built yet in this round (planned: see DESIGN.md section 4); not claimed until its check is sound on the unchanged tree")))
    m = dict(
        version=1,
        setup_cmd="cd lean && /venv/bin/python ../translator/py2lean.py /repo AtsimModel/Gen > /dev/null && lake build",
        hooks=dict(guard="ATSIM_POTENTIALS_VERIF", enable="no instrumentation of /repo is needed: tracers enter through the public API, faults through the callables, hash order through PYTHONHASHSEED; ./check exports ATSIM_POTENTIALS_VERIF=1 (reserved, unused by /repo)",
                   baseline_off_cmd="cd /repo && /venv/bin/python -m pytest -ra -q -p no:cacheprovider --timeout=900 --continue-on-collection-errors",
                   source_commits=[], add_only=True),
        engines=[dict(name="lean-proof+correspondence", path="lean/ + harness/ + translator/", serves_properties=[c["property_id"] for c in checks],
                      kind_free_text="Lean 4 models and theorems (lake project lean/), a Python->Lean translator for expression-level code, and a Python correspondence harness that runs the real code and the Lean model's executable definitions on the same generated inputs through a JSON line protocol")],
        checks=checks,
        notes="See DESIGN.md. Exit codes: 0 held, 1 VIOLATION line printed, 2 infrastructure failure (never a verdict). known_findings.json lists recorded findings and fixed defects.",
        not_applicable=na)
    with open(os.path.join(ROOT, "MANIFEST.json"), "w") as f:
        json.dump(m, f, indent=1)
        f.write("\n")
    print("MANIFEST.json: %d checks, %d not claimed" % (len(checks), len(na)))

if __name__ == "__main__":
    main()
