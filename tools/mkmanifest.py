#!/usr/bin/env python3
"""Writes MANIFEST.json from the table below (kept as a script so the manifest is always schema-valid)."""
import json, os
ROOT = os.path.dirname(os.path.dirname(os.path.abspath(__file__)))

KERNEL_NOTE = (" Kernel ties: the arithmetic expressions of the code at the places the model mirrors are regenerated from the source each run (Gen/Kernels.lean) and "
               "proved equal to the model's functions (theorems *_kernel_*), validated by evaluating the source expression with Python against the generated term. ")

CODE_NOTE = (" Code ties: the functions of the library named in the level text are regenerated from /repo's current source on every run as Lean definitions "
             "(translator/py2lean_logic.py -> Gen/Logic.lean) and proved EQUAL to the model's functions for all inputs (theorems *_code_*), so the property theorems "
             "are about the code as written now; the generated table writers and searches are additionally executed (MainGen.lean) and compared with the real functions each run. ")

NOTE_COMMON = ("Trusted: Lean 4.33 kernel + Mathlib single modules; axioms audited each run to be within propext/Classical.choice/Quot.sound "
               "(no sorry, native_decide, bv_decide or own axioms); the hand-written model is tied to /repo's current working tree by the "
               "correspondence run of this check (real code imported in-process), generated definitions by translator/py2lean.py. ")

CHECKS = {
 "C01": dict(
    text="Theorems C01_holds/C01_determined (Lean): for every list of potentials, cutoff and nr>=3 the model of LAMMPS_PairTabulation.write "
         "emits one block per potential with header (N=nr-1, lo=dr, hi=cutoff), rows 1..N on the grid n*cutoff/(nr-1), own energy/force slots, "
         "and any output satisfying the predicate IS the model output. The model is tied to the code by a tracer correspondence over five routes "
         "(class, writePotentials, Configuration, potable entry point, default target) plus a real-function numerical stream. C01_code_write_single/_write_potentials/_table: the "
         "writer regenerated from the source emits exactly that table for every input; C01_code_force/_gradient: the force is minus .deriv when offered, else minus the central "
         "difference of the callable itself with the requested step.",
    ref="4 C01", technique="Lean 4 theorems about a hand model proved equal to the writer regenerated from source + differential correspondence (tracer potentials) against the real writer",
    note=NOTE_COMMON + KERNEL_NOTE + CODE_NOTE + "Not modelled: binary64 rounding (tested to printed precision by the real stream); parametricity of the writer in the callables."),
 "C02": dict(
    text="Theorems C02_holds (Lean): for every non-empty list of potentials, every cutoff and every row count, the model of the DL_POLY TABLE writer rejects "
         "row counts not divisible by four and otherwise emits header (delpot=cutoff/(ngrid-4), cutpot, ngrid) and per potential exactly ngrid energies then "
         "ngrid -r dV/dr values in records of four at k*delpot (C02_accum, C02_header, C02_block, C02_record_count). Tied to the code by a tracer correspondence over "
         "five routes incl. fixed-width layout checks, plus a real-function stream at 8 significant digits. C02_code_writer: the writer regenerated from the source raises exactly "
         "when the model rejects and otherwise emits exactly the model's table, for every input.",
    ref="4 C02", technique="Lean 4 theorems about a hand model proved equal to the writer regenerated from source + differential correspondence (tracer potentials, fixed-width tokeniser)",
    note=NOTE_COMMON + KERNEL_NOTE + CODE_NOTE + "Floating-point accumulation r += delpot: bounded by theorem under the standard model of rounding (C02_accum_float/_rel/_binary64) and tested; nr = 4 (division by zero) excluded from the domain."),
 "C03": dict(
    text="Theorems (Lean, element lists of any length): header names/ntypes, grid numbers (C03_header_grid, C03_grid_tab), element blocks with own metadata and exactly "
         "Nrho/Nr samples at i*step (C03_element_blocks, sampled_get), n(n+1)/2 pair blocks in lower-triangular order (lowerTri_*, C03_pair_count, C03_pair_block), lookup "
         "independent of declaration orientation and zero when undeclared (C03_pair_lookup_found/_missing, pairKey_comm), r*phi slots (C03_pair_slots), metadata precedence "
         "(C03_metadata_*). Tied to the code by tracer correspondence through writeSetFL, SetFL_EAMTabulation, potable setfl/lammps_eam_alloy and the potable entry point, "
         "including the model of the EAM builder and reference data. C03_code_element_header/_embedding/_density/_pair_pots/_setfl_write: the pieces of the setfl writer regenerated from the source mean exactly the model's setfl, for every input and every interpretation of the callables.",
    ref="4 C03", technique="Lean 4 theorems about hand model (writer + builder + reference data) + differential correspondence; setfl writer regenerated from source and proved to mean the model's file",
    note=NOTE_COMMON + CODE_NOTE + KERNEL_NOTE + "The header's fifth number and comment lines are not constrained by the property and not compared; set iteration order of zero-filled species is an explicit parameter (C12)."),
 "C04": dict(
    text="Theorems (Lean): C04_setfl_slot (LAMMPS eam/fs consumer reads exactly dens[central][neighbour] for any Nodup element list), C04_tabeam_slot, C04_excel_cols, "
         "C04_builder (A->B stored as dens[A][B], zero otherwise, any entry order), C04_zero_fill, C04_cluster. Consumer conventions are specification text. Tied to the code by "
         "asymmetric tracer models through setfl_fs, DL_POLY_EAM_fs and excel_eam_fs (API and potable) plus an independent toy-cluster recomputation from the files. C04_code_density_fs: the Finnis-Sinclair density loop of the setfl writer regenerated from the source emits other.electronDensityFunction[e.species] per element in header order - the model's routing.",
    ref="4 C04", technique="Lean 4 theorems (slot routing vs consumer rules) + differential correspondence on asymmetric Finnis-Sinclair models; FS density routing regenerated from source and proved equal to the model",
    note=NOTE_COMMON + CODE_NOTE + KERNEL_NOTE + "Trusted: the consumer conventions of LAMMPS eam/fs, DL_POLY EEAM and the Excel sheet as written in Props/C04.lean; openpyxl storage."),
 "C05": dict(
    text="Theorems (Lean, any number of elements): declared count = emitted blocks = n(n+5)/2 (EAM) and 3n(n+1)/2 (EEAM) (C05_count_eam/_eeam, tri_length), one pair block per "
         "unordered pair found in either declaration order or zero (tri_complete, tri_nodup, tri_no_reversal, C05_pair_block), header n/0/(n-1)*step followed by exactly n values "
         "of the block's function in records of <= 4 (C05_header_body, rowsOf4_*). Tied to the code by tracer correspondence through writeTABEAM(FinnisSinclair), the tabulation "
         "classes and potable DL_POLY_EAM(_fs).",
    ref="4 C05", technique="Lean 4 theorems about hand model + differential correspondence",
    note=NOTE_COMMON + KERNEL_NOTE + "pairKeys is modelled as the triangular enumeration of the sorted element list; that this is what sorted(set(...)) yields is part of the correspondence. Nodup element lists only."),
 "C08": dict(
    text="Theorems (Lean): C08_select (distinct starts, any listing order: the transcription of _range_search after the stable sort satisfies the selection relation), "
         "C08_select_ties (tie rule for every list in which no two ranges share both start and marker), C08_order_independent, C08_below_first, C08_potable_default, C08_tie_mixed; "
         "the duplicate-(marker,start) order dependence is a proved defect witness (C08_full_fails) and a recorded finding. Tied to the code by exhaustive small-scope and random "
         "correspondence (value, deriv, deriv2; API and potable), with the selection rule also evaluated directly on the implementation. C08_code_cmp/_setter/_range_search/_select/"
         "_select_ties/_same_range: the comparator, the setter's sort, _range_search and __call__/deriv/deriv2 regenerated from the source ARE the model's functions, so the selection "
         "theorems hold of the code as written.",
    ref="4 C08", technique="Lean 4 proof by loop invariant; the transcription is proved equal to the functions regenerated from source; exhaustive small-scope correspondence",
    note=NOTE_COMMON + CODE_NOTE + "The model works on the ranks of starts and r (only their order matters)."),
 "C11": dict(
    text="Theorems (Lean): decision table of _init_cutoff in exact arithmetic (C11_rejects_*, C11_nr_dr, C11_cutoff_nr, C11_cutoff_dr, C11_defaults, C11_grid_*), truthiness "
         "defect witnesses of the shipped logic and their repair (C11_truthy_witness_*, C11_fixed_*), IEEE witness of the truncation defect by kernel evaluation (C11_trunc_witness), "
         "and under the standard floating-point model C11_quotient_close / C11_round_exact / C11_snap_fires: the repaired row-count rule gives exactly k+1 rows for every k <= 2^48. "
         "Tied to the code by a decimal-lattice sweep compared bit for bit with the Lean Float transcription, the full presence/sign table for both grids, defaults, and row counts of written tables. C11_code_check_positive/_init_cutoff/_rows_for_step: _check_positive, _init_cutoff and _rows_for_step regenerated from the source ARE the model's functions (same outcome, complaint and derived values for every input).",
    ref="4 C11", technique="Lean 4 theorems (case analysis + real-analysis error bound) + bit-exact Float correspondence sweep; decision functions regenerated from source and proved equal to the model",
    note=NOTE_COMMON + CODE_NOTE + KERNEL_NOTE + "Trusted: Lean Float = IEEE binary64 with correctly rounded + - * / (decide +kernel witnesses), Python float(str) correctly rounded; RelErr model of rounding for the real-number theorems."),
 "C06": dict(
    text="Theorems (Lean, over the reals) about terms REGENERATED from potentialfunctions.py on every run: C06_<form> for buck, bornmayer, coul, constant, zero, exponential, exp_spline, "
         "hbnd, lj, morse, sqrt, zbl (code = documented formula for all parameters and r), C06_signatures (documented argument order), C06_polynomial (any order). Tang-Toennies: the code's machine-expanded expression is proved to have the documented shape with constants within 1e-13 of the closed forms "
         "(C06_tang_toennies_shape) and is compared numerically with the documented formula. Translator validated each run by Float evaluation against Python; four access routes must return identical doubles.",
    ref="4 C06", technique="Python->Lean translation of method bodies + Lean/Mathlib identities; numeric failing-input search against documented formulas",
    note=NOTE_COMMON + "Statements over R (binary64 and libm not modelled). Documented formulas are hand transcriptions. Known finding: reference manual prints another ZBL constant set."),
 "C07": dict(
    text="Engine theorem hasDerivAt_evalR (symbolic derivative D is sound on its domain) and, about the regenerated terms: C07_<form>_d1/_d2 for ten built-in forms, Coulomb and ZBL up to a "
         "proved 1e-14 literal-vs-closed-form factor, C07_plus/product/pow _d1/_d2 on the regenerated closure bodies with arbitrary operand functions, C07_trans, C07_polynomial_d1/_d2 "
         "(every order, r=0 included). Numerical oracle (Richardson differences of the real callables) over random expressions to depth 3 through API and potable; fallback locality by "
         "instrumented leaves.",
    ref="4 C07", technique="reflective differentiation in Lean/Mathlib over translator output + numerical derivative oracle on the implementation",
    note=NOTE_COMMON + "Over R. ZBL deriv2 and Tang-Toennies derivatives hold machine-expanded decimal coefficients (1e-14 from closed forms): numerical oracle only. SciPy table-form derivatives: C18."),
 "C09": dict(
    text="Theorems: C09_positional (stateful symbol-table evaluation = positional substitution for every acyclic set of custom forms; refinement proof), C09_cyclic_witness / "
         "C09_positional_full_fails (recorded finding), C09_roundtrip (token-level parser: parse(render t) = t for all well-formed trees, any nesting), C09_default_range, C09_sum/product/pow/"
         "trans/nesting (reduce semantics), C09_entry_order. Correspondence: real pyparsing+_descend_tree trees vs Lean parser, 6 layouts per definition, potable text vs Python-API "
         "composition, custom form sets in exact arithmetic vs evalS/evalP, pymath table.",
    ref="4 C09", technique="Lean refinement proof (stateful vs pure evaluator) + parser round-trip proof + differential/metamorphic correspondence",
    note=NOTE_COMMON + "Token level only: pyparsing's character-level tokenisation and exprtk's parser/evaluation order are external libraries tied by correspondence (partial)."),
 "C10": dict(
    text="Theorems about the linear systems EXTRACTED from spline/__init__.py on every run: C10_exp_C2 and C10_buck4_C2 (a coefficient vector solving the generated 6x6 / 10x10 system gives "
         "value/slope/curvature agreement at detach, attach and r_min, zero slope at r_min), C10_shift_pos, C10_exp_shape, C10_regions, C10_buck4_start/_end. numpy.linalg.solve is a "
         "hypothesis whose residual on the real objects is measured each run; join conditions, regions, shift constant and the three construction routes are checked on the real callables. C10_exp_unique / C10_buck4_unique: the generated systems have at most one solution for distinct detach/attach (r_dp < r_min < r_ap), so the spline is determined by the end-point data whatever numpy.linalg.solve returns.",
    ref="4 C10", technique="translator-extracted matrices + Lean/Mathlib proof under a solver hypothesis + residual/numeric correspondence; uniqueness of the solution of the generated linear systems",
    note=NOTE_COMMON + CODE_NOTE + "Conditioning of the solve is not modelled (joins compared to 2e-6 relative)."),
 "C12": dict(
    text="Theorems: C12_purity / C12_interleaving (energy independent of prior symbol-table contents and of interleaved evaluations, all form sets), C12_order_only_through_extras, "
         "C12_set_order_witness (the fixed defect), C12_sorted_order_example, C12_cache_idempotent. Correspondence: histories within a process (write twice, other models before/between, shuffled "
         "evaluation orders, rebuild) byte-compared with fresh builds for all targets; potable entry point in fresh processes under 4/16 hash seeds incl. several --add-item options; static scan "
         "of set iterations and mutable defaults against the accounted sites.",
    ref="4 C12", technique="Lean state-independence proof + history/hash-seed differential runs + static scan",
    note=NOTE_COMMON + "CPython dict order and cexprtk evaluation order trusted. Known finding: xlsx container timestamps (sheet contents compared)."),
 "C13": dict(
    text="Theorems: checkTuple_spec, C13_filter_eq_delete (filtered view = by-hand deletion, any entries/sets/mode), C13_sublist, C13_empty_*, C13_unknown_labels, C13_output_eq, "
         "C13_views_independent (any op sequence), C13_mode_current; shipped-behaviour witnesses. Correspondence: four filtered lists, view sequences on one parser, tabulated bytes of filtered "
         "view / potable --include/--exclude-species vs hand-edited file. C13_code_check_tuple/_filter_init: _check_tuple and the constructor's mode choice regenerated from the source ARE the model's checkTuple / modeCurrent.",
    ref="4 C13", technique="Lean list/state-machine proofs + differential correspondence incl. end-to-end bytes; filter functions regenerated from source and proved equal to the model",
    note=NOTE_COMMON + CODE_NOTE + "wrapt.ObjectProxy attribute forwarding as observed."),
 "C14": dict(
    text="Theorems about the INI model (current configuration): C14_override_sets, C14_add_appends, C14_remove_removes, C14_rejects, C14_exists_mod_whitespace, C14_other_sections_untouched, "
         "C14_sequence, C14_cli_last_wins, C14_list_once_partial (well-formed files), shipped witnesses. Correspondence: ConfigParser(overrides=, additional=) vs applyOps; by-hand edit of the file "
         "text vs parsed content, tabulated bytes, --list-items, --item-value, rejection rules; explicit command-line scenarios.",
    ref="4 C14", technique="Lean model of the INI/override layer + differential correspondence against hand-edited files",
    note=NOTE_COMMON + "configparser line splitting is the standard library's. C14_list_once holds for files without repeated section names (readIni never produces others)."),
 "C15": dict(
    text="Theorems: C15_unused_neutral, C15_items_neutral_partial, C15_resolve_literal, C15_resolve_subst(_xref), C15_unresolved, C15_section_shadows_variable; shipped leak witness. "
         "Correspondence: every option value resolved by the real parser vs Atsim.resolveVal; templated vs hand-substituted file bytes for pair/EAM/FS/table-form models; unused variables "
         "whose names resemble keys of other sections.",
    ref="4 C15", technique="Lean model of placeholder resolution + metamorphic byte comparison",
    note=NOTE_COMMON + "ExtendedInterpolation is the standard library's (modelled, compared on every value)."),
 "C16": dict(
    text="Theorems: C16_spline_iff (spline() accepts exactly the well-formed definitions), C16_spline_rmin/_middle/_counts, C16_table_iff, C16_key_iff, C16_documented_targets, "
         "C16_target_synonyms. Correspondence: 93 malformation/validity operators over four base models through Configuration and the potable entry point (exception class, exit status, "
         "'configuration error - ' prefix, no table left) + generated spline/table/target/key inputs against the Lean decisions. C16_code_target/_registry_sound/_parse_data/_parse_x_y: target synonyms, the factory registry and the table-form presence rules regenerated from the source; C16_signature_iff/_positional: under the signature check every parameter name reads the argument in its position.",
    ref="4 C16 / Appendix A", technique="Lean decision-procedure iff-theorems + catalogue-driven outcome-class correspondence; target/registry/table-data functions regenerated from source and proved equal to the model",
    note=NOTE_COMMON + CODE_NOTE + "Errors raised inside exprtk are classified by the real library; command-line option syntax is out of scope."),
 "C17": dict(category="proof",
    text="Theorems: C17_buffered (any size, any fault position: nothing written before a failing evaluation), C17_buffered_complete, C17_adp_three_writes, shipped witnesses for the fixed GULP/ADP "
         "writers. Fault enumeration: every k in 1..evaluations for 12 targets (quick 1 shape, thorough 3), recording file object, retry scenario, plus potable with a formula leaving its "
         "domain at first/interior/last grid point.",
    ref="4 C17", technique="Lean trace-model proof + exhaustive fault-position enumeration on small grids",
    note=NOTE_COMMON + "An 'evaluation' is one call of a model callable; the recording object stands for any destination with write()."),
 "C18": dict(
    text="Theorems: C18_at_points, C18_between(+bounds), C18_outside, sortRows_perm/_strict, C18_unsorted_ok, C18_xy_equiv, C18_plot. Correspondence: generated data files (comments, blank "
         "lines, unsorted, with/without final newline) vs Atsim.tableReader; table forms via class and potable (x/y vs xy), zero outside, Richardson check of derivatives; plotToFile/plot rows. C18_code_parse_xy/_xy_equiv: _parse_xy regenerated from the source IS the model's deinterleave.",
    ref="4 C18", technique="Lean proofs about the legacy table reader + correspondence; SciPy contract tested; xy parsing regenerated from source and proved equal to the model",
    note=NOTE_COMMON + CODE_NOTE + KERNEL_NOTE + "The cubic-spline half is a contract of SciPy's InterpolatedUnivariateSpline(ext=1): tested, not proved (partial)."),
 "C19": dict(
    text="Theorems: C19_gulp(+_last), C19_adp_prefix/_unscaled/_blocks, C19_funcfl_header, C19_funcfl_inverse (over R), rowsOf5_*, C19_excel_cells, C19_excel_pair_label. Correspondence: tracer "
         "models through GULP (4 routes), eam_adp (class, potable), writeFuncFL, excel / excel_eam / excel_eam_fs (class, potable; read back with openpyxl). C19_code_gulp_writer/_r_values: the GULP writer and grid iterator regenerated from the source emit exactly the model's table for every input.",
    ref="4 C19", technique="Lean theorems about hand models + tracer correspondence; GULP writer regenerated from source and proved equal to the model",
    note=NOTE_COMMON + CODE_NOTE + KERNEL_NOTE + "openpyxl storage trusted."),
 "C20": dict(
    text="Theorems: C20_detects_same_key(_exact) (a second key equal modulo embedded whitespace in the same section is rejected wherever it stands), C20_whitespace_examples, C20_dupPairs_iff, "
         "C20_tables_iff, C20_registry(+_ok), C20_binding_example, shipped witness. Correspondence: every duplication operator on every entry of three base models (before/after), "
         "additional items / --add-item duplicates; INI-level duplicate detection vs Atsim.readIni.",
    ref="4 C20", technique="Lean proofs about duplicate detection + operator-driven outcome correspondence",
    note=NOTE_COMMON + "configparser strict mode supplies option/section duplicate detection (modelled by readIni)."),
}

NOT_APPLICABLE = {}

# code ties added after the per-property texts were written (session 3, batches 1-5): appended to the level text, and the note gains CODE_NOTE where it lacked it
EXTRA = {
 "C01": " C01_code_tabulation_write: LAMMPS_PairTabulation.write and its dr property regenerated from the source hand dr, cutoff, nr-1 to the writer: lammpsTable.",
 "C02": " C02_code_tabulation_write: DLPoly_PairTabulation.write regenerated from the source hands cutoff and nr to the writer.",
 "C03": " C03_code_header, C03_code_write_alloy, C03_code_tabulation_write: the header writer (comments, ntypes and names, grid line built from its constant template), the public writeSetFL "
        "(cutoff default nr*dr when None or zero) and SetFL_EAMTabulation.write with its step properties, regenerated from the source, write the model's whole file.",
 "C04": " C04_code_write_fs, C04_code_tabeam_fs, C04_code_tabeam_fs_missing, C04_code_tabulation_write_setfl/_tabeam: writeSetFLFinnisSinclair, writeTABEAMFinnisSinclair (A in element "
        "order, B in sorted order, dictionary look-up under 'dens A B'; a missing entry raises and nothing is written) and the two Finnis-Sinclair tabulation classes' write methods, "
        "regenerated from the source, write the model's files. C04_code_eam_builder_fs(_duplicate): EAM_Potential_Builder_FS as it runs on an object of the subclass, regenerated (override check, alias-tracked nested dictionaries), builds eamBuildFS for every set order. C04_code_fs_key(_split/_arity/_has_arrow/_no_arrow): the key parser of a Finnis-Sinclair density entry (species_func inside _parse_eam_fs_density_line, regenerated with str.split(\"->\") as a two-character scan) reads A->B as (from=A, to=B) for all labels free of '>', refuses blank labels and any other number of arrows, and agrees with the '->' in key test by which parsed_sections chooses the Finnis-Sinclair flavour.",
 "C05": " C05_code_tabulate/_embedding/_density_*/_pair_potentials/_except_density/_write/_tabulation_write: every function of _dlpoly_writeTABEAM.py and TABEAM_EAMTabulation.write "
        "regenerated from the source write the model's tabeam; that sorted(set(sorted pairs)) is the triangular enumeration of the sorted labels is proved.",
 "C11": " C11_code_pair_defaults/_eam_defaults/_dlpoly_cutoffs/_lammps_cutoffs: the four extract_cutoffs methods of the tabulation factories regenerated from the source fill in exactly "
        "cutoff 10, nr 1001, cutoff_rho 100, nrho 1001 and refuse exactly the row counts the targets cannot lay out. C11_code_create_tabulation_pair/_dlpoly/_lammps/_eam: create_tabulation of the four factory classes, regenerated with class dispatch checked against the method resolution order, hands the constructor the section's grid, each value from its own key.",
 "C13": " C13_code_views: the four filtered properties of FilteredConfigParser regenerated from the source are filteredView. C13_code_cli_species(_corner): the species choice of potable's _do_tabulation, regenerated and composed with the constructor's reading (C13_code_filter_init): --include-species decides even when given without a label (include-mode, empty set), otherwise a non-empty --exclude-species list is excluded, otherwise there is no view; validated behind the real argument parser.",
 "C14": " C14_code_apply_overrides: the override / removal / addition loops of _init_config_parser regenerated from the source, run on the model's parser operations, are applyOps for every "
        "file and operation lists; C14_code_parse_item_value/_novalue, C14_code_cli_operations, C14_cli_dict_model: the command-line layer (_create_override_tuple, _item_id, the ordered "
        "dictionary of _make_config_parser) regenerated from the source is cliOverrides. C14_empty_section_*/C14_code_empty_section: an item of a section without a name is rejected by model and regenerated code alike. C14_code_list_items(_complete), C14_code_item_value_of_listed: _list_items with parsed_sections / orphan_sections regenerated from the source lists every section of the file exactly once, and _item_value returns each listed item's value.",
 "C15": " C15_code_optionxform, C15_code_has_option(_default), C15_code_options(_default/_no_variable): what the repository's _RawConfigParser adds to the standard parser, regenerated from the source - "
        "key normalisation is norm; has_option and options of a section other than [Variables] answer from that section's OWN entries (hasOption / sectionKeys of the model), so a key of [Variables] "
        "that no section repeats is not an option of any other section; an absent section is NoSectionError, never an empty list. C15_code_has_option_iff_options: the two regenerated methods agree - has_option(s, k) exactly when options(s) lists the normalised key.",
 "C16": " C16_code_pair_species(_iff/_no_unpack), C16_split_spec, C16_code_signature_check: the pair-key parser and the signature name-clash loop regenerated from the source are splitKey / validSignature; "
        "C16_code_read_from_parser: an unknown target is a configuration error before any factory runs. C16_code_reference_get: [Species] values override the element table property by property; unknown label / property are the declared errors. C16_code_parse_params_section/_section_properties: a present section, empty or not, is parsed entry by entry in order; each property reads its own section with its own line parser.",
 "C17": " C17_code_lammps/_dlpoly/_gulp/_setfl/_setfl_fs/_tabeam/_tabeam_fs/_tabulation_objects: for every whole-file writer and tabulation class on the text targets (ADP included) a "
        "destination-mode twin regenerated from the same source (one chunk per write call reaching the destination) receives, for EVERY input, exactly one chunk holding the complete "
        "table, or nothing when the writer itself raises; C17_code_trace: that history is traceBuffered.",
 "C18": " C18_code_find_index/_get_value/_index_in_range, C18_code_plot: TableReaderBase._findIndex / getValue (every index in range) and plotToFile regenerated from the source are the model's functions.",
 "C19": " C19_code_adp_write: ADP_EAMTabulation.write with _write_dipole/_write_quadrupole regenerated from the source (three files) writes the model's adp. C19_code_create_tabulation_adp: the ADP factory hands the constructor the dipole then the quadrupole objects, each from its own section, and the grid values in order.",
 "C20": " C20_code_dup_pairs(_ok_iff), C20_code_dup_table_forms, C20_code_build_potential_forms/_build_table_forms/_check_labels_case: the duplicate checks of the parser and the label checks of "
        "the form registry regenerated from the source decide dupPairs / dupLabels.",
 "C12": " C12_code_eam_builder(_order_free/_strict): EAM_Potential_Builder._init_eampotentials and the eleven methods it uses, regenerated from the source with the iteration order of its one "
        "set loop handed in as a parameter, build the model's eamBuild for EVERY permutation the hash seed can produce.",
 "C08": " C08_code_builder_tuple/_chain/_ranges/_pair_builder: Potential_Form_Builder and the pair builder regenerated from the source (while-walk along .next, registry look-ups, except clauses) "
        "hand the multi-range callable one range per range of the definition, in order, with its own start and marker.",
 "C10": " C10_code_spline_modifier / _spline_order: the glue of the spline() modifier regenerated from the source takes the start potential from the first part, the end potential from the third, "
        "detach and attach points from the second and third parts' starts, refuses everything else, and remembers nothing between calls.",
 "C09": " C09_code_modifier_reduce/_sum_product_pow/_sum_value/_product_value: the reducing modifiers of _modifiers.py, regenerated from the source, fold plus/product/pow from the "
        "left over the callables of all their arguments; C09_code_register_with_each_other/_every_form_sees_every_other: the registry registers every form with every other, both ways. C09_code_trans_modifier/_trans_value: trans() returns its first argument, as written, at r + X.",
 "C07": " C07_pow_d1_zero_base/_d2_zero_base: the guards of pow.deriv / pow.deriv2 (vanishing base, constant whole exponent), regenerated from the source, return the derivatives.",
}


def main():
    props = [json.loads(l)["id"] for l in open(os.path.join(ROOT, "properties.jsonl"))]
    checks = []
    for pid in props:
        if pid not in CHECKS:
            continue
        c = CHECKS[pid]
        checks.append(dict(
            property_id=pid,
            quick_cmd="./check %s --tier quick" % pid,
            thorough_cmd="./check %s --tier thorough" % pid,
            evidence_file="evidence/%s.json" % pid,
            replay_cmd_template="./check %s --replay {path}" % pid,
            engine="lean-proof+correspondence",
            level_claimed=dict(category=c.get("category", "proof"), text=c["text"] + EXTRA.get(pid, ""), design_ref=c["ref"]),
            level_note=c["note"] + (CODE_NOTE if pid in EXTRA and CODE_NOTE not in c["note"] else ""),
            technique=c["technique"]))
    na = []
    for pid in props:
        if pid not in CHECKS:
            na.append(dict(property_id=pid, reason=NOT_APPLICABLE.get(pid, "check not built yet in this round (planned: see DESIGN.md section 4); not claimed until its check is sound on the unchanged tree")))
    m = dict(
        version=1,
        setup_cmd="cd lean && /venv/bin/python ../translator/py2lean.py /repo AtsimModel/Gen > /dev/null && lake build",
        hooks=dict(guard="ATSIM_POTENTIALS_VERIF", enable="no instrumentation of /repo is needed: tracers enter through the public API, faults through the callables, hash order through PYTHONHASHSEED; ./check exports ATSIM_POTENTIALS_VERIF=1 (reserved, unused by /repo)",
                   baseline_off_cmd="cd /repo && /venv/bin/python -m pytest -ra -q -p no:cacheprovider --timeout=900 --continue-on-collection-errors",
                   source_commits=[], add_only=True),
        engines=[dict(name="lean-proof+correspondence", path="lean/ + harness/ + translator/", serves_properties=[c["property_id"] for c in checks],
                      kind_free_text="Lean 4 models and theorems (lake project lean/), two Python->Lean translators (expression-level formulas and kernels; statement-level functions: writers, parser, command line, factories), and a Python correspondence harness that runs the real code and the Lean model's executable definitions on the same generated inputs through a JSON line protocol")],
        checks=checks,
        notes="See DESIGN.md. Exit codes: 0 held, 1 VIOLATION line printed, 2 infrastructure failure (never a verdict). known_findings.json lists recorded findings and fixed defects.",
        not_applicable=na)
    with open(os.path.join(ROOT, "MANIFEST.json"), "w") as f:
        json.dump(m, f, indent=1)
        f.write("\n")
    print("MANIFEST.json: %d checks, %d not claimed" % (len(checks), len(na)))

if __name__ == "__main__":
    main()
