#!/usr/bin/env python3
"""Writes MANIFEST.json from the table below (kept as a script so the manifest is always schema-valid)."""
import json, os
ROOT = os.path.dirname(os.path.dirname(os.path.abspath(__file__)))

NOTE_COMMON = ("Trusted: Lean 4.33 kernel + Mathlib single modules; axioms audited each run to be within propext/Classical.choice/Quot.sound "
               "(no sorry, native_decide, bv_decide or own axioms); the hand-written model is tied to /repo's current working tree by the "
               "correspondence run of this check (real code imported in-process), generated definitions by translator/py2lean.py. ")

CHECKS = {
 "C01": dict(
    text="Theorems C01_holds/C01_determined (Lean): for every list of potentials, cutoff and nr>=3 the model of LAMMPS_PairTabulation.write "
         "emits one block per potential with header (N=nr-1, lo=dr, hi=cutoff), rows 1..N on the grid n*cutoff/(nr-1), own energy/force slots, "
         "and any output satisfying the predicate IS the model output. The model is tied to the code by a tracer correspondence over five routes "
         "(class, writePotentials, Configuration, potable entry point, default target) plus a real-function numerical stream.",
    ref="4 C01", technique="Lean 4 theorem about hand model + differential correspondence (tracer potentials) against the real writer",
    note=NOTE_COMMON + "Not modelled: binary64 rounding (tested to printed precision by the real stream); parametricity of the writer in the callables."),
}

NOT_APPLICABLE = {}

def main():
    props = [json.loads(l)["id"] for l in open(os.path.join(ROOT, "properties.jsonl"))]
    checks = []
    for pid in props:
        if pid not in CHECKS:
            continue
        c = CHECKS[pid]
        checks.append(dict(
            property_id=pid,
            quick_cmd="./check %s --tier quick" % pid,
            thorough_cmd="./check %s --tier thorough" % pid,
            evidence_file="evidence/%s.json" % pid,
            replay_cmd_template="./check %s --replay {path}" % pid,
            engine="lean-proof+correspondence",
            level_claimed=dict(category=c.get("category", "proof"), text=c["text"], design_ref=c["ref"]),
            level_note=c["note"],
            technique=c["technique"]))
    na = []
    for pid in props:
        if pid not in CHECKS:
            na.append(dict(property_id=pid, reason=NOT_APPLICABLE.get(pid, "check not built yet in this round (planned: see DESIGN.md section 4); not claimed until its check is sound on the unchanged tree")))
    m = dict(
        version=1,
        setup_cmd="cd lean && /venv/bin/python ../translator/py2lean.py /repo AtsimModel/Gen > /dev/null && lake build",
        hooks=dict(guard="ATSIM_POTENTIALS_VERIF", enable="no instrumentation of /repo is needed: tracers enter through the public API, faults through the callables, hash order through PYTHONHASHSEED; ./check exports ATSIM_POTENTIALS_VERIF=1 (reserved, unused by /repo)",
                   baseline_off_cmd="cd /repo && /venv/bin/python -m pytest -ra -q -p no:cacheprovider --timeout=900 --continue-on-collection-errors",
                   source_commits=[], add_only=True),
        engines=[dict(name="lean-proof+correspondence", path="lean/ + harness/ + translator/", serves_properties=[c["property_id"] for c in checks],
                      kind_free_text="Lean 4 models and theorems (lake project lean/), a Python->Lean translator for expression-level code, and a Python correspondence harness that runs the real code and the Lean model's executable definitions on the same generated inputs through a JSON line protocol")],
        checks=checks,
        notes="See DESIGN.md. Exit codes: 0 held, 1 VIOLATION line printed, 2 infrastructure failure (never a verdict). known_findings.json lists recorded findings and fixed defects.",
        not_applicable=na)
    with open(os.path.join(ROOT, "MANIFEST.json"), "w") as f:
        json.dump(m, f, indent=1)
        f.write("\n")
    print("MANIFEST.json: %d checks, %d not claimed" % (len(checks), len(na)))

if __name__ == "__main__":
    main()
