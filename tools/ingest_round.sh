#!/bin/bash
# usage: ingest_round.sh <worktree-root> <Cxx>   - confirm every SEED/<Cxx>_<i> of a seeding agent myself and keep it as the next free /verif/seeded/<Cxx>_<n>; then run the property's check on it
set -u
ROOT="$1"; P="$2"; WT="$ROOT/$P"
cd /verif
for sd in $(ls -d $WT/SEED/${P}_* 2>/dev/null | sort -V); do
  [ -f "$sd/patch.diff" ] || continue
  n=1; while [ -e "seeded/${P}_$n" ]; do n=$((n+1)); done
  dest="${P}_$n"
  (cd $WT && git checkout -q -- atsim)
  if python3 tools/confirmseed.py "$WT" "$sd" "$dest" "$P" "" ; then
    python3 tools/tryseed.py "$dest" 2>&1 | grep -v "^WARNING" | cut -c1-300
  else
    echo "$sd NOT CONFIRMED"
  fi
done
ls $WT/SEED/existing_* 2>/dev/null
