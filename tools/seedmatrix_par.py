#!/usr/bin/env python3
"""tools/seedmatrix_par.py [-j N] [ids...]   - every seeded change against EVERY check, in parallel, on scratch copies.
Each worker owns a scratch copy of /repo's HEAD, a private copy of lean/ and an output directory under /tmp/seedmatrix/<w>/ (removed at the end);
the checks are pointed at them with ATSIM_REPO / ATSIM_LEAN_DIR / ATSIM_OUT_DIR (harness/reposhim.py).  /repo itself is never touched.
Result: seeded/MATRIX_all.json  {seed: {check: caught | caught-no-input | pass | infra}}"""
import json, os, shutil, subprocess, sys
from concurrent.futures import ThreadPoolExecutor
ROOT = os.path.dirname(os.path.dirname(os.path.abspath(__file__)))
args = sys.argv[1:]
J = int(args[args.index("-j") + 1]) if "-j" in args else 8
ids = [a for a in args if a.startswith("C")]
seeds = sorted(d for d in os.listdir(os.path.join(ROOT, "seeded")) if os.path.isdir(os.path.join(ROOT, "seeded", d)))
if ids:
    seeds = [s for s in seeds if s in ids or s.split("_")[0] in ids]
props = ["C%02d" % i for i in range(1, 21)]
BASE = "/tmp/seedmatrix"
shutil.rmtree(BASE, ignore_errors=True)


def worker(w, myseeds):
    d = os.path.join(BASE, str(w))
    repo, lean, out = os.path.join(d, "repo"), os.path.join(d, "lean"), os.path.join(d, "out")
    os.makedirs(repo); os.makedirs(out)
    subprocess.run("git -C /repo archive HEAD | tar -x -C %s" % repo, shell=True, check=True)
    subprocess.run(["cp", "-a", os.path.join(ROOT, "lean"), lean], check=True)
    # private snapshot of the machinery too (harness/, translator/, check, known_findings.json), so that /verif can be edited while the matrix runs
    snap = os.path.join(d, "verif")
    os.makedirs(snap)
    for item in ("harness", "translator", "check", "known_findings.json", "properties.jsonl"):
        subprocess.run(["cp", "-a", os.path.join(ROOT, item), snap], check=True)
    env = dict(os.environ, ATSIM_REPO=repo, ATSIM_LEAN_DIR=lean, ATSIM_OUT_DIR=out)
    res = {}
    for s in myseeds:
        patch = os.path.join(ROOT, "seeded", s, "patch.diff")
        if subprocess.run(["git", "apply", patch], cwd=repo).returncode != 0:
            res[s] = {"_apply": "failed"}
            continue
        res[s] = {}
        for p in props:
            r = subprocess.run([os.path.join(snap, "check"), p, "--tier", "quick"], capture_output=True, text=True, cwd=snap, env=env)
            v = [l for l in r.stdout.splitlines() if l.startswith("VIOLATION")]
            res[s][p] = "infra" if r.returncode not in (0, 1) else ("pass" if r.returncode == 0 else ("caught-no-input" if v and v[0].endswith("no-failing-input-found") else "caught"))
        subprocess.run(["git", "apply", "-R", patch], cwd=repo, check=True)
        print(s, " ".join("%s:%s" % (p, res[s][p]) for p in props if res[s][p] != "pass"), flush=True)
    return res


with ThreadPoolExecutor(J) as ex:
    futs = [ex.submit(worker, w, seeds[w::J]) for w in range(J)]
    matrix = {}
    for f in futs:
        matrix.update(f.result())
shutil.rmtree(BASE, ignore_errors=True)
json.dump(matrix, open(os.path.join(ROOT, "seeded", "MATRIX_all.json"), "w"), indent=1, sort_keys=True)
print("done", len(matrix))
