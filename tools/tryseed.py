#!/usr/bin/env python3
"""tools/tryseed.py <seed-id> [check ids...]   - run check(s) against ONE seeded change on a scratch copy of /repo's HEAD (never touches /repo).
Default: the check of the seed's own property.  Uses a private copy of lean/ and of the harness (so /verif can be edited meanwhile).
Prints one line per check: <seed> <check> caught|caught-no-input|pass|infra  + the VIOLATION/what lines; merges into seeded/MATRIX.json."""
import json, os, shutil, subprocess, sys, tempfile
ROOT = os.path.dirname(os.path.dirname(os.path.abspath(__file__)))
seed = sys.argv[1]
props = [a for a in sys.argv[2:] if a.startswith("C")] or [seed.split("_")[0]]
tier = "thorough" if "--thorough" in sys.argv else "quick"
d = tempfile.mkdtemp(prefix="tryseed_%s_" % seed, dir="/tmp")
try:
    repo, lean, out, snap = [os.path.join(d, x) for x in ("repo", "lean", "out", "verif")]
    os.makedirs(repo); os.makedirs(out); os.makedirs(snap)
    subprocess.run("git -C /repo archive HEAD | tar -x -C %s" % repo, shell=True, check=True)
    subprocess.run(["cp", "-a", os.path.join(ROOT, "lean"), lean], check=True)
    for item in ("harness", "translator", "check", "known_findings.json", "properties.jsonl"):
        subprocess.run(["cp", "-a", os.path.join(ROOT, item), snap], check=True)
    patch = os.path.join(ROOT, "seeded", seed, "patch.diff")
    r = subprocess.run(["git", "apply", patch], cwd=repo, capture_output=True, text=True)
    if r.returncode != 0:
        print(seed, "patch does not apply:", r.stderr.strip()); sys.exit(3)
    env = dict(os.environ, ATSIM_REPO=repo, ATSIM_LEAN_DIR=lean, ATSIM_OUT_DIR=out)
    mpath = os.path.join(ROOT, "seeded", "MATRIX.json")
    for p in props:
        r = subprocess.run([os.path.join(snap, "check"), p, "--tier", tier], capture_output=True, text=True, cwd=snap, env=env)
        v = [l for l in r.stdout.splitlines() if l.startswith("VIOLATION")]
        res = "infra" if r.returncode not in (0, 1) else ("pass" if r.returncode == 0 else ("caught-no-input" if v and v[0].endswith("no-failing-input-found") else "caught"))
        print(seed, p, res, flush=True)
        for l in r.stdout.splitlines():
            if l.startswith("VIOLATION") or l.startswith("  what") or "INFRA" in l:
                print("   ", l[:300])
        if res == "infra":
            print(r.stdout[-1500:], r.stderr[-1500:])
        import fcntl
        with open(mpath + ".lock", "w") as lk:
            fcntl.flock(lk, fcntl.LOCK_EX)
            m = json.load(open(mpath)) if os.path.exists(mpath) else {}
            m.setdefault(seed, {})[p] = res
            json.dump(m, open(mpath + ".tmp", "w"), indent=1, sort_keys=True)
            os.replace(mpath + ".tmp", mpath)
finally:
    shutil.rmtree(d, ignore_errors=True)
