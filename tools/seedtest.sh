#!/bin/bash
# usage: tools/seedtest.sh <patch.diff> <Cxx> [tier]  - apply a seeded change to /repo, run the check, ALWAYS revert
P="$1"; C="$2"; T="${3:-quick}"
git -C /repo apply "$P" || { echo "patch does not apply"; exit 3; }
/verif/check "$C" --tier "$T" | grep -E "^VIOLATION|^  what|^KNOWN|PASS|FAIL|INFRA" | cut -c1-400
git -C /repo checkout -- . ; git -C /repo status --short | head -3
