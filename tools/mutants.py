#!/usr/bin/env python3
"""Self-test: apply known property-breaking, suite-surviving changes to /repo one at a time, run the check, revert.
usage: tools/mutants.py C02 [name-substring]      (never leaves /repo modified)"""
import subprocess, sys, os, re
R = "/repo/atsim/potentials/"
M = [
 ("C01", "nr-not-minus-1", "pair_tabulation.py", "self.cutoff, self.nr-1, fp)", "self.cutoff, self.nr, fp)"),
 ("C02", "mesh-no-minus-4", "_dlpoly_writeTABLE.py", "gridPoints-4.0", "gridPoints"),
 ("C02", "energy-loop-force", "_dlpoly_writeTABLE.py", "l.append(potential.energy(r))", "l.append(_calculateForce(potential, r))"),
 ("C02", "field-13.6e", "_dlpoly_writeTABLE.py", 'u" % 14.7e" * 3', 'u" % 13.6e" * 3'),
 ("C02", "nr-mod4-config-off", "config/_tabulation_factories.py", "if cutoffs.nr % 4 != 0:", "if False and cutoffs.nr % 4 != 0:"),
 ("C08", "deriv-default", "_multi_range_potential_form.py", "    if rt is None:\n      return 0.0\n    return rt.deriv(r)", "    if rt is None:\n      return self.default_value + 1e-9\n    return rt.deriv(r)"),
 ("C11", "nr-lt-0", "config/_config_parser.py", "if not nr is None and nr <= 0:", "if not nr is None and nr < 0:"),
 ("C11", "dr-lt-0", "config/_config_parser.py", "if not dr is None and dr <= 0:", "if not dr is None and dr < 0:"),
 ("C11", "rho-default-10", "config/_tabulation_factories.py", "cutoff_rho = 100.0", "cutoff_rho = 10.0"),
 ("C11", "revert-snap", "config/_config_parser.py", "nr = self._rows_for_step(cutoff, dr)", "nr = int((cutoff/dr) + 1)"),
 ("C11", "revert-truthy", "config/_config_parser.py", "if not nr is None and not dr is None and not cutoff is None:", "if nr and dr and cutoff:"),
 ("C06", "zbl-ck1", "potentialfunctions.py", "Ck1=0.1818", "Ck1=0.1819"),
 ("C06", "coul-const", "potentialfunctions.py", "return (qi * qj)/(4.0*math.pi*0.0055264*r)", "return (qi * qj)/(4.0*math.pi*0.0055624*r)"),
 ("C06", "sqrt-scale", "potentialfunctions.py", "return G*math.sqrt(r)", "return G*math.sqrt(r)*1.0000001"),
 ("C06", "morse-swap", "potentialfunctions.py", "def __call__(self, r, gamma, r_star, D):", "def __call__(self, r, r_star, gamma, D):"),
 ("C07", "product-cross-term", "__init__.py", "2.0*deriv_a(r)*deriv_b(r)", "deriv_a(r)*deriv_b(r)"),
 ("C07", "pow-sign", "__init__.py", "- (br*da*da)/(ar**2))*p", "+ (br*da*da)/(ar**2))*p"),
 ("C07", "trans-deriv2", "_modifiers.py", "return potential_func.deriv2(r+trans_value)", "return potential_func.deriv(r+trans_value)"),
 ("C07", "spline-deriv2-mid", "spline/__init__.py", None, None),
 ("C07", "lj-deriv2-coef", "potentialfunctions.py", "-168.0*epsilon*sigma**6/r**8", "-186.0*epsilon*sigma**6/r**8"),
 ("C07", "revert-poly-fix", "potentialfunctions.py", "for (i,c) in enumerate(coefs) if i >= 1]", "for (i,c) in enumerate(coefs)][1:]"),
 ("C10", "shift-and", "spline/__init__.py", "if sy <=0.0 or ey <= 0.0:", "if sy <=0.0 and ey <= 0.0:"),
 ("C10", "deriv2-mid", "spline/__init__.py", "      return self._inter_point.deriv2_callable(rij)", "      return self._inter_point.deriv_callable(rij)"),
 ("C10", "detach-lt", "spline/__init__.py", "    if rij <= self.detachmentX:\n      return self.startPotential(rij)", "    if rij < self.detachmentX:\n      return self.startPotential(rij)"),
 ("C10", "matrix-entry", "spline/__init__.py", "[0.0  , 0.0 , 2.0    , 6.0*ex    , 12.0*ex**2 , 20.0*ex**3]])", "[0.0  , 0.0 , 2.0    , 6.0*ex    , 12.0*ex**2 , 24.0*ex**3]])"),
 ("C10", "buck4-matrix", "spline/__init__.py", "0, 0   , 0      , 0       , 0        , 0        , 0 , 0     , 2       , 6*r_ap]", "0, 0   , 0      , 0       , 0        , 0        , 0 , 0     , 2       , 3*r_ap]"),
 ("C09", "trans-minus", "_modifiers.py", "return potential_func(r+trans_value)", "return potential_func(r-trans_value)"),
 ("C09", "product-as-plus", "_modifiers.py", 'mod = _modifier_from_func_reduce("product", product, potential_forms, potential_form_builder)', 'mod = _modifier_from_func_reduce("product", plus, potential_forms, potential_form_builder)'),
 ("C09", "default-range-ge", "config/_config_parser.py", 'self._default_range_start = MultiRangeDefinitionTuple(u">", 0.0)', 'self._default_range_start = MultiRangeDefinitionTuple(u">=", 0.0)'),
 ("C12", "tabeam-unsorted-pairs", "_dlpoly_writeTABEAM.py", "for k in sorted(pairs):", "for k in pairs:"),
 ("C12", "refdata-shared-dict", "referencedata/_reference_data.py", "species_dat = dict(self.extra_data[species])", "species_dat = self.extra_data[species]"),
 ("C12", "revert-sorted-null-embed", "config/_eam_potential_builder.py", "for s in sorted(null_embed_species):", "for s in null_embed_species:"),
 ("C19", "gulp-row-swapped", "pair_tabulation.py", 'row_template = u"{energy:.10f} {sepn:.10f}\\n"', 'row_template = u"{sepn:.10f} {energy:.10f}\\n"'),
 ("C19", "gulp-header-dr", "pair_tabulation.py", "speciesB = pot.speciesB, cutoff= self.cutoff))", "speciesB = pot.speciesB, cutoff= self.dr))"),
 ("C19", "adp-dipole-scaled", "eam_tabulation.py", "self.dipole_potentials, fp, scale_r=False)", "self.dipole_potentials, fp, scale_r=True)"),
 ("C19", "excel-pair-unsorted", "pair_tabulation.py", 'k = "{}-{}".format(*sorted([p.speciesA, p.speciesB]))', 'k = "{}-{}".format(p.speciesA, p.speciesB)'),
 ("C19", "funcfl-cutoff-nr", "_lammpsWriteEAM.py", "cutoff = dr * (nr - 1)", "cutoff = dr * nr"),
 ("C17", "lammps-streams", "_lammps_writeTABLE.py", "    _writeSinglePotential(potential, minr, maxr, gridPoints, sbuild)\n    potlines.append(sbuild.getvalue())", "    _writeSinglePotential(potential, minr, maxr, gridPoints, out)"),
 ("C17", "dlpoly-header-first", "_dlpoly_writeTABLE.py", "_writeTableHeader(meshResolution, cutoff, gridPoints, outputbuilder)", "_writeTableHeader(meshResolution, cutoff, gridPoints, out)"),
 ("C17", "revert-gulp-buffer", "pair_tabulation.py", "      self._write_pot(pot, sbuild)", "      self._write_pot(pot, fp)"),
 ("C13", "cli-exclude-as-include", "tools/potable/__init__.py", "      cp = FilteredConfigParser(cp, exclude = species)", "      cp = FilteredConfigParser(cp, include = species)"),
 ("C13", "cli-exclude-flag-false", "tools/potable/__init__.py", "    species_list = args.exclude_species\n    exclude_flag = True", "    species_list = args.exclude_species\n    exclude_flag = False"),
 ("C13", "revert-self-attrs", "config/_filtered_config_parser.py", "      self._self_species_list = include\n      self._self_exclude_flag = False", "      self._species_list = include\n      self._self_species_list = include\n      self.__wrapped__._shared = include\n      self._self_exclude_flag = False"),
 ("C18", "ext-0", "tableforms.py", "InterpolatedUnivariateSpline(x_data, y_data, ext =1)", "InterpolatedUnivariateSpline(x_data, y_data, ext =0)"),
 ("C18", "no-sort", "_tablereaders.py", "    results.sort()\n", ""),
 ("C18", "plot-steps-minus-1", "__init__.py", "  step = (highx - lowx) / float(steps)", "  step = (highx - lowx) / float(steps - 1)"),
 ("C18", "revert-line-strip", "_tablereaders.py", "      line = line.strip()\n      if len(line) == 0", "      line = line[:-1]\n      line = line.strip()\n      if len(line) == 0"),
 ("C14", "removals-before-overrides", "tools/potable/__init__.py", "  overrides_list = list(override_dict.values())", "  overrides_list = sorted(override_dict.values(), key=lambda t: t.value is not None)"),
 ("C14", "value-rsplit", "tools/potable/__init__.py", '    key, value = key.split("=", 1)', '    key, value = key.rsplit("=", 1)'),
 ("C14", "list-pair-twice", "tools/potable/_query_actions.py", '  if "potential_form" in parsed_sections:', '  if "pair" in parsed_sections:\n    items.extend(_list_pair(cp))\n  if "potential_form" in parsed_sections:'),
 ("C15", "revert-own-options", "config/_config_parser.py", "  def options(self, section):", "  def _unused_options(self, section):"),
 ("C20", "table-vs-standard-check-off", "config/_potential_form_registry.py", "      if d.name in self._potential_forms or d.name in table_forms:", "      if False:"),
 ("C20", "reversed-pair-check-off", "config/_config_parser.py", "        if (p in seen) or (rev_p in seen):", "        if (p in seen):"),
 ("C20", "revert-optionxform", "config/_config_parser.py", "    option = option.strip().replace(' ', '').replace('\\t', '')", "    option = option.strip()"),
 ("C16", "dlpoly-synonym-removed", "config/_config_parser.py", "    'DL_POLY' : 'DLPOLY'", "    'DL_POLY' : 'DL_POLY'"),
 ("C16", "dlpoly-mod4-config-off", "config/_tabulation_factories.py", "if cutoffs.nr % 4 != 0:", "if False and cutoffs.nr % 4 != 0:"),
 ("C16", "revert-rmin-guard", "_modifiers.py", "      if not (detach_point.r < r_min < attach_point.r):", "      if not r_min < attach_point.r and not r_min > detach_point.r:"),
 ("C16", "revert-table-xy-check", "config/_config_parser.py", '      if not ("x" in section and "y" in section):', '      if not "x" and "y" in section:'),
 ("C03", "setfl-nr-minus-1", "eam_tabulation.py", None, None),
]
def main():
    prop = sys.argv[1]; sub = sys.argv[2] if len(sys.argv) > 2 else ""
    for (p, name, f, old, new) in M:
        if p != prop or sub not in name or old is None: continue
        path = R + f
        src = open(path).read()
        if src.count(old) < 1:
            print("MUTANT %s/%s: pattern not found" % (p, name)); continue
        try:
            open(path, "w").write(src.replace(old, new, 1))
            r = subprocess.run(["/verif/check", prop], capture_output=True, text=True)
            viol = [l for l in r.stdout.split("\n") if l.startswith("VIOLATION") or l.startswith("  what")]
            print("MUTANT %s/%s: rc=%d %s" % (p, name, r.returncode, " | ".join(viol)[:300]))
        finally:
            subprocess.run(["git", "-C", "/repo", "checkout", "--", "."])
    print(subprocess.run(["git", "-C", "/repo", "status", "--short"], capture_output=True, text=True).stdout or "repo clean")
main()
