#!/usr/bin/env python3
"""tools/seedmatrix.py [--all] [--tier quick] [ids...]
Applies every seeded change under seeded/ to /repo in turn (always reverting), runs the check of its own property (or, with --all, every check)
and writes seeded/MATRIX.json: {seed id: {check id: "caught" | "caught-no-input" | "pass" | "infra"}}.  Never leaves /repo modified."""
import json, os, subprocess, sys
ROOT = os.path.dirname(os.path.dirname(os.path.abspath(__file__)))
args = sys.argv[1:]
every = "--all" in args
tier = args[args.index("--tier") + 1] if "--tier" in args else "quick"
ids = [a for a in args if a.startswith("C")]
seeds = sorted(d for d in os.listdir(os.path.join(ROOT, "seeded")) if os.path.isdir(os.path.join(ROOT, "seeded", d)))
if ids:
    seeds = [s for s in seeds if s in ids or s.split("_")[0] in ids]
props = ["C%02d" % i for i in range(1, 21)]
path = os.path.join(ROOT, "seeded", "MATRIX.json")
matrix = json.load(open(path)) if os.path.exists(path) else {}
assert subprocess.run(["git", "-C", "/repo", "status", "--short"], capture_output=True, text=True).stdout.strip() == "", "/repo is not clean"
for s in seeds:
    patch = os.path.join(ROOT, "seeded", s, "patch.diff")
    if subprocess.run(["git", "-C", "/repo", "apply", patch]).returncode != 0:
        print(s, "patch does not apply"); matrix.setdefault(s, {})["_apply"] = "failed"; continue
    try:
        for p in (props if every else [s.split("_")[0]]):
            r = subprocess.run([os.path.join(ROOT, "check"), p, "--tier", tier], capture_output=True, text=True, cwd=ROOT)
            v = [l for l in r.stdout.splitlines() if l.startswith("VIOLATION")]
            res = "infra" if r.returncode not in (0, 1) else ("pass" if r.returncode == 0 else ("caught-no-input" if v and v[0].endswith("no-failing-input-found") else "caught"))
            matrix.setdefault(s, {})[p] = res
            print(s, p, res, flush=True)
    finally:
        subprocess.run(["git", "-C", "/repo", "checkout", "--", "."])
    json.dump(matrix, open(path, "w"), indent=1, sort_keys=True)
print("clean:", subprocess.run(["git", "-C", "/repo", "status", "--short"], capture_output=True, text=True).stdout.strip() == "")
