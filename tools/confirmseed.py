#!/usr/bin/env python3
"""usage: confirmseed.py <worktree> <seeddir> <dest-id> <check-prop> ["caught-by text"]
Confirms a seeded change myself (tests still 162/5 with it, demo FAILs with it and PASSes without), then keeps it under /verif/seeded/<dest-id>/."""
import json, os, shutil, subprocess, sys
wt, sd, dest, prop = sys.argv[1:5]
caught = sys.argv[5] if len(sys.argv) > 5 else ""
def sh(cmd, cwd=wt):
    return subprocess.run(cmd, shell=True, cwd=cwd, capture_output=True, text=True)
assert sh("git status --short -- atsim").stdout.strip() == "", "worktree atsim/ not clean"
r = sh("git apply %s/patch.diff" % sd); assert r.returncode == 0, r.stderr
try:
    t = sh("./run_tests.sh").stdout.strip().split("\n")[-1]
    d_with = sh("./run_demo.sh %s/demo.py" % sd)
finally:
    sh("git checkout -- atsim")
d_without = sh("./run_demo.sh %s/demo.py" % sd)
ok = ("162 passed" in t and "5 failed" in t and d_with.returncode != 0 and d_without.returncode == 0)
print("tests with change:", t); print("demo with change rc=%d, without rc=%d -> %s" % (d_with.returncode, d_without.returncode, "CONFIRMED" if ok else "NOT CONFIRMED"))
if not ok: sys.exit(1)
out = "/verif/seeded/%s" % dest
os.makedirs(out, exist_ok=True)
shutil.copy(sd + "/patch.diff", out); shutil.copy(sd + "/demo.py", out)
meta = json.load(open(sd + "/meta.json"))
meta.update(dict(id=dest, property=prop, confirmed_by_me=dict(tests_with_change=t, demo_with_change="FAIL rc=%d: %s" % (d_with.returncode, d_with.stdout.strip().split("\n")[-1][:200]),
            demo_without_change="PASS", how="tools/confirmseed.py in a scratch worktree of /repo (import shim conftest.py), then git checkout"),
            check_result=caught))
json.dump(meta, open(out + "/meta.json", "w"), indent=1)
print("kept", out)
