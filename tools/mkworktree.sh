#!/bin/bash
# usage: mkworktree.sh <dir>   - scratch git worktree of /repo with an import shim so that tests and demos use the worktree's code
set -e
D="$1"
git -C /repo worktree add -q "$D" HEAD
cat > "$D/conftest.py" <<'PY'
# scratch-worktree shim: make `import atsim` resolve to THIS worktree rather than the installed /repo
import sys, os, atsim
_here = os.path.dirname(os.path.abspath(__file__))
atsim.__path__.insert(0, os.path.join(_here, 'atsim'))
for k in list(sys.modules):
    if k.startswith('atsim.'):
        sys.modules.pop(k)
PY
cat > "$D/run_tests.sh" <<'SH'
#!/bin/bash
# runs the repository's test suite against THIS worktree's code; baseline on the unchanged tree: 162 passed, 5 failed (sympy / missing binaries)
cd "$(dirname "$0")"
/venv/bin/python -m pytest -q -p no:cacheprovider --timeout=900 --continue-on-collection-errors -W ignore 2>&1 | tail -15
SH
cat > "$D/run_demo.sh" <<'SH'
#!/bin/bash
# usage: ./run_demo.sh demo.py   - runs a demo script against THIS worktree's code
cd "$(dirname "$0")"
/venv/bin/python -W ignore -c "import conftest, runpy, sys; sys.argv=sys.argv[1:]; runpy.run_path(sys.argv[0], run_name='__main__')" "$@"
SH
chmod +x "$D/run_tests.sh" "$D/run_demo.sh"
echo "$D"
